"""C20 rig: run the real bits.__main__.main() in-process and observe, behaviourally, which
value of an option was in effect.

  * sys.argv is scripted, sys.stdin / sys.stdout are TextIOWrappers over BytesIO (newline="\\n",
    like CPython's own standard streams on POSIX), --config-dir is a fresh directory per run
  * collaborators that are not the subject of C20 are stubbed: bits.rpc.rpc_method (records the
    kwargs), getpass, secrets.randbelow/token_bytes (deterministic)
  * bits.__main__.Config is replaced by a recording subclass; the recorded attribute is the
    observation only where the option has no behavioural effect in that command
    (tx/output_format, rpc/network); everywhere else it is diagnostic

Effective value observed through:
  output_format  which of raw/hex/bin/pem the bytes on stdout are a rendering of the known result
  input_format   which encoding of the same data on stdin is understood
  network        bech32 hrp (addr), WIF version byte (wif), xprv/tprv (mnemonic --to-master-key)
  log_level      levels of the handlers of the `bits` logger after main()
  rpc_*          kwargs reaching bits.rpc.rpc_method (None and "" identified)
"""
import io
import json
import logging
import multiprocessing
import os
import random
import re
import shutil
import sys

from . import vlib

UNKNOWN_KEY = "frobnicate"
OPTIONS = ("log_level", "network", "input_format", "output_format", "rpc_url", "rpc_user", "rpc_password", "rpc_datadir")
RPC = OPTIONS[4:]
HASHES = ("sha256", "ripemd160", "hash160", "hash256")
SENTINEL_LEVEL = 7                       # handler level before main(): "set_log_level did not run"

# data that is NOT valid UTF-8 / hex / bin text, so that exactly one input format understands
# each of its encodings; leading zero byte and an embedded newline byte on purpose
DATA = b"\x00\xa5\xff\x80\x0a\x31"
PRIV = bytes.fromhex("a5" * 31 + "b7")
PAYLOAD20 = bytes(range(0x80, 0x94))
ENTROPY = bytes.fromhex("80ff" * 8)

LONG = {"log_level": "--log-level", "network": "--network", "input_format": "--input-format",
        "output_format": "--output-format", "rpc_url": "--rpc-url", "rpc_user": "--rpc-user",
        "rpc_password": "--rpc-password", "rpc_datadir": "--rpc-datadir"}
SHORT = {"log_level": "-L", "network": "-N", "input_format": "-1", "output_format": "-0", "rpc_url": "-rpc-url",
         "rpc_user": "-rpc-user", "rpc_password": "-rpc-password", "rpc_datadir": "-rpc-datadir"}
FMT_SHORT = {"raw": "", "hex": "x", "bin": "b", "pem": "pem"}


def encode(data: bytes, fmt: str) -> bytes:
    """harness-side rendering used only to CONSTRUCT stdin contents"""
    if fmt == "raw":
        return data
    if fmt == "hex":
        return data.hex().encode() + b"\n"
    if fmt == "bin":
        return "".join(f"{b:08b}" for b in data).encode() + b"\n"
    raise ValueError(fmt)


def decodings(out: bytes):
    """every reading of stdout bytes as a rendering: {fmt: bytes}"""
    d = {"raw": out}
    m = re.fullmatch(rb"((?:[0-9a-fA-F]{2})*)\r?\n", out)
    if m:
        d["hex"] = bytes.fromhex(m.group(1).decode())
    m = re.fullmatch(rb"((?:[01]{8})*)\r?\n", out)
    if m:
        s = m.group(1)
        d["bin"] = bytes(int(s[i:i + 8], 2) for i in range(0, len(s), 8))
    return d


# --------------------------------------------------------------------------- patched collaborators
class _State:
    installed = False
    cfg = None
    rpc_kwargs = None
    rnd = None
    real_setup_parser = None
    cached_parser = None
    cache_parser = False


def _install():
    """Patch the collaborators (idempotent; done in worker processes and for in-process replays)."""
    if _State.installed:
        return
    import secrets

    import bits
    import bits.__main__ as M
    import bits.config
    import bits.ecmath
    import bits.rpc

    real_config = bits.config.Config

    class SpyConfig(real_config):
        def __init__(self, **kw):
            super().__init__(**kw)
            _State.cfg = self

    M.Config = SpyConfig

    def rpc_method(method, *params, **kw):
        _State.rpc_kwargs = dict(kw)
        return "stub-result"

    bits.rpc.rpc_method = rpc_method
    M.getpass = lambda prompt="": ""
    # ECDSA signing is not the subject of C20 (C01 is): `bits sig` gets a fixed, well-formed (r, s)
    bits.ecmath.sign = lambda *a, **k: (int.from_bytes(PRIV, "big") >> 1, int.from_bytes(PAYLOAD20 * 2, "big") >> 100)
    # building the 20 sub-parsers is ~95 % of the cost of a run; with cache_parser the REAL parser built
    # by the real setup_parser() is reused within a worker (parse_args does not mutate a parser)
    _State.real_setup_parser = M.setup_parser

    def setup_parser():
        if not _State.cache_parser:
            return _State.real_setup_parser()
        if _State.cached_parser is None:
            _State.cached_parser = _State.real_setup_parser()
        return _State.cached_parser

    M.setup_parser = setup_parser
    _State.rnd = random.Random(20)
    secrets.randbelow = lambda n: _State.rnd.randrange(1, n) if n > 1 else 0
    secrets.token_bytes = lambda n=32: bytes(_State.rnd.randrange(256) for _ in range(n))
    _State.installed = True


def run_main(argv, stdin=b"", files=None, tomlsup=True, workdir=None, cache_parser=False):
    """One in-process run of bits.__main__.main().  files: {"config.json": text, ...}.
    Returns dict(ret, out, levels, cfg, rpc, exit)."""
    _install()
    import bits.__main__ as M
    import bits.config

    base = workdir or os.path.join(vlib.WORK, "cli", str(os.getpid()))
    os.makedirs(base, exist_ok=True)
    cdir = os.path.join(base, "confdir")
    shutil.rmtree(cdir, ignore_errors=True)
    os.mkdir(cdir)
    for name, text in (files or {}).items():
        with open(os.path.join(cdir, name), "w") as fh:
            fh.write(text)
    handlers = logging.getLogger("bits").handlers
    for h in handlers:
        h.setLevel(SENTINEL_LEVEL)
    _State.cfg = None
    _State.rpc_kwargs = None
    _State.rnd.seed(20)
    _State.cache_parser = cache_parser
    old = (sys.argv, sys.stdin, sys.stdout, sys.stderr, bits.config.HAS_TOMLLIB)
    ob = io.BytesIO()
    sys.argv = ["bits", "--config-dir", cdir] + list(argv)
    si = io.TextIOWrapper(io.BytesIO(stdin), encoding="utf-8", newline="\n")
    so = io.TextIOWrapper(ob, encoding="utf-8", newline="\n")
    sys.stdin, sys.stdout = si, so
    sys.stderr = io.StringIO()
    bits.config.HAS_TOMLLIB = bool(tomlsup)
    res = {"ret": None, "exit": None}
    try:
        try:
            res["ret"] = M.main()
        except SystemExit as e:
            res["exit"] = e.code if isinstance(e.code, int) else 1
        try:
            so.flush()
        except Exception:  # noqa
            pass
        res["out"] = ob.getvalue()
    finally:
        sys.argv, sys.stdin, sys.stdout, sys.stderr, bits.config.HAS_TOMLLIB = old
        shutil.rmtree(cdir, ignore_errors=True)
    res["levels"] = [h.level for h in handlers]
    # the effective options are read as ATTRIBUTES of the Config object (how the program itself reads them); where they are
    # stored inside the object is the implementation's business
    res["cfg"] = ({o: getattr(_State.cfg, o) for o in OPTIONS if hasattr(_State.cfg, o)} if _State.cfg is not None else None)
    res["rpc"] = _State.rpc_kwargs
    if res["ret"] is not None and not isinstance(res["ret"], str):
        res["ret"] = repr(res["ret"])
    return res


# --------------------------------------------------------------------------- configurations
def option_args(opt, value, spelling, attached):
    """argv tokens giving `opt` explicitly.  attached: the value must be glued to the flag (needed
    before a subcommand, where a bare -0/-1 would swallow the subcommand name)."""
    if spelling == "long":
        return [f"{LONG[opt]}={value}"]
    if opt in ("input_format", "output_format"):
        if attached and value == "raw":
            return [SHORT[opt] + "raw"]
        return [SHORT[opt] + FMT_SHORT[value]]
    return [SHORT[opt], value]


def config_files(row):
    """Contents of the config files of a configuration row."""
    files = {}
    for kind, val, name in ((row["jk"], row["jv"], "config.json"), (row["tk"], row["tv"], "config.toml")):
        if kind == "absent":
            continue
        d = {}
        if row["unknown"]:
            d[UNKNOWN_KEY] = "whatever"
        if kind == "key":
            d[row["opt"]] = val
        if name.endswith("json"):
            files[name] = json.dumps(d)
        else:
            files[name] = "".join(f"{k} = {json.dumps(v)}\n" for k, v in d.items())
    return files


_fix = {}


def _fixtures():
    """Known inputs/results per command, computed with library functions that are not the subject of
    C20 (hashes, key derivation, address/mnemonic encoders)."""
    if _fix:
        return _fix
    import bits
    import bits.crypto
    import bits.keys
    import bits.script
    import bits.tx
    from bits.bips import bip39

    _fix["hash"] = {"sha256": bits.crypto.sha256(DATA), "ripemd160": bits.crypto.ripemd160(DATA),
                    "hash160": bits.crypto.hash160(DATA), "hash256": bits.crypto.hash256(DATA)}
    _fix["pub"] = bits.keys.pub(PRIV)
    _fix["phrase"] = bip39.calculate_mnemonic_phrase(ENTROPY)
    _fix["addr"] = bits.to_bitcoin_address(PAYLOAD20, witness_version=0, network="mainnet")
    txin = bits.tx.txin(bits.tx.outpoint(bytes(range(1, 33)), 1), b"\x51")
    txout = bits.tx.txout(12345, bytes.fromhex("76a914") + PAYLOAD20 + bytes.fromhex("88ac"))
    _fix["rawtx"] = bits.tx.tx([txin], [txout], locktime=0x01020304)
    return _fix


def _is_sig(b):
    return len(b) > 8 and b[0] == 0x30 and b[1] == len(b) - 3 and b[2] == 0x02 and b[-1] == 0x01


def invocation(cmd, opt):
    """(argv after the subcommand name, stdin data to encode or raw stdin, kind of result check)."""
    fx = _fixtures()
    if cmd == "base":
        return [], DATA, ("data", DATA)
    if cmd in HASHES:
        return [], DATA, ("data", fx["hash"][cmd])
    if cmd == "key":
        return [], None, ("pred", lambda b: len(b) == 32)
    if cmd == "pubkey":   # a public key on input is re-encoded (no scalar multiplication: 70 ms in pure Python)
        return [], fx["pub"], ("data", fx["pub"])
    if cmd == "addr":
        return ["--witness-version", "0"], PAYLOAD20, ("addr", None)
    if cmd == "wif":
        return [], PRIV, ("wif", None)
    if cmd == "mnemonic":
        if opt == "input_format":
            return ["--from-entropy"], ENTROPY, ("text", (fx["phrase"] + "\n").encode())
        if opt == "network":
            return ["--to-master-key"], ("raw", fx["phrase"].encode() + b"\n"), ("xkey", None)
        return ["--to-entropy"], ("raw", fx["phrase"].encode() + b"\n"), ("data", ENTROPY)
    if cmd == "sig":
        return ["aabbcc"], PRIV, ("pred", _is_sig)
    if cmd == "tx":
        return ["--decode"], fx["rawtx"], ("tx", None)
    if cmd == "script":
        return ["OP_DUP"], None, ("data", b"\x76")
    if cmd == "rpc":
        return ["getblockcount"], None, ("rpc", None)
    raise ValueError(cmd)


NET_OF_HRP = ((b"bcrt1", "regtest"), (b"bc1", "mainnet"), (b"tb1", "testnet"))


def normalisation(cmd, opt):
    """Values that are behaviourally identical for the command are identified (DESIGN 4.3)."""
    if opt == "network" and cmd in ("wif", "mnemonic"):
        return "testnet=regtest"
    return ""


def same(norm, a, b):
    if a == b:
        return True
    return norm == "testnet=regtest" and {a, b} <= {"testnet", "regtest"}


def build_argv(row, spelling):
    cmd, opt, pos = row["cmd"], row["opt"], row["pos"]
    extra, _, _ = invocation(cmd, opt)
    given_before = option_args(opt, row["xv"], spelling, True) if pos == "before" else []
    given_own = option_args(opt, row["xv"], spelling, False) if pos == "own" else []
    if cmd == "base":
        return given_own
    return given_before + [cmd] + extra + given_own


def _stdin_for(row, in_fmt):
    _, data, _ = invocation(row["cmd"], row["opt"])
    if data is None:
        return b""
    if isinstance(data, tuple):
        return data[1]
    return encode(data, in_fmt)


def _result_ok(check, out_bytes):
    """does `out_bytes` (already decoded from its rendering) satisfy the command's known result?"""
    kind, ref = check
    if kind in ("data", "text"):
        return out_bytes == ref
    if kind == "pred":
        return ref(out_bytes)
    return False


def observe(row, spelling="short", cache_parser=False):
    """Run the configuration and return {"obs": observed effective value ("?" if none), "via": ..., ...}."""
    import bits.base58

    cmd, opt = row["cmd"], row["opt"]
    argv = build_argv(row, spelling)
    files = config_files(row)
    _, data, check = invocation(cmd, opt)
    exp = row.get("exp")
    info = {"argv": argv, "files": files}

    def run(in_fmt):
        r = run_main(argv, _stdin_for(row, in_fmt), files, row["tomlsup"], cache_parser=cache_parser)
        info.update(ret=r["ret"], exit=r["exit"], out=r["out"][:200].hex(),
                    cfg=(r["cfg"] or {}).get(opt) if r["cfg"] is not None else None)
        return r

    if opt == "input_format":
        # the same data is offered in one encoding at a time; the encoding that is understood is the
        # format in effect.  The expected one is tried first (at most one can succeed).
        order = [exp] + [f for f in ("hex", "raw", "bin") if f != exp] if exp in ("hex", "raw", "bin") else ["hex", "raw", "bin"]
        obs = "?"
        for f in order:
            r = run(f)
            if _understood(cmd, check, r):
                obs = f
                break
        info["obs"], info["via"] = obs, "understood-encoding"
        return info

    r = run("hex")
    if opt == "log_level":
        names = {logging.getLevelName(lv).lower() for lv in r["levels"]}
        info["obs"] = names.pop() if len(names) == 1 and SENTINEL_LEVEL not in r["levels"] else "?"
        info["via"] = "handler-levels"
    elif opt in RPC:
        if r["rpc"] is None or opt not in r["rpc"]:
            info["obs"] = "?"
        else:
            v = r["rpc"][opt]
            info["obs"] = "" if v is None else v
        info["via"] = "rpc-kwargs"
    elif opt == "network":
        info["via"] = "behaviour"
        out = r["out"]
        obs = "?"
        if cmd == "addr":
            for hrp, net in NET_OF_HRP:
                if out.startswith(hrp):
                    obs = net
                    break
        elif cmd == "wif":
            dec = vlib.run_call(bits.base58.base58check_decode, out.strip())
            if "ok" in dec and dec["ok"][1:33] == PRIV:
                obs = {0x80: "mainnet", 0xEF: "testnet"}.get(dec["ok"][0], "?")
        elif cmd == "mnemonic":
            obs = "mainnet" if out.startswith(b"xprv") else "testnet" if out.startswith(b"tprv") else "?"
        else:  # rpc: the network has no behavioural effect; the Config attribute is the observation
            obs = info["cfg"] if info["cfg"] is not None and r["rpc"] is not None else "?"
            info["via"] = "config-attribute"
        info["obs"] = obs
    elif opt == "output_format":
        if cmd == "tx":   # `bits tx` never renders bytes; the Config attribute is the observation
            info["obs"] = info["cfg"] if info["cfg"] is not None and _understood(cmd, check, r) else "?"
            info["via"] = "config-attribute"
        else:
            fits = [g for g, b in decodings(r["out"]).items() if _result_ok(check, b)]
            if cmd in ("key", "pubkey") and r["out"].startswith(b"-----BEGIN ") and b" KEY-----" in r["out"]:
                fits.append("pem")
            info["obs"] = fits[0] if len(fits) == 1 and r["ret"] is None else "?"
            info["via"] = "rendering"
    else:
        raise ValueError(opt)
    return info


def _understood(cmd, check, r):
    """did the run understand its stdin as the known data (default hex / fixed output rendering)?"""
    import bits.base58

    if r["ret"] is not None or r["exit"] is not None:
        return False
    kind, ref = check
    out = r["out"]
    if kind == "text":
        return out == ref
    if kind == "addr":
        return out == _fixtures()["addr"]
    if kind == "wif":
        dec = vlib.run_call(bits.base58.base58check_decode, out.strip())
        return "ok" in dec and dec["ok"][1:33] == PRIV
    if kind == "tx":
        try:
            d = json.loads(out.decode())
            return d["locktime"] == 0x01020304 and d["txouts"][0]["value"] == 12345 and d["txins"][0]["vout"] == 1
        except Exception:  # noqa
            return False
    d = decodings(out)
    return "hex" in d and _result_ok(check, d["hex"])


# --------------------------------------------------------------------------- parallel execution
def _worker_init():
    try:
        dn = os.open(os.devnull, os.O_WRONLY)
        os.dup2(dn, 2)
    except OSError:
        pass
    _install()
    _fixtures()


def _observe_job(job):
    row, spelling, cache = job
    try:
        return observe(row, spelling, cache)
    except Exception as e:  # noqa - reported by the parent as a machinery failure
        return {"obs": "?", "harness_error": f"{type(e).__name__}: {e}"}


IN_FLAG = {"raw": "-1", "hex": "-1x", "bin": "-1b"}
OUT_FLAG = {"raw": "-0", "hex": "-0x", "bin": "-0b"}


def _stream(data=b""):
    buf = io.BytesIO(data)
    return buf, io.TextIOWrapper(buf, encoding="utf-8", newline="\n")


def call_read(text: bytes, fmt: str, via_stdin=False):
    """bits.read_bytes on a text stream holding `text` (as file_ argument, or as sys.stdin)."""
    import bits

    _, f = _stream(text)
    if not via_stdin:
        return vlib.run_call(bits.read_bytes, f, input_format=fmt)
    old = sys.stdin
    sys.stdin = f
    try:
        return vlib.run_call(bits.read_bytes, None, input_format=fmt)
    finally:
        sys.stdin = old


def call_write(data: bytes, fmt: str, via_stdout=False):
    import bits

    buf, f = _stream()
    old = sys.stdout
    if via_stdout:
        sys.stdout = f
    try:
        res = vlib.run_call(bits.write_bytes, data, None if via_stdout else f, output_format=fmt)
        if "ok" in res:
            f.flush()
            res = {"ok": buf.getvalue()}
        return res
    finally:
        sys.stdout = old


def call_convert(text: bytes, f: str, g: str, cache_parser=False, via_files=False):
    """the base command: `bits -1<f> -0<g>` with `text` on stdin (or --in-file / --out-file)"""
    if not via_files:
        r = run_main([IN_FLAG[f], OUT_FLAG[g]], text, cache_parser=cache_parser)
        out = r["out"]
    else:
        import gc

        base = os.path.join(vlib.WORK, "cli", str(os.getpid()))
        os.makedirs(base, exist_ok=True)
        fin, fout = os.path.join(base, "in.dat"), os.path.join(base, "out.dat")
        with open(fin, "wb") as fh:
            fh.write(text)
        if os.path.exists(fout):
            os.remove(fout)
        r = run_main([IN_FLAG[f], OUT_FLAG[g], "--in-file", fin, "--out-file", fout], b"", cache_parser=cache_parser)
        gc.collect()            # main() leaves closing the files to the interpreter
        out = b""
        if os.path.exists(fout):
            with open(fout, "rb") as fh:
                out = fh.read()
    if r["ret"] is None and r["exit"] is None:
        return {"ok": out}
    return {"err": str(r["ret"] or f"exit {r['exit']}")[:120]}


def execute(ev, cache_parser=False):
    """Fill in the outcome fields of a stage-C event request (byte strings are int lists)."""
    ev = dict(ev)
    op = ev["op"]
    alt = bool(ev.get("alt"))
    if op == "read":
        r = call_read(bytes(ev["text"]), ev["fmt"], via_stdin=alt)
        ev.update(ok="ok" in r and isinstance(r.get("ok"), (bytes, bytearray)), r=list(r["ok"]) if "ok" in r and isinstance(r["ok"], (bytes, bytearray)) else [], exc=r.get("err"))
    elif op == "write":
        r = call_write(bytes(ev["data"]), ev["fmt"], via_stdout=alt)
        ev.update(ok="ok" in r, r=list(r.get("ok", b"")), exc=r.get("err"))
    elif op == "conv":
        r = call_convert(bytes(ev["text"]), ev["f"], ev["g"], cache_parser, via_files=alt)
        ev.update(ok="ok" in r, out=list(r.get("ok", b"")), exc=r.get("err"))
    elif op == "rt":
        b, f, g = bytes(ev["b"]), ev["f"], ev["g"]
        ev.update(ok=False, t1=[], t2=[], t3=[], b2=[], exc=None)
        r1 = call_write(b, f)
        if "ok" in r1:
            ev["t1"] = list(r1["ok"])
            r2 = call_convert(r1["ok"], f, g, cache_parser)
            if "ok" in r2:
                ev["t2"] = list(r2["ok"])
                r3 = call_convert(r2["ok"], g, f, cache_parser)
                if "ok" in r3:
                    ev["t3"] = list(r3["ok"])
                    r4 = call_read(r3["ok"], f)
                    if "ok" in r4:
                        ev.update(ok=True, b2=list(r4["ok"]))
                    else:
                        ev["exc"] = "read: " + r4["err"]
                else:
                    ev["exc"] = f"convert {g}->{f}: " + r3["err"]
            else:
                ev["exc"] = f"convert {f}->{g}: " + r2["err"]
        else:
            ev["exc"] = "write: " + r1["err"]
    elif op == "prec":
        o = observe(ev, ev.get("spelling", "short"), cache_parser)
        ev.update(obs=o["obs"], via=o.get("via"), argv=o.get("argv"), files=o.get("files"), ret=o.get("ret"),
                  exit=o.get("exit"), cfg_attr=o.get("cfg"), norm=normalisation(ev["cmd"], ev["opt"]))
    else:
        raise ValueError(op)
    return ev


def _execute_job(job):
    ev, cache = job
    try:
        return execute(ev, cache)
    except Exception as e:  # noqa
        return {"harness_error": f"{type(e).__name__}: {e}", **ev}


class Pool:
    """fork pool of in-process CLI runners (bits is already imported and bound in the parent)."""

    def __init__(self, n=16):
        vlib.bind_repo()
        os.makedirs(os.path.join(vlib.WORK, "cli"), exist_ok=True)
        self.pool = multiprocessing.get_context("fork").Pool(n, initializer=_worker_init)

    def observe_all(self, rows, spelling="short", cache_parser=False):
        res = self.pool.map(_observe_job, [(r, spelling, cache_parser) for r in rows], chunksize=32)
        bad = [x for x in res if "harness_error" in x]
        if bad:
            raise vlib.MachineryFailure(f"CLI rig failed on {len(bad)} configurations: {bad[0]['harness_error']}")
        return res

    def execute_all(self, events, cache_parser=False):
        res = self.pool.map(_execute_job, [(e, cache_parser) for e in events], chunksize=8)
        bad = [x for x in res if "harness_error" in x]
        if bad:
            raise vlib.MachineryFailure(f"CLI rig failed on {len(bad)} events: {bad[0]['harness_error']}")
        return res

    def close(self):
        self.pool.terminate()
        self.pool.join()

    def __enter__(self):
        return self

    def __exit__(self, *a):
        self.close()
