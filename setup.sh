#!/bin/sh
# Build the framework from files on disk only (offline): compile the TLC operator overrides
# and parse every specification module.
set -e
cd "$(dirname "$0")"
mkdir -p build/classes evidence replays
javac -cp /opt/veriftools/tla/tla2tools.jar -d build/classes java/*.java
cd spec
fail=0
for f in *.tla; do
  if ! java -cp /opt/veriftools/tla/tla2tools.jar:/opt/veriftools/tla/CommunityModules-deps.jar tla2sany.SANY "$f" >/tmp/sany.$$ 2>&1; then
    echo "SANY failed on $f"; cat /tmp/sany.$$; fail=1
  elif grep -q "Fatal\|\*\*\* Errors\|Could not parse" /tmp/sany.$$; then
    echo "SANY failed on $f"; cat /tmp/sany.$$; fail=1
  fi
done
rm -f /tmp/sany.$$
[ $fail = 0 ] && echo "setup ok"
exit $fail
