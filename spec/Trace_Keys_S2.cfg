CONSTANTS Big = FALSE CP = 67 CB = 7 CN = 79 CGx = 2 CGy = 22
INIT Init
NEXT Next
CHECK_DEADLOCK FALSE
