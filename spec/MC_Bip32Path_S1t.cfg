CONSTANTS Big = FALSE CP = 43 CB = 7 CN = 31 CGx = 2 CGy = 12
NSeeds = 12 MaxLen = 3
IdxSel = {1, 2, 3, 4, 5, 6}
INIT Init
NEXT Next
INVARIANT FoldInv
INVARIANT PrefixInv
INVARIANT Compose
INVARIANT Bookkeeping
INVARIANT HardenedNeedsPrivate
INVARIANT PubPrivCommute
INVARIANT RoundTrip
INVARIANT Census
CHECK_DEADLOCK FALSE
