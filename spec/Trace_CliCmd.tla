--------------------------- MODULE Trace_CliCmd ---------------------------
(***************************************************************************)
(* Stage C / stage B of the CliCmd extension: one event = one run of the   *)
(* real command line (`bits <cmd> ...` through harness/clirig), judged by  *)
(* CliCmd.tla at real size (cfg: secp256k1, Big = TRUE; native hashes).    *)
(*   e = [id, cmd, opts, input,        the invocation                      *)
(*        rc     0 = exit status zero, 1 = anything else,                  *)
(*        out    bytes on stdout,  fout  bytes in --out-file (sink "file"),*)
(*        ret    text main() returned (what a console script prints to     *)
(*               stderr before exiting 1),                                 *)
(*        jok, j the JSON document on stdout, parsed and normalised by the *)
(*               harness (hex -> bytes, numbers -> fixed-width LE bytes)]  *)
(* Verdict = "ok", "open" (the specification leaves the outcome of this    *)
(* invocation open) or the name of the failing clause.  A few clause names   *)
(* recognise a NAMED deviation of the pinned code, so that the rest of the *)
(* outcome is still checked: tx-build-result-returned-not-printed,         *)
(* out-file-ignored, print-flag-ignored, bech32-witness-version-not-       *)
(* bech32m, script-witness-decode-fails.                                   *)
(***************************************************************************)
EXTENDS CliCmd, Secp256k1, Json, IOUtils, TLC
Trace == JsonDeserialize(IOEnv.TRACE_FILE)
VARIABLE l

InvOf(e) == [cmd |-> e.cmd, opts |-> e.opts, input |-> e.input]
Formats3 == {"raw", "hex", "bin"}

(* ---- byte-producing forms ---- *)
Got(e) == IF e.opts.sink = "file" THEN e.fout ELSE e.out
FileIgnored(e) == e.opts.sink = "file" /\ e.fout = <<>> /\ e.out # <<>>
WithOutf(inv, f) == [inv EXCEPT !.opts.outf = f]
Accept(inv, want, b) == b = want.v \/ b \in AltOutputs(inv, want.v)
(* main() returned the hex text of the transaction instead of writing it *)
TxBuildReturned(e, inv) ==
    e.cmd = "tx" /\ e.rc # 0 /\ e.out = <<>> /\ Append(e.ret, NL) = Expected(WithOutf(inv, "hex")).v
(* named deviations of the output b from the expected one *)
Bech32Const1(e, inv, b) ==
    e.cmd = "bech32" /\ e.opts.haswv /\ e.opts.wv \in 1..16 /\
    LET o == e.opts  r == Rd(inv) IN
    r.ok /\ b = WithNL(AD!BechEncode(o.hrp, <<o.wv>> \o AD!ConvertBits8to5(r.v), AD!Bech32Const), o.print)
Bech32Mixed(e, b) == e.cmd = "bech32" /\ ~e.opts.decode /\ HasUpper(e.opts.hrp) /\ AD!MixedCase(b)
Base58PrintInData(e, b) ==
    e.cmd = "base58" /\ e.opts.decode /\ e.opts.print /\ e.opts.outf # "raw" /\
    LET d == IF e.opts.check THEN AD!DecCheck(e.input) ELSE AD!Dec(e.input) IN d.ok /\ b = Wr(Append(d.v, NL), e.opts.outf)
OtherFormat(e, inv, b) ==
    e.cmd \notin {"key", "pubkey"} /\ e.opts.outf \in Formats3 /\
    \E f \in Formats3 \ {e.opts.outf} : LET w == Expected(WithOutf(inv, f)) IN w.ok /\ w.v = b
Named(e, inv, want, b) ==
    IF e.opts.print /\ Append(b, NL) = want.v THEN "print-flag-ignored"
    ELSE IF Bech32Const1(e, inv, b) THEN "bech32-witness-version-not-bech32m"
    ELSE IF Bech32Mixed(e, b) THEN "bech32-mixed-case-output"
    ELSE IF Base58PrintInData(e, b) THEN "print-newline-rendered-as-data"
    ELSE IF OtherFormat(e, inv, b) THEN "output-format-wrong"
    ELSE ""

BytesVerdict(e, inv) ==
    LET want == Expected(inv) IN
    IF ~want.ok THEN (IF e.rc = 0 THEN e.cmd \o "-accepted-invalid-" \o FailReason(inv) ELSE "ok")
    ELSE IF e.rc # 0 THEN
         (IF TxBuildReturned(e, inv) THEN "tx-build-result-returned-not-printed"
          ELSE IF MayFail(inv) THEN "ok" ELSE e.cmd \o "-rejected-valid")
    ELSE IF Accept(inv, want, Got(e))
         THEN (IF e.opts.sink = "file" /\ e.out # <<>> THEN "output-also-on-stdout" ELSE "ok")
    ELSE IF FileIgnored(e) /\ (Accept(inv, want, e.out) \/ Named(e, inv, want, e.out) # "") THEN "out-file-ignored"
    ELSE LET n == Named(e, inv, want, Got(e)) IN IF n # "" THEN n ELSE e.cmd \o "-output-wrong"

(* ---- JSON forms ---- *)
EitherOrder(a, b) == a = b \/ a = Rev(b)
TxInMatch(a, b)  == EitherOrder(a.txid, b.txid) /\ a.vout = b.vout /\ a.script = b.script /\ a.seq = b.seq
TxMatch(j, t) ==
    /\ j.version = t.version /\ j.locktime = t.locktime /\ j.wit = t.wit /\ j.outs = t.outs
    /\ Len(j.ins) = Len(t.ins) /\ \A i \in 1..Len(t.ins) : TxInMatch(j.ins[i], t.ins[i])
    /\ EitherOrder(j.txid, t.txid) /\ EitherOrder(j.wtxid, t.wtxid)
HdrMatch(j, h) ==
    /\ j.version = h.version /\ j.time = h.time /\ j.bits = h.bits /\ j.nonce = h.nonce
    /\ EitherOrder(j.prev, h.prev) /\ EitherOrder(j.merkle, h.merkle)
ItemsMatch(js, want) ==
    Len(js) = Len(want) /\ \A i \in 1..Len(want) : LET q == BK!FromNamed(js[i]) IN q.ok /\ q.v = want[i]

JMatch(e, w) ==
    LET j == e.j IN
    CASE e.cmd = "wif" ->
           j.version = <<w.version>> /\ j.network = w.net /\ j.type = w.type /\ j.key = w.key /\ j.data = w.suffix
      [] e.cmd = "bech32" -> j = w
      [] e.cmd = "script" -> ItemsMatch(j, w)
      [] e.cmd = "tx"     -> TxMatch(j, w)
      [] e.cmd = "blockchain" ->
           /\ HdrMatch(j.hdr, w.hdr) /\ Len(j.txs) = Len(w.txs)
           /\ \A i \in 1..Len(w.txs) : TxMatch(j.txs[i].t, w.txs[i].t) /\ j.txs[i].raw = w.txs[i].raw

JsonVerdict(e, inv) ==
    LET want == ExpectedJ(inv) IN
    IF ~want.ok THEN (IF e.rc = 0 THEN e.cmd \o "-decode-accepted-invalid" ELSE "ok")
    ELSE IF e.rc # 0 THEN (IF e.cmd = "script" /\ e.opts.witness THEN "script-witness-decode-fails"
                           ELSE e.cmd \o "-decode-rejected-valid")
    ELSE IF ~e.jok THEN "output-format-wrong"
    ELSE IF JMatch(e, want.v) THEN "ok" ELSE e.cmd \o "-decode-wrong"

(* ---- sig --verify: "OK" on stdout exactly for valid signatures ---- *)
OkLine == <<79, 75, 10>>
StatusVerdict(e, inv) ==
    LET s == ExpectedS(inv)  saysOk == e.rc = 0 /\ e.out = OkLine IN
    CASE s = "OK"     -> IF saysOk THEN "ok" ELSE "sig-verify-rejects-valid"
      [] s = "NOT-OK" -> IF saysOk THEN "sig-verify-accepts-invalid" ELSE "ok"
      [] OTHER        -> IF e.rc = 0 THEN "sig-accepted-invalid" ELSE "ok"

Verdict(e) ==
    LET inv == InvOf(e) IN
    IF e.cmd \notin Commands THEN "unknown-command"
    ELSE IF Unconstrained(inv) THEN "open"                      \* either outcome allowed: counted apart by the harness
    ELSE CASE Produces(inv) = "bytes"  -> BytesVerdict(e, inv)
           [] Produces(inv) = "json"   -> JsonVerdict(e, inv)
           [] Produces(inv) = "status" -> StatusVerdict(e, inv)

(* published vectors / spec self-tests that are not runs of the command line *)
SelfTest(e) ==
    CASE e.t = "genesis-hash" -> IF BK!BlockHash(GenesisHeader) = GenesisHash THEN "ok" ELSE "genesis-hash-wrong"
      [] e.t = "genesis-block" -> IF GenesisBlock = e.block THEN "ok" ELSE "genesis-block-wrong"
      [] OTHER -> "unknown-selftest"

Init == l = 1
Next == /\ l <= Len(Trace)
        /\ PrintT(<<"V", Trace[l].id, IF Trace[l].cmd = "selftest" THEN SelfTest(Trace[l]) ELSE Verdict(Trace[l])>>)
        /\ l' = l + 1
=============================================================================
