----------------------------- MODULE Trace_Bip32 -----------------------------
(***************************************************************************)
(* Stage C for C09 (secp256k1 size, real HMAC-SHA512 / HASH160 / SHA-256   *)
(* through the Native overrides).  Events:                                 *)
(*   derive  one scenario (seed, network, path, neuter point j) with, per  *)
(*           node t = 0..L of the path, what the code returned for         *)
(*             xs  derive_from_path one step at a time  (m/i_t from xs[t-1])*)
(*             xp  derive_from_path along the whole prefix from the root   *)
(*             pu  get_xpub(xs)          pi  get_xpub(pu)                  *)
(*             ps  derive_from_path("M/i_t", pu[t-1])    (public step)     *)
(*             pp  derive_from_path("M/i_j+1/../i_t", pu[j])               *)
(*             kp  CKDpriv(k[t-1], c[t-1], i_t)     as ser256(k) || c      *)
(*             kn  N(k[t], c[t])                    as x || y || c         *)
(*             kq  CKDpub(K[t-1], c[t-1], i_t)      as x || y || c         *)
(*           each an item [st : "ok" | "err" | "na", v : bytes].  The spec *)
(*           recomputes every node FROM THE SEED (PathNodes) and judges.   *)
(*           The published BIP32 vectors are such events with xs / pu set  *)
(*           to the published strings (spec self-test).                    *)
(*   deser   Base58Check string -> accept/reject (+ fields; pd = the       *)
(*           return_dict form re-packed as the 78-byte payload)            *)
(*   ser     fields -> serialized_extended_key -> string, and back         *)
(***************************************************************************)
EXTENDS Bip32, Secp256k1, Json, IOUtils, TLC
Trace == JsonDeserialize(IOEnv.TRACE_FILE)
VARIABLE l

PointBytes(K) == NToBE(K[1], 32) \o NToBE(K[2], 32)

(* judge one logged item against the specification's expectation *)
Judge(it, expOk, expV, name) ==
    IF it.st = "na" THEN "ok"
    ELSE IF expOk /\ it.st = "err" THEN name \o "-raised"
    ELSE IF ~expOk /\ it.st = "ok" THEN name \o "-defined-where-bip32-is-not"
    ELSE IF expOk /\ it.v # expV THEN name \o "-wrong"
    ELSE "ok"
(* two logged items that the property says are equal *)
Same(a, b, name) ==
    IF a.st = "na" \/ b.st = "na" THEN "ok"
    ELSE IF a.st # b.st \/ (a.st = "ok" /\ a.v # b.v) THEN name ELSE "ok"

RECURSIVE First(_)
First(cs) == IF cs = <<>> THEN "ok" ELSE IF Head(cs) # "ok" THEN Head(cs) ELSE First(Tail(cs))

NoHardened(path, a, b) == \A t \in a..b : ~Hardened(path[t])

NodeVerdict(e, ns, t) ==          \* t = depth 0..Len(e.path); ns[t+1] is the spec's node
    LET n    == ns[t + 1]
        nd   == e.nodes[t + 1]
        xok  == n.x.ok
        xstr == IF xok THEN XKeyStr(n.x.v) ELSE <<>>
        pstr == IF xok THEN XKeyStr([n.x.v EXCEPT !.prv = FALSE, !.key = n.K]) ELSE <<>>
        hard == t > 0 /\ Hardened(e.path[t])
        par  == IF t > 0 THEN ns[t] ELSE n
        (* the public child per CKDpub of the parent's public key *)
        qok  == t > 0 /\ n.q.ok
        qstr == IF qok THEN XKeyStr(XKey(FALSE, e.net, t, Fingerprint(par.K), e.path[t], n.q.v.c, n.q.v.K)) ELSE <<>>
        (* spec self-consistency at full size: N(CKDpriv) = CKDpub(N) *)
        specCommute == (t = 0 \/ hard \/ ~par.x.ok) \/ (qok = xok /\ (xok => (n.q.v.K = n.K /\ n.q.v.c = n.x.v.cc)))
    IN IF ~specCommute THEN "SPEC-commutation-broken"
       ELSE First(<<
         Judge(nd.xs, xok, xstr, "step-xprv"),
         Judge(nd.xp, xok, xstr, "path-xprv"),
         Same(nd.xs, nd.xp, "path-differs-from-steps"),
         Judge(nd.pu, xok, pstr, "xpub"),
         Judge(nd.pi, xok, pstr, "xpub-of-xpub"),
         IF hard THEN (IF nd.ps.st = "ok" THEN "hardened-child-derived-from-public-key" ELSE "ok")
         ELSE IF t = 0 THEN Judge(nd.ps, xok, pstr, "public-step")
         ELSE Judge(nd.ps, qok, qstr, "public-step"),
         IF hard \/ t = 0 THEN "ok" ELSE Same(nd.ps, nd.pu, "public-and-private-derivation-differ"),
         IF t < e.j THEN "ok"
         ELSE IF ~NoHardened(e.path, e.j + 1, t)
              THEN (IF nd.pp.st = "ok" THEN "hardened-child-derived-from-public-key" ELSE "ok")
              ELSE Judge(nd.pp, xok, pstr, "public-path"),
         IF t = 0 THEN "ok" ELSE Judge(nd.kp, xok, IF xok THEN Ser256(n.x.v.key) \o n.x.v.cc ELSE <<>>, "ckdpriv"),
         Judge(nd.kn, xok, IF xok THEN PointBytes(n.K) \o n.x.v.cc ELSE <<>>, "neuter"),
         IF t = 0 THEN "ok"
         ELSE IF hard THEN (IF nd.kq.st = "ok" THEN "hardened-child-derived-from-public-key" ELSE "ok")
         ELSE Judge(nd.kq, qok, IF qok THEN PointBytes(n.q.v.K) \o n.q.v.c ELSE <<>>, "ckdpub"),
         IF hard \/ t = 0 THEN "ok" ELSE Same(nd.kn, nd.kq, "ckdpub-differs-from-neutered-ckdpriv")
       >>)

RECURSIVE Walk(_, _, _)
Walk(e, ns, t) == IF t > Len(e.path) THEN "ok"
                  ELSE LET v == NodeVerdict(e, ns, t) IN IF v # "ok" THEN v ELSE Walk(e, ns, t + 1)

DeriveVerdict(e) ==
    LET m  == Master(e.seed)
        x0 == MasterX(e.seed, e.net)
        v0 == First(<<Judge(e.master, m.ok, IF m.ok THEN Ser256(m.v.k) \o m.v.c ELSE <<>>, "master"),
                      Judge(e.root, x0.ok, IF x0.ok THEN XKeyStr(x0.v) ELSE <<>>, "root-xprv")>>)
    IN IF v0 # "ok" THEN v0
       ELSE Walk(e, PathNodes(x0, e.path), 0)

(* fields as the code returns them, flattened: version depth fingerprint childnum chaincode key *)
(* (key: ser256(k) for a private key, x || y for a public key)                                 *)
Fields(x) == Version(x) \o <<x.depth>> \o x.fp \o x.idx \o x.cc \o (IF x.prv THEN Ser256(x.key) ELSE PointBytes(x.key))

DeserVerdict(e) ==
    LET d == DeserXKeyStr(e.s) IN
    IF e.acc # d.ok THEN (IF d.ok THEN "deser-rejects-valid-key" ELSE "deser-accepts-invalid-key")
    ELSE IF d.ok /\ e.hasf /\ e.f # Fields(d.v) THEN "deser-fields-wrong"
    ELSE Judge(e.pd, d.ok, IF d.ok THEN SerXKey(d.v) ELSE <<>>, "deser-dict")     \* return_dict = TRUE, re-packed as payload

SerVerdict(e) ==
    LET key == IF e.prv THEN NFromBE(e.key) ELSE <<NFromBE(SubSeq(e.key, 1, 32)), NFromBE(SubSeq(e.key, 33, 64))>>
        x   == XKey(e.prv, e.net, e.depth, e.fp, e.idx, e.cc, key)
    IN First(<<Judge(e.out, TRUE, XKeyStr(x), "serialize"),
               IF DeserXKey(SerXKey(x)) # Ok(x) THEN "SPEC-roundtrip-broken" ELSE "ok",
               Judge(e.back, TRUE, Fields(x), "roundtrip-fields")>>)

Verdict(e) == CASE e.op = "derive" -> DeriveVerdict(e)
                [] e.op = "deser"  -> DeserVerdict(e)
                [] e.op = "ser"    -> SerVerdict(e)
                [] OTHER -> "unknown-op"

Init == l = 1
Next == /\ l <= Len(Trace)
        /\ PrintT(<<"V", Trace[l].id, Verdict(Trace[l])>>)
        /\ l' = l + 1
=============================================================================
