CONSTANTS HashLen = 32  Big = FALSE
INIT Init
NEXT Next
CHECK_DEADLOCK FALSE
