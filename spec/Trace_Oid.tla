------------------------------ MODULE Trace_Oid ------------------------------
(* Stage C of the Oid extension: events [id, k = "enc", a : arcs, got : [ok, v : bytes]] and                      *)
(* [id, k = "dec", b : bytes, got : [ok, v : dotted text as bytes]] recorded from bits.pem.encode_oid / parse_oid. *)
EXTENDS Oid, Json, IOUtils, TLC
Trace == JsonDeserialize(IOEnv.TRACE_FILE)
VARIABLE l
S(x) == [i \in 1..Len(x) |-> x[i]]
Verdict(e) ==
    IF e.k = "enc"
    THEN LET w == Enc(S(e.a)) IN
         IF w.ok /\ ~e.got.ok THEN "oid-enc-refused"
         ELSE IF ~w.ok THEN (IF e.got.ok THEN "oid-enc-accepted-invalid" ELSE "ok")
         ELSE IF S(e.got.v) # w.v THEN "oid-enc-wrong" ELSE "ok"
    ELSE LET w == Dec(S(e.b)) IN
         IF w.ok /\ ~e.got.ok THEN "oid-dec-refused"
         ELSE IF ~w.ok THEN (IF e.got.ok THEN "oid-dec-accepted-malformed" ELSE "ok")
         ELSE IF S(e.got.v) # Text(w.v) THEN "oid-dec-wrong" ELSE "ok"
Init == l = 1
Next == /\ l <= Len(Trace)
        /\ PrintT(<<"V", Trace[l].id, Verdict(Trace[l])>>)
        /\ l' = l + 1
=============================================================================
