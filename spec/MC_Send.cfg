CONSTANTS Big = FALSE CP = 43 CB = 7 CN = 31 CGx = 2 CGy = 12
Amounts = {0, 1, 999, 1000, 1001, 2500, 5000}
MaxUtxos = 3
Fees = {0, 1, 250}
INIT Init
NEXT Next
INVARIANT BuildConserves
INVARIANT SelectMinimal
INVARIANT TamperDetected
INVARIANT CommitsOutputs
INVARIANT CommitsOtherInputs
INVARIANT CommitsOwnInput
CHECK_DEADLOCK FALSE
