CONSTANTS Big = FALSE CP = 43 CB = 7 CN = 31 CGx = 2 CGy = 12
SignMsgs = {0}
SignAuxs = {0}
VerMsgs = {}
CountPks = {}
LenDs = {1,2,3}
EmitRows = FALSE
Dev = "nolen"
INIT Init
NEXT Next
INVARIANT SignDomain
INVARIANT SignSound
INVARIANT VerifyExact
INVARIANT WhyConsistent
INVARIANT LiftExact
INVARIANT OneSPerR
INVARIANT LenStrict
INVARIANT Emit
CHECK_DEADLOCK FALSE
