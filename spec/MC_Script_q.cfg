CONSTANTS LensSmall = {1, 2, 75, 76, 77, 255, 256, 257}  LensBig = {65535, 65536, 65537}  EveryLen = 600
MaxBytes = 5  ByteAlpha = {0, 1, 2, 76, 77, 78, 81, 118, 187}
WitLens = {0, 1, 252, 253, 255, 256, 65535, 65536}  WitLens3 = {0, 1, 253}  MaxRedeem = 600  Deviation = "none"
INIT Init
NEXT Next
INVARIANT AsmThenDisasm
INVARIANT AsmIsMinimal
INVARIANT HeaderIsShortestValidForm
INVARIANT DisasmThenAsm
INVARIANT WitnessRoundTrip
INVARIANT WitnessUsesCompactSize
INVARIANT TemplateDisassemblesToIntent
INVARIANT TemplateBytePatterns
CHECK_DEADLOCK FALSE
