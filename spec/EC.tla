--------------------------------- MODULE EC ---------------------------------
(***************************************************************************)
(* Short Weierstrass curve y^2 = x^3 + CB over F_CP (a = 0), base point    *)
(* G = <<CGx, CGy>> of prime order CN.  Points are <<x, y>>; Inf = <<>>.   *)
(* PointAdd has the four-way case split of bits.ecmath.point_add and       *)
(* ScalarMul is the MSB-first double-and-add loop of point_scalar_mul,     *)
(* written as a machine (one Double and one conditional AddBit per bit).   *)
(***************************************************************************)
EXTENDS Num
CONSTANTS CP, CB, CN, CGx, CGy

Inf == <<>>
G   == <<CGx, CGy>>
IsInf(p) == p = Inf
FAdd(a, b) == NAddMod(a, b, CP)
FSub(a, b) == NSubMod(a, b, CP)
FMul(a, b) == NMulMod(a, b, CP)
FInv(a)    == NInvMod(a, CP)
FSq(a)     == FMul(a, a)
InField(a) == NLt(a, CP)

Rhs(x)        == FAdd(FMul(FSq(x), x), CB)
OnCurve(x, y) == InField(x) /\ InField(y) /\ FSq(y) = Rhs(x)
IsPoint(p)    == IsInf(p) \/ OnCurve(p[1], p[2])
Neg(p)        == IF IsInf(p) THEN Inf ELSE <<p[1], FSub(NZero, p[2])>>

PointAdd(p, q) ==
    IF IsInf(p) THEN q
    ELSE IF IsInf(q) THEN p
    ELSE IF p = q THEN                      \* doubling (tangent)
         LET s  == FMul(FMul(NLit(3), FSq(p[1])), FInv(FMul(NLit(2), p[2])))
             xr == FSub(FSq(s), FMul(NLit(2), p[1]))
             yr == FSub(FMul(s, FSub(p[1], xr)), p[2])
         IN <<xr, yr>>
    ELSE IF p = Neg(q) THEN Inf             \* inverse
    ELSE                                    \* chord
         LET s  == FMul(FSub(q[2], p[2]), FInv(FSub(q[1], p[1])))
             xr == FSub(FSub(FSq(s), p[1]), q[1])
             yr == FSub(FMul(s, FSub(p[1], xr)), p[2])
         IN <<xr, yr>>

(* one iteration of the double-and-add loop for bit number `bit` of k *)
MulStep(acc, k, bit, p) == LET d == PointAdd(acc, acc)
                           IN IF NTestBit(k, bit) THEN PointAdd(d, p) ELSE d
RECURSIVE MulLoop(_, _, _, _)
MulLoop(acc, k, bit, p) == IF bit < 0 THEN acc ELSE MulLoop(MulStep(acc, k, bit, p), k, bit - 1, p)
ScalarMul(k, p) == MulLoop(Inf, k, NBitLen(k) - 1, p)

(* square root for CP = 3 (mod 4): candidate y with y^2 = c, if any *)
SqrtCand(c) == NPowMod(c, NDiv(NAdd(CP, NLit(1)), NLit(4)), CP)
HasSqrt(c)  == FSq(SqrtCand(c)) = c

(* private keys *)
ValidPriv(d)    == ~NIsZero(d) /\ NLt(d, CN)
PrivFromBytes(b) == IF Len(b) = 32 /\ ValidPriv(NFromBE(b)) THEN Ok(NFromBE(b)) ELSE Fail
PubOf(d)        == ScalarMul(d, G)
(* key generation from one draw of the random source (uniform on 0..CN-1): always in 1..CN-1 *)
KeyGenOk(key)   == ValidPriv(key)
=============================================================================
