CONSTANTS Peers = {1, 2}  Racy = TRUE  Connect = TRUE
INIT TInit
NEXT TNext
CHECK_DEADLOCK FALSE
