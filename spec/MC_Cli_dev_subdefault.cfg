CONSTANTS
Cmds = {"sha256", "script", "base"}
Opts = {"output_format", "log_level"}
TomlModes = {TRUE}
Dev = {"subdefault-overwrites"}
INIT Init
NEXT Next
INVARIANT PolicyHolds
CHECK_DEADLOCK FALSE
