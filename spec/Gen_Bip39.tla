----------------------------- MODULE Gen_Bip39 -----------------------------
(* Stage B (C10): TLC enumerates, at the real parameters, boundary families and  *)
(* what the specification says about them; the harness replays every row.        *)
(*   enc rows  entropies of EntLen bytes: all-zero, all-ones, every single-bit   *)
(*             pattern; every length in InvalidLens (all-zero bytes) -> refused  *)
(*   dec rows  from the all-zero / all-ones mnemonic of EntLen: the last word    *)
(*             replaced by EVERY list word; every position replaced by the words *)
(*             in Subst (2048 = a word that is not in the list); one word        *)
(*             removed / appended                                                *)
EXTENDS Bip39, Json, IOUtils, TLC, FiniteSets, SequencesExt
CONSTANTS EntLen, InvalidLens, Subst, LastCount
LastWords == 0..(LastCount - 1)
SingleBit(i) == [j \in 1..EntLen |-> IF j = ((i - 1) \div 8) + 1 THEN Pow2(7 - ((i - 1) % 8)) ELSE 0]
Ents == {Rep(0, EntLen), Rep(255, EntLen)} \cup {SingleBit(i) : i \in 1..(8 * EntLen)}
EncRow(x) == LET r == ToIndices(x) IN [op |-> "enc", a |-> x, ok |-> r.ok, r |-> r.v]
DecRow(s) == LET r == ToEntropy(s) IN [op |-> "dec", a |-> s, ok |-> r.ok, r |-> r.v]
Bases == {ToIndices(Rep(0, EntLen)).v, ToIndices(Rep(255, EntLen)).v}
Muts(b) == {[b EXCEPT ![Len(b)] = w] : w \in LastWords}
           \cup {[b EXCEPT ![i] = w] : i \in 1..Len(b), w \in Subst}
           \cup {Front(b), Append(b, 0), Tail(b), SubSeq(b, 1, Len(b) - 3), b \o <<0, 0, 0>>}
Rows == SetToSeq({EncRow(x) : x \in Ents} \cup {EncRow(Rep(0, n)) : n \in InvalidLens}
                 \cup UNION {{DecRow(s) : s \in Muts(b)} : b \in Bases})
ASSUME JsonSerialize(IOEnv.OUT_FILE, Rows)
ASSUME PrintT(<<"ROWS", Len(Rows)>>)
=============================================================================
