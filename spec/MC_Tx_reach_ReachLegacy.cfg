CONSTANTS Scripts <- ScriptsQ  Seqs <- SeqsR  Stacks <- StacksQ  OutChoices <- OutsQ  MaxIn = 2  MaxOut = 2
TrailKinds = {"zero"}  Deviation = "none"
INIT Init
NEXT Next
INVARIANT ReachLegacy
CHECK_DEADLOCK FALSE
