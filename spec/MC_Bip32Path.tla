---------------------------- MODULE MC_Bip32Path ----------------------------
(***************************************************************************)
(* Stage A for C09, the path machine of Bip32.tla on a small curve:        *)
(* state st = [x : Ok(extended key) | Fail, rest : remaining child         *)
(* numbers]; one Step per path component.  x0 / p0 remember where the      *)
(* behaviour started (they never change).  Starting points: the master     *)
(* keys of NSeeds seeds on both networks, private and neutered; paths: all *)
(* sequences over PathIdx up to MaxLen.  The successor relation is split   *)
(* by outcome, and Census prints the outcome of the step that led to each  *)
(* state, so that the harness can require failing steps to be explored.    *)
(***************************************************************************)
EXTENDS Bip32, TLC, FiniteSets
CONSTANTS NSeeds, MaxLen, IdxSel
VARIABLES st, x0, p0

AllIdx  == <<<<0, 0, 0, 0>>, <<0, 0, 0, 1>>, <<127, 255, 255, 255>>, <<128, 0, 0, 0>>, <<128, 0, 0, 1>>, <<255, 255, 255, 255>>>>
PathIdx == {AllIdx[n] : n \in IdxSel}
SeedBytes(s) == [t \in 1..16 |-> ((s * 29) + (t * 7)) % 256]
Masters == {MasterX(SeedBytes(s), net).v : s \in {s \in 0..(NSeeds - 1) : Master(SeedBytes(s)).ok}, net \in Nets}
RECURSIVE SeqsUpTo(_, _)
SeqsUpTo(S, n) == IF n = 0 THEN {<<>>}
                  ELSE LET T == SeqsUpTo(S, n - 1) IN T \cup {Append(t, a) : t \in {u \in T : Len(u) = n - 1}, a \in S}
Paths == SeqsUpTo(PathIdx, MaxLen)

Init == /\ \E m \in Masters, pub \in BOOLEAN : x0 = IF pub THEN NeuterX(m) ELSE m
        /\ p0 \in Paths
        /\ st = PathInit(x0, p0)
StepOk   == ~PathDone(st) /\ PathStep(st).x.ok /\ st' = PathStep(st) /\ UNCHANGED <<x0, p0>>
HardPub  == ~st.x.v.prv /\ Hardened(Head(st.rest))
StepFailHardenedFromPublic == ~PathDone(st) /\ HardPub /\ ~PathStep(st).x.ok /\ st' = PathStep(st) /\ UNCHANGED <<x0, p0>>
StepFailInvalidChild       == ~PathDone(st) /\ ~HardPub /\ ~PathStep(st).x.ok /\ st' = PathStep(st) /\ UNCHANGED <<x0, p0>>
Next == StepOk \/ StepFailHardenedFromPublic \/ StepFailInvalidChild

Done(d)   == Take(p0, d)                       \* the components already consumed at depth d
Consumed  == Len(p0) - Len(st.rest)
AnyHard(p) == \E t \in 1..Len(p) : Hardened(p[t])

(* path derivation = fold of steps: whatever remains to be done from here gives the derivation of the whole path *)
FoldInv == PathRun(st) = Derive(x0, p0)
(* and the machine state IS the derivation of the consumed prefix *)
PrefixInv == st.x = Derive(x0, Done(Consumed))
(* paths compose: m/a/b = (m/a)/b at every split point (checked on the initial state of each behaviour) *)
Compose == st.rest = p0 =>
    \A j \in 0..Len(p0) : LET mid == Derive(x0, Take(p0, j)) IN
        Derive(x0, p0) = IF mid.ok THEN Derive(mid.v, Drop(p0, j)) ELSE Fail
(* depth / child number / fingerprint / network / key type bookkeeping *)
Bookkeeping == st.x.ok =>
    LET x == st.x.v  d == Consumed IN
    /\ x.depth = x0.depth + d /\ x.net = x0.net /\ x.prv = x0.prv /\ Len(x.cc) = 32
    /\ d = 0 => x = x0
    /\ d > 0 => /\ x.idx = p0[d]
                /\ LET par == Derive(x0, Done(d - 1)) IN par.ok /\ x.fp = Fingerprint(PubKeyOf(par.v))
    /\ x.prv => x.key \in 1..(CN - 1)
    /\ ~x.prv => OnCurve(x.key[1], x.key[2])
(* a public start never yields a hardened child; a failed machine stays failed *)
HardenedNeedsPrivate == (~x0.prv /\ AnyHard(Done(Consumed))) => ~st.x.ok
(* public and private derivation commute along paths: neutering at ANY point j and deriving the rest publicly *)
(* gives the neutered private derivation when the rest has no hardened component, and is undefined otherwise  *)
PubPrivCommute == (st.rest = p0 /\ x0.prv) =>
    \A j \in 0..Len(p0) : LET mid == Derive(x0, Take(p0, j)) IN
        mid.ok => LET viaPub == Derive(NeuterX(mid.v), Drop(p0, j))
                      viaPrv == Derive(mid.v, Drop(p0, j)) IN
                  IF AnyHard(Drop(p0, j)) THEN ~viaPub.ok
                  ELSE viaPub.ok = viaPrv.ok /\ (viaPrv.ok => viaPub.v = NeuterX(viaPrv.v))
(* census of step outcomes (vacuity guard): how the current state was reached *)
Census == Consumed > 0 =>
    PrintT(<<"B", "step", IF st.x.ok THEN "ok"
                          ELSE IF ~x0.prv /\ Hardened(p0[Consumed]) THEN "hardened-from-public" ELSE "invalid-child">>)
(* every key the machine produces serialises and deserialises to itself *)
RoundTrip == st.x.ok => Len(SerXKey(st.x.v)) = 78 /\ DeserXKey(SerXKey(st.x.v)) = st.x
=============================================================================
