CONSTANTS Big = FALSE CP = 43 CB = 7 CN = 31 CGx = 2 CGy = 12
Ds = {}
Zs = {}
VerifyDs = {1,7,30}
VerifyZs = {0,1,31,32}
DerVals = {}
EmitRows = TRUE
INIT Init
NEXT Next
INVARIANT VerifyExact
INVARIANT OffCurveRejected
INVARIANT Emit
CHECK_DEADLOCK FALSE
