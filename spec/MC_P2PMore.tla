----------------------------- MODULE MC_P2PMore -----------------------------
(* Stage A + row generation for the P2PMore extension (see P2PMore.tla).  One initial "group" state per kind; the cases *)
(* are its successors (all workers evaluate them).  Every case state is checked against the theorems and printed as a   *)
(* row <<"R", kind, input, expected>> that the harness replays into bits.p2p.                                            *)
EXTENDS P2PMore, TLC
CONSTANT Counts
VARIABLE c

Hash(i) == [j \in 1..HashLen |-> (i * 7 + j) % 256]
Hdr(i) == [j \in 1..HdrLen |-> (i * 11 + j * 3) % 256]
N4 == {<<127,17,1,0>>, <<0,0,0,128>>, <<255,255,255,255>>, <<0,0,0,0>>}
Fill(n, s) == [i \in 1..n |-> (s * i + s) % 256]
Ip == [i \in 1..16 |-> 57 + i]
TypeCodes == <<MSG_TX, MSG_BLOCK, MSG_FILTERED_BLOCK, MSG_CMPCT_BLOCK, MSG_TX + WFLAG, MSG_BLOCK + WFLAG>>
Unparsed == {"pong", "verack", "getblocks", "headers", "getdata", "block", "tx", "sendheaders", "mempool", "getaddr",
             "notfound", "reject", "alert", "filterload", "merkleblock"}

GetBlocksCases == {[k |-> "getblocks", v |-> [pv |-> pv, hashes |-> [i \in 1..n |-> Hash(i)]]] : pv \in N4, n \in Counts}
HeadersCases == {[k |-> "headers", v |-> [headers |-> [i \in 1..n |-> Hdr(i + s)]]] : n \in Counts, s \in {0, 100}}
FeeCases == {[k |-> "feefilter", b |-> Fill(n, s)] : n \in {0, 1, 7, 8, 9, 16}, s \in {0, 1, 255}}
CmpctCases == {[k |-> "sendcmpct", b |-> <<a>> \o Fill(n, s)] : a \in {0, 1, 2, 255}, n \in {0, 7, 8, 9}, s \in {0, 1, 255}}
InventoryCases == {[k |-> "inventory", v |-> [type |-> TypeCodes[t], hash |-> Hash(t)]] : t \in 1..6}
BadInventoryCases == {[k |-> "badinventory", b |-> LE(t, 4) \o Fill(n, 3)] : t \in {0, 5, 6, 7, 255}, n \in {HashLen}}
                     \cup {[k |-> "badinventory", b |-> LE(1, 4) \o Fill(n, 3)] : n \in {0, HashLen - 1, HashLen + 1}}
NetAddrCases == {[k |-> "netaddr", v |-> [time |-> tm, services |-> <<9,4,0,0,0,0,0,128>>, ip |-> Ip, port |-> pt]] :
                    tm \in N4, pt \in {0, 1, 255, 256, 8333, 65535}}
DispatchCases ==
    {[k |-> "dispatch", cmd |-> cmd, b |-> b] : cmd \in Unparsed, b \in {<<>>, <<1, 2, 3>>}}
    \cup {[k |-> "dispatch", cmd |-> "ping", b |-> b] : b \in {Fill(8, 9)}}
    \cup {[k |-> "dispatch", cmd |-> "feefilter", b |-> b] : b \in {Fill(8, 5), Fill(7, 5)}}
    \cup {[k |-> "dispatch", cmd |-> "sendcmpct", b |-> b] : b \in {<<1>> \o Fill(8, 2), Fill(8, 2)}}
    \cup {[k |-> "dispatch", cmd |-> "getheaders", b |-> BuildGetBlocks([pv |-> <<127,17,1,0>>, hashes |-> <<Hash(1), Hash(2)>>])]}
    \cup {[k |-> "dispatch", cmd |-> "inv", b |-> BuildInv([items |-> <<[type |-> MSG_BLOCK, hash |-> Hash(3)]>>])]}
    \cup {[k |-> "dispatch", cmd |-> "addr", b |-> BuildAddr([addrs |-> <<[time |-> <<1,2,3,4>>, services |-> <<9,4,0,0,0,0,0,0>>, ip |-> Ip, port |-> 8333]>>])]}
CasesOf(g) == CASE g = "getblocks" -> GetBlocksCases [] g = "headers" -> HeadersCases [] g = "feefilter" -> FeeCases
                [] g = "sendcmpct" -> CmpctCases [] g = "inventory" -> InventoryCases \cup BadInventoryCases
                [] g = "netaddr" -> NetAddrCases [] g = "dispatch" -> DispatchCases
Groups == {"getblocks", "headers", "feefilter", "sendcmpct", "inventory", "netaddr", "dispatch"}

Init == c \in [k : {"group"}, g : Groups]
Next == c.k = "group" /\ c' \in CasesOf(c.g)

(* ---- theorems ---- *)
GetBlocksTheorem == c.k = "getblocks" => GetBlocksIsGetHeaders(c.v) /\ BuildGetBlocks(c.v) = BuildGetHeaders([pv |-> c.v.pv, hashes |-> c.v.hashes, stop |-> Zeros(HashLen)])
HeadersTheorem == c.k = "headers" => HeadersRoundTrip(c.v) /\ HeadersTight(c.v)
FeeTheorem == c.k = "feefilter" => /\ ParseFeeFilter(c.b).ok <=> Len(c.b) = 8
                                   /\ ParseFeeFilter(c.b).ok => BuildFeeFilter(ParseFeeFilter(c.b).v) = c.b
CmpctTheorem == c.k = "sendcmpct" => /\ ParseSendCmpct(c.b).ok <=> Len(c.b) = 9
                                     /\ ParseSendCmpct(c.b).ok => BuildSendCmpct(ParseSendCmpct(c.b).v) = c.b
ElementTheorem == /\ c.k = "inventory" => ParseInventory(BuildInventory(c.v)) = Ok(c.v)
                                          /\ ParseInv(<<1>> \o BuildInventory(c.v)) = Ok([items |-> <<c.v>>])
                  /\ c.k = "badinventory" => ~ParseInventory(c.b).ok /\ ~ParseInv(<<1>> \o c.b).ok
                  /\ c.k = "netaddr" => ParseNetAddr(BuildNetAddr(c.v)) = Ok(c.v) /\ ParseAddr(<<1>> \o BuildNetAddr(c.v)) = Ok([addrs |-> <<c.v>>])
DispatchTheorem == c.k = "dispatch" => /\ (c.cmd \in Unparsed => Dispatch(c.cmd, c.b) = None)
                                       /\ (c.cmd \in Parsed /\ c.cmd \notin {"feefilter", "sendcmpct"} => Dispatch(c.cmd, c.b) = Parse(c.cmd, c.b))
(* vacuity guard: must be VIOLATED (a case with a CompactSize count in the FD form is explored) *)
NoFdForm == c.k \in {"getblocks", "headers"} => Expected(c).v[IF c.k = "getblocks" THEN 5 ELSE 1] # 253
Emit == c.k # "group" => PrintT(<<"R", c, Expected(c)>>)
=============================================================================
