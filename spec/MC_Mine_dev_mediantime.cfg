CONSTANTS Seed = 0  Profile = "d"  Part = 0  Parts = 1
          MaxEnv = 0  MaxNonce = 100000  DevMedianTime = TRUE  DevSkipNonceZero = FALSE
          SubsidyBase <- BaseScaled
INIT Init
NEXT Next
INVARIANT TimeRule
CHECK_DEADLOCK FALSE
