CONSTANTS R = 8  MaxDigits = 5  MaxBuf = 5  TrailLen = 1  Mode = "digits"  Upto = 0  Deviation = "none"
INIT Init
NEXT Next
INVARIANT RefusedExactlyOutOfRange
INVARIANT RoundTripAnyTrailing
INVARIANT ShortestForm
INVARIANT HighZerosIrrelevant
INVARIANT DigitsInRange
INVARIANT DecodeOfBuffer
CHECK_DEADLOCK FALSE
