------------------------------ MODULE NodeLife ------------------------------
(***************************************************************************)
(* Extension beyond the listed properties: the life cycle of bits.p2p.Node *)
(* around the message queue of C18 (NodeQueue.tla).                        *)
(*                                                                         *)
(*   node :  created -> starting -> started -> stopping -> stopped         *)
(*   peer :  none -> conn -> hello -> loop <-> recv -> handle|enq -> loop   *)
(*                                    loop -> exiting -> closed            *)
(*   rpc  :  off -> starting -> ready -> serving -> down                   *)
(*                                                                         *)
(* Three kinds of threads: the caller's (main) thread performing the API   *)
(* calls start / connect_peer / ibd / handle_command / stop one after the  *)
(* other (Call ... Return), one receive thread per connected peer, and the *)
(* optional XML-RPC server thread.  One action per step the code takes at  *)
(* a shared object (socket, exit flag, queue, server).                     *)
(*                                                                         *)
(* The specification states the INTENDED design.  Everything a broken or   *)
(* the pinned implementation may do instead is a NAMED deviation, enabled  *)
(* only when its name is in Devs (empty in the intended design); the       *)
(* vacuity guards of stage A switch one on and TLC must find the           *)
(* counterexample; the trace specification switches the ones on that are   *)
(* needed to keep following a recorded execution after it deviated.        *)
(***************************************************************************)
EXTENDS Naturals, Sequences, FiniteSets

CONSTANTS NPeers,        \* at most NPeers peers are ever attached: peer numbers 0..NPeers-1
          MaxMsgs,       \* a peer sends at most MaxMsgs messages
          Kinds,         \* message kinds a peer may send
          Faults,        \* BOOLEAN: a connection may end (recv returns b"", or a corrupt frame): recv_msg raises
          MaxStops,      \* stop() is called at most MaxStops times
          MaxIbd,        \* ibd() is called at most MaxIbd times
          DirectKinds,   \* handlers driven through handle_command directly (they are not registered with the loop)
          MaxDirect,     \* at most MaxDirect such calls
          Devs           \* set of enabled deviations (names below); {} = intended design

Peers      == 0..(NPeers - 1)
Dev(x)     == x \in Devs
DevNames   == {"NoExitCheckOnTimeout", "CloseTwice", "ThreadEndsWithoutClose", "ThreadBeforeHello", "DropOnExit",
               "StopAbortsRpcNotReady", "IbdAppendsAgain", "SignalSkipsLast"}
Registered == {"version", "verack", "ping"}           \* Node._registered_commands_to_handle
Hello      == <<"version", 0>>                        \* our version message

VARIABLES conf,      \* [seeds : 0..NPeers, rpc : BOOLEAN]  Node(seeds=..., serve_rpc=...)
          node,      \* life-cycle state of the node
          mcall,     \* API call the main thread is in ("none" = between calls)
          mph,       \* phase within that call
          mk,        \* start/connect: peers attached by this call; stop: next peer to signal
          marg,      \* argument of a direct handle_command call: <<peer, kind>>
          nconn,     \* number of peers attached so far = the next peer number
          pc,        \* pc[p]: control state of peer p (of its socket / receive thread)
          exitreq,   \* exitreq[p]: the thread's exit_event is set
          rcvd,      \* rcvd[p]: messages received from p so far: sequence of [k, n]
          queue,     \* the node's message queue: sequence of <<peer, kind, tag>>
          sent,      \* sent[p]: what was written to p's socket, in order: sequence of <<kind, tag>>
          closes,    \* closes[p]: number of close() calls on p's socket
          after,     \* after[p]: receive attempts (message, timeout, fault) begun after exitreq[p] was set (capped at 2)
          rpc,       \* state of the XML-RPC server thread
          rpcreq,    \* shutdown of the XML-RPC server has been requested
          disk,      \* number of genesis-block records in the datadir
          nstops, nibd, ndirect   \* calls made so far (bounded by the Max* constants)
vars == <<conf, node, mcall, mph, mk, marg, nconn, pc, exitreq, rcvd, queue, sent, closes, after, rpc, rpcreq, disk,
          nstops, nibd, ndirect>>
mainv  == <<mcall, mph, mk, marg>>
peerv  == <<pc, exitreq, rcvd, queue, sent, closes, after>>
countv == <<nstops, nibd, ndirect>>

(* messages are made distinguishable by a tag: (peer+1)*10 + position, 0 for kinds without payload *)
Tag(p, i, k) == IF k \in {"verack", "unknown"} THEN 0 ELSE (p + 1) * 10 + i
Cur(p)       == rcvd[p][Len(rcvd[p])]
Reply(m)     == IF m.k = "ping" THEN <<<<"pong", m.n>>>>
                ELSE IF m.k = "version" THEN <<<<"verack", 0>>>> ELSE <<>>
(* handlers that exist but are not registered: what handle_command sends back to the peer *)
DirectReply(k) == IF k = "inv500" THEN <<<<"getdata", 128>>>>          \* the first 128 of a 500-entry inv
                  ELSE IF k = "getheaders" THEN <<<<"headers", 0>>>>   \* an empty headers message: count 0
                  ELSE <<>>                                            \* inv (other counts), feefilter, sendheaders, no handler at all

TypeOK == /\ conf \in [seeds : 0..NPeers, rpc : BOOLEAN]
          /\ node \in {"created", "starting", "started", "stopping", "stopped"}
          /\ mcall \in {"none", "start", "connect", "ibd", "direct", "stop"}
          /\ mph \in {"idle", "next", "hello", "thread", "latehello", "wrote", "join", "done"}
          /\ nconn \in 0..NPeers
          /\ pc \in [Peers -> {"none", "conn", "hello", "loop", "recv", "handle", "enq", "exiting", "closed", "dead"}]
          /\ exitreq \in [Peers -> BOOLEAN]
          /\ closes \in [Peers -> 0..2]
          /\ after \in [Peers -> 0..2]
          /\ rpc \in {"off", "starting", "ready", "serving", "down"}
          /\ rpcreq \in BOOLEAN
          /\ disk \in 0..(MaxIbd + 1)

InitWith(c) == /\ conf = c
               /\ node = "created" /\ mcall = "none" /\ mph = "idle" /\ mk = 0 /\ marg = <<>> /\ nconn = 0
               /\ pc = [p \in Peers |-> "none"]
               /\ exitreq = [p \in Peers |-> FALSE]
               /\ rcvd = [p \in Peers |-> <<>>]
               /\ queue = <<>>
               /\ sent = [p \in Peers |-> <<>>]
               /\ closes = [p \in Peers |-> 0]
               /\ after = [p \in Peers |-> 0]
               /\ rpc = "off" /\ rpcreq = FALSE /\ disk = 0
               /\ nstops = 0 /\ nibd = 0 /\ ndirect = 0

(* ======================= the main thread: API calls ======================= *)
Idle == mcall = "none"
Enter(f, arg) == /\ Idle /\ mcall' = f /\ mph' = "next" /\ mk' = 0 /\ marg' = arg

Start == /\ node = "created" /\ Enter("start", <<>>) /\ node' = "starting"
         /\ UNCHANGED <<conf, nconn, peerv, rpc, rpcreq, disk, countv>>
CallConnect == /\ node = "started" /\ nconn < NPeers /\ Enter("connect", <<>>)
               /\ UNCHANGED <<conf, node, nconn, peerv, rpc, rpcreq, disk, countv>>
CallIbd == /\ node = "started" /\ nconn >= 1 /\ nibd < MaxIbd /\ Enter("ibd", <<>>)
           /\ UNCHANGED <<conf, node, nconn, peerv, rpc, rpcreq, disk, countv>>
CallDirect(p, k) == /\ node = "started" /\ p < nconn /\ k \in DirectKinds /\ ndirect < MaxDirect
                    /\ Enter("direct", <<p, k>>) /\ ndirect' = ndirect + 1
                    /\ UNCHANGED <<conf, node, nconn, peerv, rpc, rpcreq, disk, nstops, nibd>>
(* stop() may be called on a node that was never started, and again on a stopped node *)
Stop == /\ node \in {"created", "started", "stopped"} /\ nstops < MaxStops /\ Enter("stop", <<>>)
        /\ node' = "stopping" /\ nstops' = nstops + 1
        /\ UNCHANGED <<conf, nconn, peerv, rpc, rpcreq, disk, nibd, ndirect>>

(* ---- connect_peer (start() calls it for every seed, in order): number, socket, hello, thread ---- *)
ConnLimit == IF mcall = "start" THEN conf.seeds ELSE NPeers
Connect(p) == /\ mcall \in {"start", "connect"} /\ mph = "next"
              /\ p = nconn /\ p < ConnLimit                     \* the next free number; numbers are never reused
              /\ (mcall = "connect" => mk = 0)                  \* connect_peer attaches one peer
              /\ pc[p] = "none"
              /\ pc' = [pc EXCEPT ![p] = "conn"] /\ nconn' = nconn + 1 /\ mk' = mk + 1 /\ mph' = "hello"
              /\ UNCHANGED <<conf, node, mcall, marg, exitreq, rcvd, queue, sent, closes, after, rpc, rpcreq, disk, countv>>
(* our version message goes out before the receive thread exists *)
HelloSent(p) == /\ mcall \in {"start", "connect"} /\ nconn > 0 /\ p = nconn - 1
                /\ \/ mph = "hello" /\ pc[p] = "conn" /\ pc' = [pc EXCEPT ![p] = "hello"] /\ mph' = "thread"
                   \/ mph = "latehello" /\ mph' = "next" /\ UNCHANGED pc            \* only after the deviation below
                /\ sent' = [sent EXCEPT ![p] = Append(@, Hello)]
                /\ UNCHANGED <<conf, node, mcall, mk, marg, nconn, exitreq, rcvd, queue, closes, after, rpc, rpcreq, disk, countv>>
ThreadStart(p) == /\ mcall \in {"start", "connect"} /\ mph = "thread" /\ nconn > 0 /\ p = nconn - 1 /\ pc[p] = "hello"
                  /\ pc' = [pc EXCEPT ![p] = "loop"] /\ mph' = "next"
                  /\ UNCHANGED <<conf, node, mcall, mk, marg, nconn, exitreq, rcvd, queue, sent, closes, after, rpc, rpcreq, disk, countv>>
(* deviation: the receive thread is started before the hello is sent *)
ThreadBeforeHello(p) == /\ Dev("ThreadBeforeHello")
                        /\ mcall \in {"start", "connect"} /\ mph = "hello" /\ nconn > 0 /\ p = nconn - 1 /\ pc[p] = "conn"
                        /\ pc' = [pc EXCEPT ![p] = "loop"] /\ mph' = "latehello"
                        /\ UNCHANGED <<conf, node, mcall, mk, marg, nconn, exitreq, rcvd, queue, sent, closes, after, rpc, rpcreq, disk, countv>>
(* start(): after the last seed, the optional RPC thread *)
RpcLaunch == /\ mcall = "start" /\ mph = "next" /\ nconn = conf.seeds /\ conf.rpc /\ rpc = "off"
             /\ rpc' = "starting"
             /\ UNCHANGED <<conf, node, mainv, nconn, peerv, rpcreq, disk, countv>>

(* ---- ibd(): the genesis block goes into the datadir through write_blocks_to_disk (afterwards exactly one genesis
        record is there), THEN one getblocks(genesis hash) goes to peer 0 ---- *)
IbdWrite == /\ mcall = "ibd" /\ mph = "next"
            /\ disk' = IF Dev("IbdAppendsAgain") THEN disk + 1 ELSE 1
            /\ mph' = "wrote"
            /\ UNCHANGED <<conf, node, mcall, mk, marg, nconn, peerv, rpc, rpcreq, countv>>
IbdSend == /\ mcall = "ibd" /\ (mph = "wrote" \/ (mph = "next" /\ disk = 1))    \* the write may be skipped when the record is there
           /\ sent' = [sent EXCEPT ![0] = Append(@, <<"getblocks", 0>>)]
           /\ nibd' = nibd + 1 /\ mph' = "done"
           /\ UNCHANGED <<conf, node, mcall, mk, marg, nconn, pc, exitreq, rcvd, queue, closes, after, rpc, rpcreq, disk, nstops, ndirect>>

(* ---- handle_command called directly for a command the loop does not dispatch ---- *)
DirectSend == /\ mcall = "direct" /\ mph = "next" /\ DirectReply(marg[2]) # <<>>
              /\ sent' = [sent EXCEPT ![marg[1]] = @ \o DirectReply(marg[2])]
              /\ mph' = "done"
              /\ UNCHANGED <<conf, node, mcall, mk, marg, nconn, pc, exitreq, rcvd, queue, closes, after, rpc, rpcreq, disk, countv>>

(* ---- stop(): signal every peer thread in turn, then shut the RPC server down and wait for it ---- *)
Signal(p) == /\ mcall = "stop" /\ mph = "next" /\ p = mk /\ p < nconn
             /\ exitreq' = [exitreq EXCEPT ![p] = TRUE] /\ mk' = mk + 1
             /\ UNCHANGED <<conf, node, mcall, mph, marg, nconn, pc, rcvd, queue, sent, closes, after, rpc, rpcreq, disk, countv>>
(* deviation: the last peer is never signalled *)
SignalSkipsLast == /\ Dev("SignalSkipsLast") /\ mcall = "stop" /\ mph = "next" /\ nconn > 0 /\ mk = nconn - 1
                   /\ mk' = nconn
                   /\ UNCHANGED <<conf, node, mcall, mph, marg, nconn, peerv, rpc, rpcreq, disk, countv>>
Signalled == mcall = "stop" /\ mph = "next" /\ mk = nconn
RpcShutdown == /\ Signalled /\ conf.rpc /\ rpc # "off"
               /\ rpcreq' = TRUE /\ mph' = "join"
               /\ UNCHANGED <<conf, node, mcall, mk, marg, nconn, peerv, rpc, disk, countv>>
RpcJoin == /\ mcall = "stop" /\ mph = "join" /\ rpc = "down"
           /\ mph' = "done"
           /\ UNCHANGED <<conf, node, mcall, mk, marg, nconn, peerv, rpc, rpcreq, disk, countv>>
(* deviation: stop() gives up (raises) when the server object does not exist yet, leaving the server thread alone *)
StopAbortsRpcNotReady == /\ Dev("StopAbortsRpcNotReady") /\ Signalled /\ conf.rpc /\ rpc = "starting"
                         /\ mph' = "done"
                         /\ UNCHANGED <<conf, node, mcall, mk, marg, nconn, peerv, rpc, rpcreq, disk, countv>>

CanReturn == \/ mcall = "start" /\ mph = "next" /\ nconn = conf.seeds /\ (conf.rpc => rpc # "off")
             \/ mcall = "connect" /\ mph = "next" /\ mk = 1
             \/ mcall \in {"ibd", "direct", "stop"} /\ mph = "done"
             \/ mcall = "direct" /\ mph = "next" /\ DirectReply(marg[2]) = <<>>
             \/ Signalled /\ (~conf.rpc \/ rpc = "off")
NodeAfter(f) == IF f = "start" THEN "started" ELSE IF f = "stop" THEN "stopped" ELSE node
Return == /\ CanReturn
          /\ node' = NodeAfter(mcall)
          /\ mcall' = "none" /\ mph' = "idle" /\ mk' = 0 /\ marg' = <<>>
          /\ UNCHANGED <<conf, nconn, peerv, rpc, rpcreq, disk, countv>>

MainCall == Start \/ CallConnect \/ CallIbd \/ Stop \/ (\E p \in Peers, k \in DirectKinds : CallDirect(p, k))
MainStep == \/ \E p \in Peers : Connect(p) \/ HelloSent(p) \/ ThreadStart(p) \/ ThreadBeforeHello(p) \/ Signal(p)
            \/ RpcLaunch \/ IbdWrite \/ IbdSend \/ DirectSend \/ SignalSkipsLast \/ RpcShutdown \/ RpcJoin \/ StopAbortsRpcNotReady \/ Return
StopStep == mcall = "stop" /\ MainStep

(* ======================= the receive thread of peer p ======================= *)
PeerFrame == <<conf, node, mainv, nconn, rpc, rpcreq, disk, countv>>
Bump(p) == [after EXCEPT ![p] = IF exitreq[p] /\ @ < 2 THEN @ + 1 ELSE @]
(* loop head: read the exit flag *)
Proceed(p) == /\ pc[p] = "loop" /\ ~exitreq[p]
              /\ pc' = [pc EXCEPT ![p] = "recv"]
              /\ UNCHANGED <<PeerFrame, exitreq, rcvd, queue, sent, closes, after>>
ObserveExit(p) == /\ pc[p] = "loop" /\ exitreq[p]
                  /\ pc' = [pc EXCEPT ![p] = "exiting"]
                  /\ UNCHANGED <<PeerFrame, exitreq, rcvd, queue, sent, closes, after>>
(* blocked in recv: a whole message arrives, or the socket times out, or the connection ends *)
Recv(p, k) == /\ pc[p] = "recv" /\ k \in Kinds /\ Len(rcvd[p]) < MaxMsgs
              /\ rcvd' = [rcvd EXCEPT ![p] = Append(@, [k |-> k, n |-> Tag(p, Len(@) + 1, k)])]
              /\ pc' = [pc EXCEPT ![p] = IF k \in Registered THEN "handle" ELSE "enq"]
              /\ after' = Bump(p)
              /\ UNCHANGED <<PeerFrame, exitreq, queue, sent, closes>>
Timeout(p) == /\ pc[p] = "recv" /\ ~Dev("NoExitCheckOnTimeout")
              /\ pc' = [pc EXCEPT ![p] = "loop"]          \* TimeoutError -> back to the loop head: re-check the exit flag
              /\ after' = Bump(p)
              /\ UNCHANGED <<PeerFrame, exitreq, rcvd, queue, sent, closes>>
(* deviation: a timeout retries the receive without looking at the exit flag *)
TimeoutNoCheck(p) == /\ Dev("NoExitCheckOnTimeout") /\ pc[p] = "recv"
                     /\ after' = Bump(p)
                     /\ UNCHANGED <<PeerFrame, pc, exitreq, rcvd, queue, sent, closes>>
(* the connection ended (or a corrupt frame): this thread leaves the loop and closes its socket; nobody else is affected *)
Fault(p) == /\ Faults /\ pc[p] = "recv"
            /\ pc' = [pc EXCEPT ![p] = "exiting"]
            /\ after' = Bump(p)
            /\ UNCHANGED <<PeerFrame, exitreq, rcvd, queue, sent, closes>>
(* a handled message: the reply goes to the peer the message came from *)
Handle(p) == /\ pc[p] = "handle"
             /\ sent' = [sent EXCEPT ![p] = @ \o Reply(Cur(p))]
             /\ pc' = [pc EXCEPT ![p] = "loop"]
             /\ UNCHANGED <<PeerFrame, exitreq, rcvd, queue, closes, after>>
Enqueue(p) == /\ pc[p] = "enq"
              /\ queue' = Append(queue, <<p, Cur(p).k, Cur(p).n>>)
              /\ pc' = [pc EXCEPT ![p] = "loop"]
              /\ UNCHANGED <<PeerFrame, exitreq, rcvd, sent, closes, after>>
(* deviation: a message that was received is dropped when the exit flag is already set *)
DropOnExit(p) == /\ Dev("DropOnExit") /\ pc[p] \in {"handle", "enq"} /\ exitreq[p]
                 /\ pc' = [pc EXCEPT ![p] = "exiting"]
                 /\ UNCHANGED <<PeerFrame, exitreq, rcvd, queue, sent, closes, after>>
(* the socket is closed exactly once, by its own thread, as the last thing the thread does *)
Close(p) == /\ pc[p] = "exiting" /\ closes[p] = 0
            /\ closes' = [closes EXCEPT ![p] = 1]
            /\ pc' = [pc EXCEPT ![p] = "closed"]
            /\ UNCHANGED <<PeerFrame, exitreq, rcvd, queue, sent, after>>
(* deviation: the socket is closed a second time *)
CloseAgain(p) == /\ Dev("CloseTwice") /\ pc[p] = "closed" /\ closes[p] = 1
                 /\ closes' = [closes EXCEPT ![p] = 2]
                 /\ UNCHANGED <<PeerFrame, pc, exitreq, rcvd, queue, sent, after>>
(* deviation: the thread ends (an exception escapes the loop) and leaves its socket open *)
ThreadEndsWithoutClose(p) == /\ Dev("ThreadEndsWithoutClose") /\ pc[p] = "exiting" /\ closes[p] = 0
                             /\ pc' = [pc EXCEPT ![p] = "dead"]
                             /\ UNCHANGED <<PeerFrame, exitreq, rcvd, queue, sent, closes, after>>

(* what the thread does on its own; a socket with a timeout set never blocks for ever, so Timeout is among these *)
PeerProgress(p) == \/ Proceed(p) \/ ObserveExit(p) \/ Timeout(p) \/ TimeoutNoCheck(p) \/ Handle(p) \/ Enqueue(p)
                   \/ DropOnExit(p) \/ Close(p) \/ CloseAgain(p) \/ ThreadEndsWithoutClose(p)
(* what the peer at the other end decides: send a message, end the connection *)
PeerEnv(p) == Fault(p) \/ \E k \in Kinds : Recv(p, k)
PeerStep(p) == PeerProgress(p) \/ PeerEnv(p)

(* ======================= the XML-RPC server thread ======================= *)
RpcFrame == <<conf, node, mainv, nconn, peerv, disk, countv>>
RpcCreate == /\ rpc = "starting" /\ rpc' = "ready" /\ UNCHANGED <<RpcFrame, rpcreq>>    \* server object exists, Node.rpc_server set
RpcServe  == /\ rpc = "ready" /\ rpc' = "serving" /\ UNCHANGED <<RpcFrame, rpcreq>>     \* serve_forever entered
RpcDown   == /\ rpc = "serving" /\ rpcreq /\ rpc' = "down" /\ UNCHANGED <<RpcFrame, rpcreq>>
RpcStep   == RpcCreate \/ RpcServe \/ RpcDown

Next == MainCall \/ MainStep \/ RpcStep \/ \E p \in Peers : PeerStep(p)

(* threads make progress (a silent peer is allowed: no fairness on PeerEnv); the caller finishes a stop() it began *)
Fairness == /\ \A p \in Peers : WF_vars(PeerProgress(p))
            /\ WF_vars(StopStep)
            /\ WF_vars(RpcStep)

(* =============================== properties =============================== *)
LFront(s) == SubSeq(s, 1, Len(s) - 1)
LPrefix(s, t) == Len(s) <= Len(t) /\ SubSeq(t, 1, Len(s)) = s
Count(s, x) == Cardinality({i \in 1..Len(s) : s[i] = x})
Attached(p)   == pc[p] # "none"
Running(p)    == pc[p] \in {"loop", "recv", "handle", "enq", "exiting"}
Terminated(p) == pc[p] \in {"closed", "dead"}
LeftLoop(p)   == pc[p] \in {"exiting", "closed", "dead"}       \* the thread has observed the exit flag / the end of the connection

(* peer numbers are 0, 1, 2, ... in connection order *)
Numbering == \A p \in Peers : Attached(p) <=> p < nconn

(* the hello is the first thing written to a peer's socket, written once, before the receive thread exists *)
HelloFirst == \A p \in Peers :
    /\ (pc[p] \in {"none", "conn"} => sent[p] = <<>>)
    /\ (sent[p] # <<>> => sent[p][1] = Hello /\ Count(sent[p], Hello) = 1)
    /\ (Running(p) \/ Terminated(p) => sent[p] # <<>>)

(* the socket is closed exactly once, and only by a thread that left the loop; a thread that ended has closed it *)
CloseOnce == \A p \in Peers :
    /\ closes[p] <= 1
    /\ (closes[p] = 1 => LeftLoop(p))
    /\ (Terminated(p) => closes[p] = 1)

(* after the exit flag is set, the thread starts at most one further receive *)
AfterStopBounded == \A p \in Peers : after[p] <= 1

(* every message that was received is answered (to its sender, once, in order) or queued (once, attributed, in
   order); the one being processed is the only one allowed to be outstanding -- nothing is lost at exit *)
IsReply(m)  == m[1] \in {"pong", "verack"}
Done(p)     == IF pc[p] \in {"handle", "enq"} THEN LFront(rcvd[p]) ELSE rcvd[p]
RECURSIVE RepliesFrom(_, _)
RepliesFrom(s, i) == IF i > Len(s) THEN <<>> ELSE Reply(s[i]) \o RepliesFrom(s, i + 1)
RECURSIVE UnregFrom(_, _, _)
UnregFrom(p, s, i) == IF i > Len(s) THEN <<>>
                      ELSE (IF s[i].k \in Registered THEN <<>> ELSE <<<<p, s[i].k, s[i].n>>>>) \o UnregFrom(p, s, i + 1)
ProjOf(q, p) == SelectSeq(q, LAMBDA m : m[1] = p)
AccountedOf(q, s, p, d) == /\ SelectSeq(s[p], IsReply) = RepliesFrom(d, 1)
                           /\ ProjOf(q, p) = UnregFrom(p, d, 1)
Accounted == \A p \in Peers : AccountedOf(queue, sent, p, Done(p))
NoStrangers == \A i \in 1..Len(queue) : queue[i][1] \in Peers /\ Attached(queue[i][1])

(* a thread that left the loop receives, handles and queues nothing any more (and stays out) *)
QuietStep(p) == LeftLoop(p) => /\ LeftLoop(p)'
                               /\ rcvd'[p] = rcvd[p]
                               /\ SelectSeq(sent'[p], IsReply) = SelectSeq(sent[p], IsReply)
                               /\ ProjOf(queue', p) = ProjOf(queue, p)
QuietAfterExit == [][\A p \in Peers : QuietStep(p)]_vars
(* what was written to a socket and what was queued stays *)
AppendStep(p) == LPrefix(sent[p], sent'[p]) /\ closes[p] <= closes'[p] /\ (exitreq[p] => exitreq'[p])
AppendOnly == [][LPrefix(queue, queue') /\ \A p \in Peers : AppendStep(p)]_vars

(* stop(): on return every attached peer has been signalled and the RPC server is not serving *)
StoppedMeans == (node = "stopped" /\ nstops > 0) =>
                    /\ \A p \in Peers : Attached(p) => exitreq[p]
                    /\ rpc \in {"off", "down"}
(* nobody but stop() sets an exit flag *)
ExitOnlyByStop == \A p \in Peers : exitreq[p] => nstops > 0

(* ibd: exactly one genesis record in the datadir, one getblocks per call, to peer 0 only *)
IbdOnce == /\ disk = (IF nibd > 0 \/ (mcall = "ibd" /\ mph = "wrote") THEN 1 ELSE 0)
           /\ \A p \in Peers : Count(sent[p], <<"getblocks", 0>>) = (IF p = 0 THEN nibd ELSE 0)

(* liveness: once stop() is under way every receive thread terminates (socket closed), the server thread too,
   and stop() returns *)
AllTerminated  == \A p \in Peers : Attached(p) => pc[p] = "closed"
StopTerminates == (node = "stopping") ~> AllTerminated
StopReturns    == (node = "stopping") ~> (node = "stopped")
RpcTerminates  == (node = "stopping") ~> (rpc \in {"off", "down"})
=============================================================================
