CONSTANTS Peers = {1, 2}  Racy = FALSE  Connect = FALSE  MsgsPerPeer = 3
KindSet = {"ping", "version", "verack", "inv", "unknown"}
SPECIFICATION Spec
INVARIANT ExactlyOnce
INVARIANT RepliesExact
INVARIANT RepliesPrefix
INVARIANT VersionStored
PROPERTY NeverRemoved
CHECK_DEADLOCK FALSE
