CONSTANTS MAX = 24  OVERHEAD = 8  Deviation = "none"  FlushGrain = 8
Sizes = {0, 4, 8, 15, 16}  MaxBatches = 3  MaxPerBatch = 2  WithCrash = TRUE
InitDirs <- DirsSmall
SPECIFICATION Spec
INVARIANT TypeOK
INVARIANT RecordStream
INVARIANT WholeRecords
INVARIANT InFlight
INVARIANT Bounded
INVARIANT Consecutive
INVARIANT CrashPrefix
PROPERTY AppendOnly
PROPERTY NewFileOnlyWhenNeeded
CHECK_DEADLOCK FALSE
