CONSTANTS MaxTxs = 3  WrongId = FALSE
INIT Init
NEXT Next
INVARIANT RoundTrip
INVARIANT NeverFails
INVARIANT OperatorForm
INVARIANT Progress
CHECK_DEADLOCK FALSE
