-------------------------------- MODULE Cli --------------------------------
(***************************************************************************)
(* C20 - the command line of `bits`.                                       *)
(*                                                                         *)
(* Part 1: layering of option values.  main() is a pipeline of four steps  *)
(* over (ns, cfg): ParseArgs, InitConfig, LoadFile, ApplyExplicit.  The    *)
(* POLICY (what the property demands) is stated separately and             *)
(* declaratively over the configuration alone: Policy(c).  The pipeline    *)
(* operators below are the INTENDED discipline; two named deviations       *)
(* (Dev) reproduce the ways in which a pipeline of this shape goes wrong   *)
(* and are only switched on by the vacuity self-tests of MC_Cli.           *)
(*                                                                         *)
(* Part 2: ReadBytes / WriteBytes over raw / hex / bin.  Text and bytes    *)
(* are both Seq(0..255) (text = ASCII codes).                              *)
(***************************************************************************)
EXTENDS Prim, FiniteSets

(* ------------------------------------------------------------------ options *)
RpcOptions == {"rpc_url", "rpc_user", "rpc_password", "rpc_datadir"}
Options    == {"log_level", "network", "input_format", "output_format"} \cup RpcOptions

(* built-in defaults.  An unset rpc_* is "" (the harness identifies None and ""). *)
Default(o) == CASE o = "log_level"     -> "error"
                [] o = "network"       -> "mainnet"
                [] o = "input_format"  -> "hex"
                [] o = "output_format" -> "hex"
                [] OTHER               -> ""

HashCommands == {"sha256", "ripemd160", "hash160", "hash256"}
Commands == {"base", "key", "pubkey", "addr", "wif", "mnemonic", "sig", "tx", "script", "rpc"} \cup HashCommands

(* candidate values of an option (for key/pubkey the output format may also be "pem") *)
Values(cmd, o) ==
    CASE o = "log_level"     -> {"info", "debug", "warning", "error"}
      [] o = "network"       -> {"mainnet", "testnet", "regtest"}
      [] o = "input_format"  -> {"raw", "hex", "bin"}
      [] o = "output_format" -> {"raw", "hex", "bin"} \cup (IF cmd \in {"key", "pubkey"} THEN {"pem"} ELSE {})
      [] OTHER               -> {"", "v1", "v2", "v3"}

(* options declared by the command's own parser ("base" = the top-level parser) *)
Declares(cmd) ==
    CASE cmd = "base"             -> {"log_level", "input_format", "output_format"}
      [] cmd = "key"              -> {"log_level", "output_format"}
      [] cmd = "pubkey"           -> {"log_level", "input_format", "output_format"}
      [] cmd \in {"addr", "wif"}  -> {"log_level", "network", "input_format"}
      [] cmd = "mnemonic"         -> {"log_level", "network", "input_format", "output_format"}
      [] cmd \in {"sig", "tx"}    -> {"log_level", "input_format", "output_format"}
      [] cmd \in HashCommands     -> {"log_level", "input_format", "output_format"}
      [] cmd = "script"           -> {"log_level"}
      [] cmd = "rpc"              -> {"log_level", "network"} \cup RpcOptions
MainDeclares == Declares("base")

(* options the command reads from the configuration: its own, and for `script` the  *)
(* output format, which only the top-level parser declares                          *)
Uses(cmd) == Declares(cmd) \cup (IF cmd = "script" THEN {"output_format"} ELSE {})

(* where an option can be written for a command *)
Positions(cmd, o) ==
    (IF o \in Declares(cmd) THEN {"own"} ELSE {}) \cup
    (IF cmd # "base" /\ o \in MainDeclares /\ o \in Uses(cmd) THEN {"before"} ELSE {})

(* ------------------------------------------------------------ configurations *)
(* A configuration c:                                                          *)
(*   cmd, opt      the (sub)command and the option under consideration         *)
(*   pos           "none" (not given) | "own" | "before" (before the subcommand)*)
(*   xv            the value given on the command line (if pos # "none")       *)
(*   json, toml    [kind: "absent" | "nokey" | "key", v: value]                *)
(*   unknown       every present file also holds a key the tool does not define*)
(*   tomlsup       TOML is supported by the interpreter                        *)
Absent == [kind |-> "absent", v |-> ""]
FileStates(cmd, o) == {Absent, [kind |-> "nokey", v |-> ""]} \cup [kind : {"key"}, v : Values(cmd, o)]

ConfigsOf(cmd, o, tomlModes) ==
    {c \in [cmd : {cmd}, opt : {o}, pos : {"none"} \cup Positions(cmd, o), xv : {""} \cup Values(cmd, o),
            json : FileStates(cmd, o), toml : FileStates(cmd, o), unknown : BOOLEAN, tomlsup : tomlModes] :
        /\ (c.pos = "none") => (c.xv = "")
        /\ (c.pos # "none") => (c.xv \in Values(cmd, o))
        /\ c.unknown => (c.json.kind # "absent" \/ c.toml.kind # "absent")     \* needs a file to live in
        /\ (~c.tomlsup) => (c.toml.kind # "absent")}                          \* otherwise same as tomlsup

Configs(cmds, opts, tomlModes) ==
    UNION {UNION {ConfigsOf(cmd, o, tomlModes) : o \in {p \in opts : Positions(cmd, p) # {}}} : cmd \in cmds}

(* contents of a present file, as a dictionary *)
UnknownKey == "frobnicate"
Dict(fs, o, unknown) ==
    [k \in (IF fs.kind = "key" THEN {o} ELSE {}) \cup (IF unknown THEN {UnknownKey} ELSE {}) |->
        IF k = o THEN fs.v ELSE "whatever"]

(* which file is consulted: TOML if supported and present, else JSON if present *)
Chosen(c) == IF c.tomlsup /\ c.toml.kind # "absent" THEN "toml"
             ELSE IF c.json.kind # "absent" THEN "json" ELSE "none"
ChosenState(c) == IF Chosen(c) = "toml" THEN c.toml ELSE IF Chosen(c) = "json" THEN c.json ELSE Absent

(* ------------------------------------------------------------------- POLICY *)
(* "the value in effect is the one given explicitly on the command line if any,  *)
(*  otherwise the one in the configuration file if present (TOML preferred over  *)
(*  JSON when both exist and TOML is supported), otherwise the built-in default" *)
Source(c) == IF c.pos # "none" THEN "explicit"
             ELSE IF ChosenState(c).kind = "key" THEN Chosen(c) ELSE "default"
Policy(c) == IF c.pos # "none" THEN c.xv
             ELSE IF ChosenState(c).kind = "key" THEN ChosenState(c).v ELSE Default(c.opt)

(* ----------------------------------------------------------------- PIPELINE *)
(* namespace: vals = dest -> value for the declared dests, marks = explicit dests *)
EmptyNs == [vals |-> [o \in {} |-> ""], marks |-> {}]

(* ParseArgs.  The top-level parser fills its defaults and consumes what precedes  *)
(* the subcommand; the sub-parser then contributes its own dests.  Intended: a     *)
(* value given explicitly is never replaced by a default.                          *)
(*   Dev "subdefault-overwrites": the sub-parser's defaults overwrite values the   *)
(*        top-level parser had stored, the mark survives (F28).                     *)
(*   Dev "unmarked-redeclared": key/pubkey store --output-format without a mark    *)
(*        (F27).                                                                    *)
Parse(c, dev) ==
    LET before  == c.pos = "before"
        own     == c.pos = "own"
        main    == [o \in MainDeclares |-> IF before /\ o = c.opt THEN c.xv ELSE Default(o)]
        mmarks  == IF before \/ (own /\ c.cmd = "base") THEN {c.opt} ELSE {}
        mainB   == [o \in MainDeclares |-> IF own /\ c.cmd = "base" /\ o = c.opt THEN c.xv ELSE main[o]]
        sub     == [o \in Declares(c.cmd) |-> IF own /\ o = c.opt THEN c.xv ELSE Default(o)]
        smarks  == IF own /\ ~("unmarked-redeclared" \in dev /\ c.cmd \in {"key", "pubkey"} /\ c.opt = "output_format")
                   THEN {c.opt} ELSE {}
        keep(o) == o \in mmarks /\ o \notin smarks /\ "subdefault-overwrites" \notin dev
    IN IF c.cmd = "base" THEN [vals |-> mainB, marks |-> mmarks]
       ELSE [vals  |-> [o \in MainDeclares \cup Declares(c.cmd) |->
                            IF o \in Declares(c.cmd) /\ ~keep(o) THEN sub[o] ELSE main[o]],
             marks |-> mmarks \cup smarks]

(* InitConfig: the Config object is built from ns - defined options taken from the namespace, others default *)
InitCfg(ns) == [o \in Options |-> IF o \in DOMAIN ns.vals THEN ns.vals[o] ELSE Default(o)]

(* LoadFile: keys of the chosen file that the tool defines replace the value, *)
(* all other keys are dropped                                                *)
Overlay(cfg, d) == [o \in Options |-> IF o \in DOMAIN d THEN d[o] ELSE cfg[o]]
ChosenDict(c) == IF Chosen(c) = "none" THEN [k \in {} |-> ""] ELSE Dict(ChosenState(c), c.opt, c.unknown)

(* ApplyExplicit: marked options are written back over whatever the file said *)
Explicit(cfg, ns) == [o \in Options |-> IF o \in ns.marks THEN ns.vals[o] ELSE cfg[o]]

Effective(c, dev) == LET ns == Parse(c, dev) IN Explicit(Overlay(InitCfg(ns), ChosenDict(c)), ns)

(* --------------------------------------------------------------- CONVERSION *)
NL == 10
CR == 13
Formats == {"raw", "hex", "bin"}
IsHexDigit(ch) == ch \in 48..57 \/ ch \in 97..102 \/ ch \in 65..70
HexVal(ch)  == IF ch \in 48..57 THEN ch - 48 ELSE IF ch \in 97..102 THEN ch - 87 ELSE ch - 55
HexChar(n)  == IF n < 10 THEN 48 + n ELSE 87 + n
IsNewline(ch) == ch = NL \/ ch = CR

RECURSIVE LeadingNL(_)
LeadingNL(t) == IF t # <<>> /\ IsNewline(Head(t)) THEN 1 + LeadingNL(Tail(t)) ELSE 0
StripNL(t) == LET a == Drop(t, LeadingNL(t)) IN Take(a, Len(a) - LeadingNL(Rev(a)))

(* left-pad with the digit zero to a whole number of `unit` digits *)
PadLeft(s, unit) == Rep(48, (unit - (Len(s) % unit)) % unit) \o s

Bit(byte, j) == (byte \div Pow2(8 - j)) % 2            \* j = 1 is the most significant bit
RECURSIVE BitsVal(_, _, _)
BitsVal(p, from, n) == IF n = 0 THEN 0 ELSE (p[from] - 48) * Pow2(n - 1) + BitsVal(p, from + 1, n - 1)

ReadBytes(t, fmt) ==
    CASE fmt = "raw" -> Ok(t)
      [] fmt = "hex" ->
           LET s == StripNL(t) IN
           IF \A i \in 1..Len(s) : IsHexDigit(s[i])
           THEN LET p == PadLeft(s, 2)
                IN Ok([i \in 1..(Len(p) \div 2) |-> 16 * HexVal(p[2 * i - 1]) + HexVal(p[2 * i])])
           ELSE Fail
      [] fmt = "bin" ->
           LET s == StripNL(t) IN
           IF \A i \in 1..Len(s) : s[i] \in {48, 49}
           THEN LET p == PadLeft(s, 8)
                IN Ok([i \in 1..(Len(p) \div 8) |-> BitsVal(p, 8 * (i - 1) + 1, 8)])
           ELSE Fail
      [] OTHER -> Fail

(* canonical rendering: two lower-case hex digits / eight bits per byte, then a newline *)
WriteBytes(b, fmt) ==
    CASE fmt = "raw" -> b
      [] fmt = "hex" -> [k \in 1..(2 * Len(b)) |->
                            LET byte == b[(k + 1) \div 2]
                            IN HexChar(IF (k % 2) = 1 THEN byte \div 16 ELSE byte % 16)] \o <<NL>>
      [] fmt = "bin" -> [k \in 1..(8 * Len(b)) |-> 48 + Bit(b[(k + 7) \div 8], ((k - 1) % 8) + 1)] \o <<NL>>

(* the base command: read in format f, write in format g *)
Convert(t, f, g) == LET r == ReadBytes(t, f) IN IF r.ok THEN Ok(WriteBytes(r.v, g)) ELSE Fail
=============================================================================
