CONSTANTS MaxN = 64  Promote = TRUE
SPECIFICATION Spec
INVARIANT RowIsRec
INVARIANT RootIsRec
INVARIANT ReduceIsRec
INVARIANT NeverEmpty
PROPERTY Terminates
CHECK_DEADLOCK FALSE
