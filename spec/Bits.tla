-------------------------------- MODULE Bits --------------------------------
(***************************************************************************)
(* End-to-end composition (beyond the twenty listed properties): a tiny    *)
(* abstract ledger whose actions are the library's public operations,      *)
(*   Mine   coinbase_tx + merkle_root + block_header + block_ser           *)
(*   Send   send_tx (UTXO scan, selection, outputs, signing)               *)
(*   Store  write_blocks_to_disk, then read back with block_deser          *)
(*   Relay  the stored block's hash announced in an inv message that the   *)
(*          node's receive loop must queue                                 *)
(* TLC explores the bounded model (MC_Bits) and its simulated behaviours   *)
(* are replayed through the real code (harness/scenario.py): after every   *)
(* step the balances, chain, store and queue projected from the REAL       *)
(* bytes (parsed back with the library's own deserialisers) must equal the *)
(* abstract state.  Amounts are satoshis (small, explicit block reward).   *)
(***************************************************************************)
EXTENDS Naturals, Sequences, FiniteSets

CONSTANTS Keys,        \* owners
          Reward,      \* explicit coinbase reward (satoshis)
          Fee,         \* miner fee of every send (not claimed by the coinbase: burnt)
          Dust,        \* change below this is not returned (1000)
          MaxBlocks, MaxSends

VARIABLES chain,     \* sequence of blocks: [miner, txs : Seq(tx)]
          utxo,      \* sequence (creation order) of [id, owner, amt], the confirmed unspent outputs
          mempool,   \* sequence of txs waiting for a block: [from, ins : Seq(id), outs : Seq([owner, amt])]
          stored,    \* number of blocks in the block file store
          relayed,   \* block numbers announced to the node (its message queue), in order
          burnt,     \* fees and sub-dust change destroyed so far
          nsends
vars == <<chain, utxo, mempool, stored, relayed, burnt, nsends>>

RECURSIVE Sum(_)
Sum(s) == IF s = <<>> THEN 0 ELSE Head(s).amt + Sum(Tail(s))
OwnedBy(k) == SelectSeq(utxo, LAMBDA u : u.owner = k)
Balance(k) == Sum(OwnedBy(k))
Pending(k) == \E i \in 1..Len(mempool) : mempool[i].from = k

Init == /\ chain = <<>> /\ utxo = <<>> /\ mempool = <<>> /\ stored = 0 /\ relayed = <<>> /\ burnt = 0 /\ nsends = 0

(* the coinbase pays Reward to the miner (output 0 of tx 0); then the mempool transactions are applied in order *)
RECURSIVE Apply(_, _, _, _)
Apply(u, txs, b, i) ==            \* b = block number, i = index of the tx within the block (coinbase is 0)
    IF txs = <<>> THEN u
    ELSE LET t == Head(txs)
             kept == SelectSeq(u, LAMBDA x : \A j \in 1..Len(t.ins) : t.ins[j] # x.id)
             made == [j \in 1..Len(t.outs) |-> [id |-> <<b, i, j - 1>>, owner |-> t.outs[j].owner, amt |-> t.outs[j].amt]]
         IN Apply(kept \o made, Tail(txs), b, i + 1)
Mine(k) == /\ Len(chain) < MaxBlocks
           /\ LET b == Len(chain) + 1
                  cb == [from |-> k, ins |-> <<>>, outs |-> <<[owner |-> k, amt |-> Reward]>>]
              IN /\ chain' = Append(chain, [miner |-> k, txs |-> <<cb>> \o mempool])
                 /\ utxo' = Apply(utxo, <<cb>> \o mempool, b, 0)
           /\ mempool' = <<>>
           /\ UNCHANGED <<stored, relayed, burnt, nsends>>

(* send_tx: take the sender's outputs in order until they cover the request; recipient gets request - fee; change if >= Dust *)
RECURSIVE Take(_, _, _)
Take(us, need, acc) == IF us = <<>> \/ (acc # <<>> /\ Sum(acc) >= need) THEN acc ELSE Take(Tail(us), need, Append(acc, Head(us)))
Send(a, b, num, den) ==
    /\ nsends < MaxSends /\ a # b /\ ~Pending(a) /\ Balance(a) > 0
    /\ LET req == (Balance(a) * num) \div den
           sel == Take(OwnedBy(a), req, <<>>)
           chg == Sum(sel) - req
       IN /\ req >= Fee
          /\ mempool' = Append(mempool, [from |-> a, ins |-> [j \in 1..Len(sel) |-> sel[j].id],
                                         outs |-> <<[owner |-> b, amt |-> req - Fee]>>
                                                  \o (IF chg >= Dust THEN <<[owner |-> a, amt |-> chg]>> ELSE <<>>)])
          /\ burnt' = burnt + Fee + (IF chg >= Dust THEN 0 ELSE chg)
    /\ nsends' = nsends + 1
    /\ UNCHANGED <<chain, utxo, stored, relayed>>

Store == /\ stored < Len(chain) /\ stored' = stored + 1 /\ UNCHANGED <<chain, utxo, mempool, relayed, burnt, nsends>>
Relay == /\ Len(relayed) < stored /\ relayed' = Append(relayed, Len(relayed) + 1)
         /\ UNCHANGED <<chain, utxo, mempool, stored, burnt, nsends>>

Next == \/ \E k \in Keys : Mine(k)
        \/ \E a, b \in Keys : \E f \in {<<1, 1>>, <<1, 2>>, <<1, 4>>, <<3, 4>>} : Send(a, b, f[1], f[2])
        \/ Store \/ Relay
Spec == Init /\ [][Next]_vars

(* ------------------------------ properties ------------------------------ *)
(* value is conserved: everything ever minted is either unspent, waiting in the mempool's outputs, or burnt *)
InFlight == LET RECURSIVE F(_)
                F(m) == IF m = <<>> THEN 0 ELSE Sum(Head(m).outs) + F(Tail(m))
            IN F(mempool)
SpentInMempool == LET ids == UNION {{mempool[i].ins[j] : j \in 1..Len(mempool[i].ins)} : i \in 1..Len(mempool)}
                  IN Sum(SelectSeq(utxo, LAMBDA u : u.id \in ids))
Conservation == Sum(utxo) - SpentInMempool + InFlight + burnt = Len(chain) * Reward
NoDoubleSpend == \A i, j \in 1..Len(mempool) : i # j =>
                    \A x \in 1..Len(mempool[i].ins), y \in 1..Len(mempool[j].ins) : mempool[i].ins[x] # mempool[j].ins[y]
StoreBehindChain == stored <= Len(chain) /\ Len(relayed) <= stored
UniqueIds == \A i, j \in 1..Len(utxo) : i # j => utxo[i].id # utxo[j].id
=============================================================================
