------------------------------- MODULE MC_Frame -------------------------------
(***************************************************************************)
(* Stage A for C17 (framing): scripts of 1..MaxMsgs back-to-back messages  *)
(* with at most one fault each, every fragmentation of the stream.         *)
(* A message is [f, a, x]: fault kind, actual payload length, parameter.   *)
(*   "none"   intact                                                       *)
(*   "cmd"    a bit of the command field flipped (not covered by checksum) *)
(*   "magic"  another network's magic                                      *)
(*   "cksum"  a checksum byte flipped                                      *)
(*   "pay"    a payload byte flipped (a >= 1)                              *)
(*   "len"    declared length x # a                                        *)
(*   "lenbig" bit 31 of the declared length flipped                        *)
(*   "trunc"  the peer closes after x < 24 + a bytes of this (last) message*)
(* Hashes are the toy bodies of Native.tla here (stage A runs without the  *)
(* Java overrides): the model decides on structure, stage C on real bytes. *)
(***************************************************************************)
EXTENDS Frame, FiniteSets
CONSTANTS PayLens,      \* payload lengths
          MaxMsgs,
          FewPrefixes,  \* BOOLEAN: only a representative set of non-last messages (quick tier)
          GenOnly       \* BOOLEAN: the small script set whose whole state graph is dumped for stage B
MainMagic  == <<249, 190, 180, 217>>               \* cfg: Magic <- MainMagic
OtherMagic == <<11, 17, 9, 7>>                     \* a wrong network magic (testnet)

VARIABLE script
mvars == <<vars, script>>

Cmd1 == <<112, 105, 110, 103>>                    \* "ping"
Cmd2 == <<112, 105, 110, 102>>                    \* "pinf": one bit of the 4th byte flipped
Pay(i, a) == [j \in 1..a |-> (16 * i + j) % 256]
Flip(b)   == IF (b % 2) = 0 THEN b + 1 ELSE b - 1
FlipAt(s, i) == [s EXCEPT ![i] = Flip(@)]

Bytes(i, m) ==
    LET p    == Pay(i, m.a)
        good == FrameSer(Magic, Cmd1, p)
        full == CASE m.f = "cmd"    -> FrameSer(Magic, Cmd2, p)
                  [] m.f = "magic"  -> FrameSer(OtherMagic, Cmd1, p)
                  [] m.f = "cksum"  -> FlipAt(good, 21)
                  [] m.f = "pay"    -> FlipAt(good, H + 1)
                  [] m.f = "len"    -> SubSeq(good, 1, 16) \o LE(m.x, 4) \o SubSeq(good, 21, Len(good))
                  [] m.f = "lenbig" -> [good EXCEPT ![20] = @ + 128]
                  [] OTHER          -> good
    IN IF m.f = "trunc" THEN SubSeq(full, 1, m.x) ELSE full

RECURSIVE Encode(_, _)
Encode(s, i) == IF i > Len(s) THEN <<>> ELSE Bytes(i, s[i]) \o Encode(s, i + 1)

Msgs(last) ==
    {[f |-> f, a |-> a, x |-> 0] : f \in {"none", "cmd"}, a \in PayLens}
    \cup UNION {{[f |-> "len", a |-> b, x |-> x] : x \in PayLens \ {b}} : b \in PayLens}
    \cup {[f |-> "lenbig", a |-> a, x |-> 0] : a \in PayLens}
    \cup (IF last THEN {[f |-> f, a |-> a, x |-> 0] : f \in {"magic", "cksum"}, a \in PayLens}
                       \cup {[f |-> "pay", a |-> a, x |-> 0] : a \in PayLens \ {0}}
                       \cup UNION {{[f |-> "trunc", a |-> b, x |-> x] : x \in 0..(H + b - 1)} : b \in PayLens}
                  ELSE {})
MaxLen   == CHOOSE m \in PayLens : \A n \in PayLens : n <= m
Prefixes == IF FewPrefixes
            THEN {[f |-> "none", a |-> 0, x |-> 0], [f |-> "none", a |-> MaxLen, x |-> 0], [f |-> "cmd", a |-> 1, x |-> 0],
                  [f |-> "len", a |-> 1, x |-> MaxLen], [f |-> "lenbig", a |-> 1, x |-> 0]}
            ELSE Msgs(FALSE)
GenLast == {[f |-> "none", a |-> 0, x |-> 0], [f |-> "none", a |-> MaxLen, x |-> 0], [f |-> "cksum", a |-> 1, x |-> 0],
            [f |-> "trunc", a |-> MaxLen, x |-> H + 1]}
GenScripts == [1..1 -> Msgs(TRUE)] \cup {<<p, l>> : p \in Prefixes, l \in GenLast}
AllScripts == UNION {{s \in [1..n -> Msgs(TRUE)] : \A i \in 1..(n - 1) : s[i] \in Prefixes} : n \in 1..MaxMsgs}
Scripts == IF GenOnly THEN GenScripts ELSE AllScripts

Init == \E s \in Scripts : script = s /\ InitWith(Encode(s, 1))
MRecv        == RecvAny /\ UNCHANGED script
MRecvEOF     == RecvEOF /\ UNCHANGED script
MHeaderDone  == HeaderDone /\ UNCHANGED script
MPayloadDone == PayloadDone /\ UNCHANGED script
MVerify      == Verify /\ UNCHANGED script
MCall        == Call /\ UNCHANGED script
MNext == MRecv \/ MRecvEOF \/ MHeaderDone \/ MPayloadDone \/ MVerify \/ MCall
Spec == Init /\ [][MNext]_mvars /\ WF_mvars(MNext)

(* ------------------------------ properties ------------------------------ *)
M           == script[calls]
Intact(m)   == m.f \in {"none", "cmd"}
RECURSIVE StartOf(_)
StartOf(i)  == IF i = 1 THEN 0 ELSE StartOf(i - 1) + Len(Bytes(i - 1, script[i - 1]))
EndOf(i)    == StartOf(i) + H + script[i].a
Expected(i) == [k |-> "msg", magic |-> Magic, cmd |-> IF script[i].f = "cmd" THEN Cmd2 ELSE Cmd1, payload |-> Pay(i, script[i].a)]

InScript    == calls \in 1..Len(script)
(* consecutive messages never bleed into one another: a call starts at its message and ends exactly at its end *)
NoBleed     == (phase = "ret" => cursor = EndOf(calls)) /\ base = StartOf(calls)
NoOverRead  == M.f \notin {"len", "lenbig"} => cursor <= EndOf(calls)
(* exactly the same magic, command and payload *)
Exact       == phase = "ret" => out = Expected(calls)
(* a mismatching magic / length / checksum / payload is never returned ... *)
CorruptionDetected == phase = "ret" => Intact(M)
(* ... and an intact, complete message is never rejected *)
Complete    == phase = "err" => ~Intact(M)
EOFOnlyWhenShort == (phase = "err" /\ out.k = "eof") => M.f \in {"trunc", "len", "lenbig"}
=============================================================================
