---------------------------- MODULE Trace_Merkle ----------------------------
(* Stage C (C15): every recorded call merkle_root(txids) is re-run by the level *)
(* machine of Merkle.tla with the REAL hash H(a,b) = HASH256(a ++ b): one TLC   *)
(* step per tree level, then the verdict on the implementation's answer.       *)
EXTENDS Prim, Json, IOUtils, TLC
Trace == JsonDeserialize(IOEnv.TRACE_FILE)
VARIABLES l, row, lvl
RealH(a, b) == Hash256(a \o b)
M == INSTANCE Merkle WITH H <- RealH

Load(i) == IF i <= Len(Trace) THEN Trace[i].txids ELSE <<<<>>>>
Verdict(e, root) == IF ~e.ok THEN "merkle-raised"
                    ELSE IF e.r # root THEN "merkle-wrong"
                    ELSE "ok"
Init == l = 1 /\ row = Load(1) /\ lvl = 0
Level == /\ l <= Len(Trace)
         /\ (M!LevelEven \/ M!LevelOddLeaves \/ M!LevelOddAbove)
         /\ UNCHANGED l
Judge == /\ l <= Len(Trace) /\ Len(row) = 1
         /\ PrintT(<<"V", Trace[l].id, Verdict(Trace[l], row[1])>>)
         /\ l' = l + 1 /\ row' = Load(l + 1) /\ lvl' = 0
Next == Level \/ Judge
=============================================================================
