CONSTANTS Big = FALSE CP = 103 CB = 5 CN = 97 CGx = 2 CGy = 42
Ds = {}
Zs = {}
VerifyDs = {1,96}
VerifyZs = {0,1,97,98}
DerVals = {}
EmitRows = TRUE
INIT Init
NEXT Next
INVARIANT VerifyExact
INVARIANT OffCurveRejected
INVARIANT Emit
CHECK_DEADLOCK FALSE
