CONSTANTS MaxN = 256  Promote = FALSE
SPECIFICATION Spec
INVARIANT RowIsRec
INVARIANT RootIsRec
INVARIANT ReduceIsRec
INVARIANT NeverEmpty
PROPERTY Terminates
CHECK_DEADLOCK FALSE
