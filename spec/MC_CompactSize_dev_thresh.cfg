CONSTANTS R = 8  MaxDigits = 3  MaxBuf = 2  TrailLen = 0  Mode = "digits"  Upto = 0  Deviation = "threshold"
INIT Init
NEXT Next
INVARIANT RefusedExactlyOutOfRange
INVARIANT RoundTripAnyTrailing
INVARIANT ShortestForm
INVARIANT HighZerosIrrelevant
INVARIANT DigitsInRange
INVARIANT DecodeOfBuffer
CHECK_DEADLOCK FALSE
