------------------------------- MODULE MC_Oid -------------------------------
(* Stage A + rows for the Oid extension: every OID over boundary arcs, and malformed content octets. *)
EXTENDS Oid, TLC
CONSTANT Big      \* BOOLEAN: three trailing arcs (thorough)
VARIABLE c

Bnd == {0, 1, 39, 40, 127, 128, 255, 256, 16383, 16384, 65535, 65536, 2097151, 2097152, 268435455, 268435456, 2147483647}
Firsts == {<<a, b>> : a \in {0, 1}, b \in {0, 1, 39}} \cup {<<2, b>> : b \in {0, 39, 40, 47, 48, 175, 176, 999, 16304, 16305}}
Tails == {<<>>} \cup {<<x>> : x \in Bnd} \cup {<<x, y>> : x \in Bnd, y \in Bnd}
         \cup (IF Big THEN {<<x, y, z>> : x \in Bnd, y \in Bnd, z \in {0, 128, 16384}} ELSE {})
Known == {<<1, 2, 840, 10045, 2, 1>>, <<1, 3, 132, 0, 10>>, <<1, 3, 6, 1, 4, 1, 311, 21, 20>>, <<1, 2, 840, 113549, 1, 1, 11>>, <<2, 5, 4, 3>>}
EncCases(f) == {[k |-> "enc", a |-> f \o t] : t \in Tails}
BadBytes == {<<>>, <<128>>, <<42, 128>>, <<42, 128, 1>>, <<42, 129>>, <<42, 255, 255>>, <<42, 134, 72, 206>>, <<128, 42>>,
             <<42, 143, 255, 255, 255, 127>>, <<42, 144, 128, 128, 128, 0>>, <<255>>}
GoodBytes == {<<0>>, <<39>>, <<40>>, <<79>>, <<80>>, <<127>>, <<129, 0>>, <<136, 55>>, <<42, 0>>, <<42, 127>>, <<42, 129, 0>>,
              <<42, 255, 127>>, <<42, 129, 128, 0>>, <<42, 135, 255, 255, 255, 127>>, <<42, 1, 2, 3, 4, 5, 6, 7>>}
Init == c \in [k : {"group"}, f : Firsts \cup {<<9>>}]
Next == c.k = "group" /\ c' \in (IF c.f = <<9>> THEN {[k |-> "enc", a |-> a] : a \in Known} \cup {[k |-> "dec", b |-> b] : b \in BadBytes \cup GoodBytes}
                                                      \cup {[k |-> "enc", a |-> a] : a \in {<<3, 1>>, <<0, 40>>, <<1, 40>>, <<1>>}}
                                 ELSE EncCases(c.f))

RoundTrip == c.k = "enc" /\ ValidArcs(c.a) => Dec(Enc(c.a).v) = Ok(c.a)
Refuses == c.k = "enc" /\ ~ValidArcs(c.a) => ~Enc(c.a).ok
Canonical == c.k = "dec" => LET d == Dec(c.b) IN (d.ok => Enc(d.v) = Ok(c.b)) /\ (c.b \in BadBytes => ~d.ok) /\ (c.b \in GoodBytes => d.ok)
Vectors == /\ Enc(<<1, 2, 840, 10045, 2, 1>>).v = <<42, 134, 72, 206, 61, 2, 1>>
           /\ Enc(<<1, 3, 132, 0, 10>>).v = <<43, 129, 4, 0, 10>>
           /\ Enc(<<1, 3, 6, 1, 4, 1, 311, 21, 20>>).v = <<43, 6, 1, 4, 1, 130, 55, 21, 20>>
           /\ Enc(<<2, 999, 3>>).v = <<136, 55, 3>>                       \* the example of X.690 8.19.5 / RFC 6256
           /\ Text(<<1, 2, 840, 10045, 2, 1>>) = <<49, 46, 50, 46, 56, 52, 48, 46, 49, 48, 48, 52, 53, 46, 50, 46, 49>>
(* minimal form: the encoding of an arc never starts with 0x80 and has the fewest octets *)
Minimal == c.k = "enc" /\ ValidArcs(c.a) => \A i \in 3..Len(c.a) : LET e == B128(c.a[i], TRUE) IN
               e[1] # 128 /\ Len(e) = (IF c.a[i] < 128 THEN 1 ELSE IF c.a[i] < 16384 THEN 2 ELSE IF c.a[i] < 2097152 THEN 3
                                        ELSE IF c.a[i] < 268435456 THEN 4 ELSE 5)
(* vacuity guard: must be VIOLATED (a three-octet arc is explored) *)
NoThreeOctetArc == c.k = "enc" /\ ValidArcs(c.a) /\ Len(c.a) = 3 => Len(Enc(c.a).v) # 4
Emit == c.k # "group" => PrintT(<<"R", c, IF c.k = "enc" THEN [t |-> Text(c.a), r |-> Enc(c.a)]
                                          ELSE LET d == Dec(c.b) IN [t |-> IF d.ok THEN Text(d.v) ELSE <<>>, r |-> d]>>)
=============================================================================
