CONSTANTS Big = FALSE CP = 67 CB = 7 CN = 79 CGx = 2 CGy = 22
Ds = {1,2,40,77,78}
Zs = {0,1,2,3,4,5,6,7,8,9,10,11,12,13,14,15,16,17,18,19,20,21,22,23,24,25,26,27,28,29,30,31,32,33,34,35,36,37,38,39,40,41,42,43,44,45,46,47,48,49,50,51,52,53,54,55,56,57,58,59,60,61,62,63,64,65,66,67,68,69,70,71,72,73,74,75,76,77,78,79,80,81}
VerifyDs = {}
VerifyZs = {}
DerVals = {1,2,127,128,129,255,256,257,32767,32768,32769,65535,65536,65537,8388607,8388608,16777215,16777216,2147483647}
EmitRows = TRUE
INIT Init
NEXT Next
INVARIANT SignSound
INVARIANT SignUsesFirstGoodDraw
INVARIANT DerRoundTrip
INVARIANT Emit
CHECK_DEADLOCK FALSE
