CONSTANTS Big = FALSE CP = 43 CB = 7 CN = 31 CGx = 2 CGy = 12
WitVers = {}
WitLens = {}
B58Vers = {}
EmitRows = FALSE
Deviation = "keylen"
INIT Init
NEXT Next
INVARIANT MalformedKeyRefused
CHECK_DEADLOCK FALSE
