INIT Init
NEXT Next
INVARIANT Sound
INVARIANT Emit
CHECK_DEADLOCK FALSE
