----------------------------- MODULE Trace_Cli -----------------------------
(* Stage C / replay: every event recorded from the real code is judged by the  *)
(* specification.  Verdict = "ok" or the name of the failing clause.          *)
(*   read   bits.read_bytes(text, fmt)          -> ok, r                       *)
(*   write  bits.write_bytes(data, fmt)         -> ok, r (what was written)    *)
(*   conv   base command `bits -1f -0g` on text -> ok, out                     *)
(*   rt     b rendered in f, f->g, g->f through the base command, read in f    *)
(*   prec   one configuration of the layering product with the effective value *)
(*          that was observed behaviourally                                    *)
(* Inputs that are outside the property's quantifier (text that is not hex /   *)
(* bin digits) get "ok" whatever the code did.                                 *)
EXTENDS Cli, Json, IOUtils, TLC
Trace == JsonDeserialize(IOEnv.TRACE_FILE)
VARIABLE l

NeedsPad(t, fmt) == (fmt = "hex" /\ (Len(StripNL(t)) % 2) # 0) \/ (fmt = "bin" /\ (Len(StripNL(t)) % 8) # 0)

ReadVerdict(e) ==
    LET want == ReadBytes(e.text, e.fmt) IN
    IF ~want.ok THEN "ok"
    ELSE IF ~e.ok THEN (IF StripNL(e.text) = <<>> /\ e.fmt # "raw" THEN "empty-input-rejected" ELSE "read-rejects-valid")
    ELSE IF e.r # want.v THEN (IF NeedsPad(e.text, e.fmt) THEN "padding-wrong" ELSE "read-wrong")
    ELSE "ok"

(* property granularity: whatever was written must read back as the same bytes *)
WriteVerdict(e) ==
    IF ~e.ok THEN "write-raised"
    ELSE LET back == ReadBytes(e.r, e.fmt) IN
         IF back = Ok(e.data) THEN "ok"
         ELSE IF e.data = <<>> THEN "empty-not-lossless" ELSE "write-not-lossless"

ConvVerdict(e) ==
    LET src == ReadBytes(e.text, e.f) IN
    IF ~src.ok THEN "ok"
    ELSE IF ~e.ok THEN (IF src.v = <<>> THEN "empty-input-rejected" ELSE "convert-rejects-valid")
    ELSE IF ReadBytes(e.out, e.g) = src THEN "ok"
    ELSE IF src.v = <<>> THEN "empty-not-lossless"
    ELSE IF NeedsPad(e.text, e.f) THEN "padding-wrong" ELSE "convert-lossy"

RtVerdict(e) ==
    IF ~e.ok THEN (IF e.b = <<>> THEN "empty-input-rejected" ELSE "roundtrip-raised")
    ELSE IF e.b2 = e.b /\ ReadBytes(e.t1, e.f) = Ok(e.b) /\ ReadBytes(e.t2, e.g) = Ok(e.b) /\ ReadBytes(e.t3, e.f) = Ok(e.b)
         THEN "ok"
    ELSE IF e.b = <<>> THEN "empty-not-lossless" ELSE "roundtrip-differs"

(* values that are behaviourally identical for a command are identified by the harness (e.norm) *)
Same(norm, a, b) == a = b \/ (norm = "testnet=regtest" /\ {a, b} \subseteq {"testnet", "regtest"})

PrecVerdict(e) ==
    LET c == [cmd |-> e.cmd, opt |-> e.opt, pos |-> e.pos, xv |-> e.xv,
              json |-> [kind |-> e.jk, v |-> e.jv], toml |-> [kind |-> e.tk, v |-> e.tv],
              unknown |-> e.unknown, tomlsup |-> e.tomlsup]
        chosen == ChosenState(c)
        other  == IF Chosen(c) = "toml" THEN c.json ELSE IF Chosen(c) = "json" THEN c.toml ELSE Absent
        isOther == other.kind = "key" /\ Same(e.norm, e.obs, other.v)
    IN IF e.pos \notin ({"none"} \cup Positions(e.cmd, e.opt)) THEN "ok"        \* not a configuration of the product
       ELSE IF Same(e.norm, e.obs, Policy(c)) THEN "ok"
       ELSE CASE Source(c) = "explicit" ->
                   IF chosen.kind = "key" /\ Same(e.norm, e.obs, chosen.v) /\ ~Same(e.norm, e.obs, Default(e.opt))
                   THEN "explicit-beats-file" ELSE "explicit-beats-default"
              [] Source(c) = "toml"    -> IF isOther THEN "toml-preferred-over-json" ELSE "file-beats-default"
              [] Source(c) = "json"    -> IF isOther THEN "json-when-toml-unsupported" ELSE "file-beats-default"
              [] OTHER                 -> IF isOther THEN "only-chosen-file-consulted" ELSE "default-when-unset"

Verdict(e) ==
    CASE e.op = "read"  -> ReadVerdict(e)
      [] e.op = "write" -> WriteVerdict(e)
      [] e.op = "conv"  -> ConvVerdict(e)
      [] e.op = "rt"    -> RtVerdict(e)
      [] e.op = "prec"  -> PrecVerdict(e)
      [] OTHER          -> "unknown-op"

Init == l = 1
Next == /\ l <= Len(Trace)
        /\ PrintT(<<"V", Trace[l].id, Verdict(Trace[l])>>)
        /\ l' = l + 1
=============================================================================
