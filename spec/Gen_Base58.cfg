CONSTANTS MaxBytes = 2 MaxStr = 2
ByteAlpha = {0, 1, 2, 57, 58, 59, 127, 128, 254, 255}
StrAlpha = {49, 50, 57, 65, 72, 74, 90, 97, 107, 109, 122, 48, 79, 73, 108, 32, 200}
