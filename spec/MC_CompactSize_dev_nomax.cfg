CONSTANTS R = 256  MaxDigits = 0  MaxBuf = 0  TrailLen = 0  Mode = "real"  Upto = 300  Deviation = "none-above-max"
INIT Init
NEXT Next
INVARIANT RefusedExactlyOutOfRange
INVARIANT RoundTripAnyTrailing
INVARIANT ShortestForm
INVARIANT HighZerosIrrelevant
INVARIANT DigitsInRange
INVARIANT DecodeOfBuffer
CHECK_DEADLOCK FALSE
