------------------------------- MODULE Script -------------------------------
(***************************************************************************)
(* Bitcoin Script assembly / disassembly, witness-stack serialisation and  *)
(* the standard templates (C13; reused by Tx, Addr, Spend, Send).          *)
(*                                                                         *)
(* ITEMS.  A script is a sequence of items of one uniform record shape:    *)
(*    OpB(byte)   = [k |-> "op",   b |-> byte, d |-> <<>>]   an opcode      *)
(*    OpI("OP_X") = OpB(OpByte["OP_X"])                       by name       *)
(*    DataI(bytes) = [k |-> "data", b |-> 0,   d |-> bytes]  a data push    *)
(* Opcode aliases (OP_0/OP_FALSE, OP_1/OP_TRUE, OP_NOP2/CLTV, OP_NOP3/CSV) *)
(* share a byte, so items are alias-free by construction.  OpByte is the   *)
(* opcode table of Bitcoin Core's script.h (v23).                          *)
(*                                                                         *)
(* PUBLIC OPERATORS                                                        *)
(*   PushHeader(len)      shortest push prefix for len bytes: <<len>> for  *)
(*                        0..75, 4C+1 byte up to 255, 4D+2 LE up to 65535, *)
(*                        4E+4 LE beyond  (len < 2^31)                     *)
(*   Asm(items)           bytes of the script                              *)
(*   Disasm(bytes)        Ok(items) / Fail (truncated push, undefined      *)
(*                        opcode).  Accepts non-minimal pushes.            *)
(*   MinimalPushes(bytes) Disasm succeeds and every push uses PushHeader   *)
(*   FromNamed(seq)       Ok(items) from trace items [k, n (name), d]      *)
(*   AsmWitness(stack)    CompactSize count, then CompactSize length +     *)
(*                        bytes for every stack item (BIP144)              *)
(*   DisasmWitness(bytes) Ok([stack |-> ..., rest |-> ...]) / Fail         *)
(*   DisasmWitnessAt(b, pos)  Ok([stack, pos (next index)]) / Fail         *)
(*   templates (all defined through Asm):                                  *)
(*     P2PK(pk) P2PKSig(sig) P2PKH(h20) P2PKHSig(sig, pk) P2SH(h20)        *)
(*     P2SHSig(pushes, redeem)  Multisig(m, pks)  MultisigSig(sigs)        *)
(*     NullData(data)  WitnessProgram(ver, prog)  P2WPKH(h20)  P2WSH(h32)  *)
(*     P2SHMultisig(m, pks)  P2SHMultisigSig(sigs, redeem)                 *)
(*     P2SH_P2WPKH(h20)  P2SH_P2WPKHSig(h20)  P2SH_P2WSH(wscript)          *)
(*     P2SH_P2WSHSig(wscript)  RedeemPush(script)                          *)
(***************************************************************************)
EXTENDS CompactSize

OpByte == [
  OP_0 |-> 0, OP_FALSE |-> 0, OP_PUSHDATA1 |-> 76, OP_PUSHDATA2 |-> 77, OP_PUSHDATA4 |-> 78,
  OP_1NEGATE |-> 79, OP_RESERVED |-> 80, OP_1 |-> 81, OP_TRUE |-> 81, OP_2 |-> 82, OP_3 |-> 83,
  OP_4 |-> 84, OP_5 |-> 85, OP_6 |-> 86, OP_7 |-> 87, OP_8 |-> 88, OP_9 |-> 89, OP_10 |-> 90,
  OP_11 |-> 91, OP_12 |-> 92, OP_13 |-> 93, OP_14 |-> 94, OP_15 |-> 95, OP_16 |-> 96,
  OP_NOP |-> 97, OP_VER |-> 98, OP_IF |-> 99, OP_NOTIF |-> 100, OP_VERIF |-> 101, OP_VERNOTIF |-> 102,
  OP_ELSE |-> 103, OP_ENDIF |-> 104, OP_VERIFY |-> 105, OP_RETURN |-> 106,
  OP_TOALTSTACK |-> 107, OP_FROMALTSTACK |-> 108, OP_2DROP |-> 109, OP_2DUP |-> 110, OP_3DUP |-> 111,
  OP_2OVER |-> 112, OP_2ROT |-> 113, OP_2SWAP |-> 114, OP_IFDUP |-> 115, OP_DEPTH |-> 116, OP_DROP |-> 117,
  OP_DUP |-> 118, OP_NIP |-> 119, OP_OVER |-> 120, OP_PICK |-> 121, OP_ROLL |-> 122, OP_ROT |-> 123,
  OP_SWAP |-> 124, OP_TUCK |-> 125,
  OP_CAT |-> 126, OP_SUBSTR |-> 127, OP_LEFT |-> 128, OP_RIGHT |-> 129, OP_SIZE |-> 130,
  OP_INVERT |-> 131, OP_AND |-> 132, OP_OR |-> 133, OP_XOR |-> 134, OP_EQUAL |-> 135, OP_EQUALVERIFY |-> 136,
  OP_RESERVED1 |-> 137, OP_RESERVED2 |-> 138,
  OP_1ADD |-> 139, OP_1SUB |-> 140, OP_2MUL |-> 141, OP_2DIV |-> 142, OP_NEGATE |-> 143, OP_ABS |-> 144,
  OP_NOT |-> 145, OP_0NOTEQUAL |-> 146, OP_ADD |-> 147, OP_SUB |-> 148, OP_MUL |-> 149, OP_DIV |-> 150,
  OP_MOD |-> 151, OP_LSHIFT |-> 152, OP_RSHIFT |-> 153, OP_BOOLAND |-> 154, OP_BOOLOR |-> 155,
  OP_NUMEQUAL |-> 156, OP_NUMEQUALVERIFY |-> 157, OP_NUMNOTEQUAL |-> 158, OP_LESSTHAN |-> 159,
  OP_GREATERTHAN |-> 160, OP_LESSTHANOREQUAL |-> 161, OP_GREATERTHANOREQUAL |-> 162, OP_MIN |-> 163,
  OP_MAX |-> 164, OP_WITHIN |-> 165,
  OP_RIPEMD160 |-> 166, OP_SHA1 |-> 167, OP_SHA256 |-> 168, OP_HASH160 |-> 169, OP_HASH256 |-> 170,
  OP_CODESEPARATOR |-> 171, OP_CHECKSIG |-> 172, OP_CHECKSIGVERIFY |-> 173, OP_CHECKMULTISIG |-> 174,
  OP_CHECKMULTISIGVERIFY |-> 175,
  OP_NOP1 |-> 176, OP_CHECKLOCKTIMEVERIFY |-> 177, OP_NOP2 |-> 177, OP_CHECKSEQUENCEVERIFY |-> 178,
  OP_NOP3 |-> 178, OP_NOP4 |-> 179, OP_NOP5 |-> 180, OP_NOP6 |-> 181, OP_NOP7 |-> 182, OP_NOP8 |-> 183,
  OP_NOP9 |-> 184, OP_NOP10 |-> 185, OP_CHECKSIGADD |-> 186, OP_INVALIDOPCODE |-> 255 ]

OpNames     == DOMAIN OpByte
PushOpBytes == 1..78                       \* direct pushes and PUSHDATA1/2/4
(* bytes that stand for a defined, non-push opcode (OP_0 and OP_1NEGATE..OP_16 included) *)
DefinedOpBytes == {OpByte[n] : n \in OpNames} \ PushOpBytes
NonPushNames   == {n \in OpNames : OpByte[n] \notin PushOpBytes}

OpB(b)   == [k |-> "op", b |-> b, d |-> <<>>]
OpI(n)   == OpB(OpByte[n])
DataI(d) == [k |-> "data", b |-> 0, d |-> d]

PushHeader(n) == IF n <= 75 THEN <<n>>
                 ELSE IF n <= 255 THEN <<76, n>>
                 ELSE IF n <= 65535 THEN <<77>> \o LE(n, 2)
                 ELSE <<78>> \o LE(n, 4)

ItemBytes(it) == IF it.k = "op" THEN <<it.b>> ELSE PushHeader(Len(it.d)) \o it.d
Asm(items)    == Concat([i \in 1..Len(items) |-> ItemBytes(items[i])])

(* one element at 1-based position i of b: Ok([it, next, minimal]) / Fail *)
ReadItem(b, i) ==
    LET o == b[i]
        n == Len(b)
        Push(hdr, len) ==     \* hdr = number of bytes before the data, len = data length
            IF i + hdr + len - 1 > n THEN Fail
            ELSE Ok([it |-> DataI(SubSeq(b, i + hdr, i + hdr + len - 1)), next |-> i + hdr + len,
                     minimal |-> SubSeq(b, i, i + hdr - 1) = PushHeader(len)])
    IN IF o \in 1..75 THEN Push(1, o)
       ELSE IF o = 76 THEN (IF i + 1 > n THEN Fail ELSE Push(2, b[i + 1]))
       ELSE IF o = 77 THEN (IF i + 2 > n THEN Fail ELSE Push(3, FromLE(SubSeq(b, i + 1, i + 2))))
       ELSE IF o = 78 THEN (IF i + 4 > n \/ b[i + 4] > 127 THEN Fail ELSE Push(5, FromLE(SubSeq(b, i + 1, i + 4))))
       ELSE IF o \in DefinedOpBytes THEN Ok([it |-> OpB(o), next |-> i + 1, minimal |-> TRUE])
       ELSE Fail

RECURSIVE DisasmFrom(_, _, _, _)
DisasmFrom(b, i, acc, minimal) ==
    IF i > Len(b) THEN Ok([items |-> acc, minimal |-> minimal])
    ELSE LET r == ReadItem(b, i)
         IN IF ~r.ok THEN Fail
            ELSE DisasmFrom(b, r.v.next, Append(acc, r.v.it), minimal /\ r.v.minimal)

Disasm(b) == LET r == DisasmFrom(b, 1, <<>>, TRUE) IN IF r.ok THEN Ok(r.v.items) ELSE Fail
MinimalPushes(b) == LET r == DisasmFrom(b, 1, <<>>, TRUE) IN r.ok /\ r.v.minimal

(* trace items carry opcode NAMES; unknown / push-opcode names are refused *)
FromNamed(seq) ==
    IF \A i \in 1..Len(seq) : seq[i].k = "data" \/ seq[i].n \in NonPushNames
    THEN Ok([i \in 1..Len(seq) |-> IF seq[i].k = "data" THEN DataI(seq[i].d) ELSE OpI(seq[i].n)])
    ELSE Fail

(* ---------------- witness stacks (BIP141/144) ---------------- *)
AsmWitness(stack) ==
    CsEncNat(Len(stack)) \o Concat([i \in 1..Len(stack) |-> CsEncNat(Len(stack[i])) \o stack[i]])

RECURSIVE WitItems(_, _, _, _)
WitItems(b, pos, k, acc) ==
    IF k = 0 THEN Ok([stack |-> acc, pos |-> pos])
    ELSE LET l == CsDecNatAt(b, pos)
         IN IF ~l.ok THEN Fail
            ELSE IF pos + l.v.n + l.v.v - 1 > Len(b) THEN Fail
            ELSE WitItems(b, pos + l.v.n + l.v.v, k - 1,
                          Append(acc, SubSeq(b, pos + l.v.n, pos + l.v.n + l.v.v - 1)))
DisasmWitnessAt(b, pos) ==
    LET c == CsDecNatAt(b, pos)
    IN IF ~c.ok THEN Fail ELSE WitItems(b, pos + c.v.n, c.v.v, <<>>)
DisasmWitness(b) ==
    LET r == DisasmWitnessAt(b, 1)
    IN IF r.ok THEN Ok([stack |-> r.v.stack, rest |-> Drop(b, r.v.pos - 1)]) ELSE Fail

(* ---------------- standard templates ---------------- *)
DataSeq(ds) == [i \in 1..Len(ds) |-> DataI(ds[i])]
SmallInt(n) == IF n = 0 THEN OpB(0) ELSE OpB(80 + n)          \* OP_0, OP_1..OP_16

P2PKItems(pk)            == <<DataI(pk), OpI("OP_CHECKSIG")>>
P2PKSigItems(sig)        == <<DataI(sig)>>
P2PKHItems(h)            == <<OpI("OP_DUP"), OpI("OP_HASH160"), DataI(h), OpI("OP_EQUALVERIFY"), OpI("OP_CHECKSIG")>>
P2PKHSigItems(sig, pk)   == <<DataI(sig), DataI(pk)>>
P2SHItems(h)             == <<OpI("OP_HASH160"), DataI(h), OpI("OP_EQUAL")>>
P2SHSigItems(pushes, rs) == DataSeq(pushes) \o <<DataI(rs)>>
MultisigItems(m, pks)    == <<SmallInt(m)>> \o DataSeq(pks) \o <<SmallInt(Len(pks)), OpI("OP_CHECKMULTISIG")>>
MultisigSigItems(sigs)   == <<OpI("OP_0")>> \o DataSeq(sigs)
NullDataItems(d)         == <<OpI("OP_RETURN"), DataI(d)>>
WitnessProgramItems(v, p) == <<SmallInt(v), DataI(p)>>

P2PK(pk)              == Asm(P2PKItems(pk))
P2PKSig(sig)          == Asm(P2PKSigItems(sig))
P2PKH(h)              == Asm(P2PKHItems(h))
P2PKHSig(sig, pk)     == Asm(P2PKHSigItems(sig, pk))
P2SH(h)               == Asm(P2SHItems(h))
P2SHSig(pushes, rs)   == Asm(P2SHSigItems(pushes, rs))
Multisig(m, pks)      == Asm(MultisigItems(m, pks))
MultisigSig(sigs)     == Asm(MultisigSigItems(sigs))
NullData(d)           == Asm(NullDataItems(d))
WitnessProgram(v, p)  == Asm(WitnessProgramItems(v, p))
P2WPKH(h)             == WitnessProgram(0, h)
P2WSH(h)              == WitnessProgram(0, h)
RedeemPush(s)         == Asm(<<DataI(s)>>)
P2SHMultisig(m, pks)  == P2SH(Hash160(Multisig(m, pks)))
P2SHMultisigSig(sigs, rs) == Asm(MultisigSigItems(sigs) \o <<DataI(rs)>>)
P2SH_P2WPKH(h)        == P2SH(Hash160(P2WPKH(h)))
P2SH_P2WPKHSig(h)     == RedeemPush(P2WPKH(h))
P2SH_P2WSH(ws)        == P2SH(Hash160(P2WSH(Sha256(ws))))
P2SH_P2WSHSig(ws)     == RedeemPush(P2WSH(Sha256(ws)))
=============================================================================
