\* vacuity guard: with the deviation NoExitCheckOnTimeout enabled TLC MUST report a violation
CONSTANTS NPeers = 1  MaxMsgs = 1  Kinds = {"ping", "inv"}  Faults = TRUE
MaxStops = 1  MaxIbd = 0  DirectKinds = {}  MaxDirect = 0  Devs = {"NoExitCheckOnTimeout"}
SeedSet = {1}  RpcSet = {FALSE}
SPECIFICATION Spec
INVARIANT AfterStopBounded
CHECK_DEADLOCK FALSE
