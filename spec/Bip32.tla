------------------------------- MODULE Bip32 -------------------------------
(***************************************************************************)
(* BIP32 hierarchical deterministic keys (C09), written from the BIP text: *)
(* master key generation, CKDpriv, CKDpub, N (Neuter), key identifiers,    *)
(* the 78-byte serialisation with every invalidity rule of the BIP, and    *)
(* path derivation as a machine (extended key, remaining path) that takes  *)
(* one Step per path component.                                            *)
(*                                                                         *)
(* Numbers go through Num's two modes.  Big = TRUE: secp256k1 size, real   *)
(* HMAC-SHA512 / HASH160 (Native overrides).  Big = FALSE: bounded models  *)
(* on small curves; HmacSha512 / Hash160 are then the toy bodies of        *)
(* Native.tla and the 256-bit number I_L is REDUCED to 0..CN+3 (ILNum), so *)
(* that "I_L >= n", "child key = 0" and "child point = infinity", which    *)
(* have probability < 2^-127 at full size, are ordinary states.            *)
(*                                                                         *)
(* Child numbers are ser32(i): 4-byte big-endian sequences (TLC integers   *)
(* are 32-bit signed).  i is hardened iff its top bit is set.              *)
(***************************************************************************)
EXTENDS Ecdsa, Base58

Zero4       == <<0, 0, 0, 0>>
VerMainPub  == <<4, 136, 178, 30>>      \* 0x0488B21E  xpub
VerMainPrv  == <<4, 136, 173, 228>>     \* 0x0488ADE4  xprv
VerTestPub  == <<4, 53, 135, 207>>      \* 0x043587CF  tpub
VerTestPrv  == <<4, 53, 131, 148>>      \* 0x04358394  tprv
BitcoinSeed == <<66, 105, 116, 99, 111, 105, 110, 32, 115, 101, 101, 100>>   \* "Bitcoin seed"
Nets        == {"main", "test"}

IsIndex(i)  == Len(i) = 4 /\ IsBytes(i)
Hardened(i) == i[1] >= 128
Ser256(k)   == NToBE(k, 32)
SerP(K)     == Sec1Enc(K, TRUE)

(* I = HMAC-SHA512(key, data), split into I_L (as a number) and I_R *)
ILNum(b)    == IF Big THEN NFromBE(b) ELSE ((b[1] * 256) + b[2]) % (CN + 4)
HmacSplit(key, data) == LET I == HmacSha512(key, data) IN [il |-> ILNum(Take(I, 32)), ir |-> Drop(I, 32)]

(* ---- master key generation ---- *)
Master(seed) == LET h == HmacSplit(BitcoinSeed, seed) IN
                IF NIsZero(h.il) \/ ~NLt(h.il, CN) THEN Fail ELSE Ok([k |-> h.il, c |-> h.ir])

(* ---- child key derivation ---- *)
(* K = point(k) is a parameter so that evaluating a path multiplies once per node *)
PrivData(k, K, i) == IF Hardened(i) THEN <<0>> \o Ser256(k) \o i ELSE SerP(K) \o i
PubData(K, i)     == SerP(K) \o i
CKDprivP(k, K, c, i) ==
    LET h  == HmacSplit(c, PrivData(k, K, i))
        ki == NAddMod(h.il, k, CN)
    IN IF ~NLt(h.il, CN) \/ NIsZero(ki) THEN Fail ELSE Ok([k |-> ki, c |-> h.ir])
CKDpriv(k, c, i) == CKDprivP(k, PubOf(k), c, i)

CKDpub(K, c, i) ==
    IF Hardened(i) THEN Fail
    ELSE LET h == HmacSplit(c, PubData(K, i)) IN
         IF ~NLt(h.il, CN) THEN Fail
         ELSE LET Ki == PointAdd(ScalarMul(h.il, G), K) IN
              IF IsInf(Ki) THEN Fail ELSE Ok([K |-> Ki, c |-> h.ir])

Neuter(k, c)   == [K |-> PubOf(k), c |-> c]
Fingerprint(K) == Take(Hash160(SerP(K)), 4)          \* first 32 bits of the key identifier

(* ---- extended keys ---- *)
(* key: a number (prv = TRUE) or a point (prv = FALSE); depth 0..255; fp, idx: 4 bytes; cc: 32 bytes *)
XKey(prv, net, depth, fp, idx, cc, key) ==
    [prv |-> prv, net |-> net, depth |-> depth, fp |-> fp, idx |-> idx, cc |-> cc, key |-> key]
MasterX(seed, net) == LET m == Master(seed) IN
                      IF m.ok THEN Ok(XKey(TRUE, net, 0, Zero4, Zero4, m.v.c, m.v.k)) ELSE Fail
PubKeyOf(x) == IF x.prv THEN PubOf(x.key) ELSE x.key
NeuterX(x)  == IF x.prv THEN [x EXCEPT !.prv = FALSE, !.key = PubOf(x.key)] ELSE x

(* child of an extended key; K = PubKeyOf(x) *)
ChildP(x, K, i) ==
    IF x.depth >= 255 THEN Fail
    ELSE IF x.prv
         THEN LET r == CKDprivP(x.key, K, x.cc, i) IN
              IF r.ok THEN Ok(XKey(TRUE, x.net, x.depth + 1, Fingerprint(K), i, r.v.c, r.v.k)) ELSE Fail
         ELSE LET r == CKDpub(K, x.cc, i) IN
              IF r.ok THEN Ok(XKey(FALSE, x.net, x.depth + 1, Fingerprint(K), i, r.v.c, r.v.K)) ELSE Fail
Child(x, i) == ChildP(x, PubKeyOf(x), i)

(* ---- path machine: state [x : Ok(xkey) | Fail, rest : remaining child numbers] ---- *)
PathInit(x, path) == [x |-> Ok(x), rest |-> path]
PathDone(st)      == st.rest = <<>> \/ ~st.x.ok
PathStep(st)      == [x |-> Child(st.x.v, Head(st.rest)), rest |-> Tail(st.rest)]
RECURSIVE PathRun(_)
PathRun(st)       == IF PathDone(st) THEN st.x ELSE PathRun(PathStep(st))
Derive(x, path)   == PathRun(PathInit(x, path))          \* path derivation = fold of the steps

(* ---- every node along a path below a PRIVATE extended key, multiplying once per node ---- *)
(* x : Ok(xprv) | Fail   K : its public point   q : CKDpub(parent K, parent chain code, i) (Fail at the start) *)
Node(x, q) == [x |-> x, K |-> IF x.ok THEN PubOf(x.v.key) ELSE Inf, q |-> q]
RECURSIVE NodesAcc(_, _)
NodesAcc(acc, path) ==
    IF path = <<>> THEN acc
    ELSE LET par == acc[Len(acc)]
             i   == Head(path)
         IN NodesAcc(Append(acc, IF par.x.ok
                                 THEN Node(ChildP(par.x.v, par.K, i), CKDpub(par.K, par.x.v.cc, i))
                                 ELSE Node(Fail, Fail)),
                     Tail(path))
PathNodes(x0, path) == NodesAcc(<<Node(x0, Fail)>>, path)        \* x0 : Ok(xprv) | Fail; result has Len(path) + 1 nodes
(* the same below a PUBLIC extended key: sequence of Ok(xpub) | Fail *)
RECURSIVE PubAcc(_, _)
PubAcc(acc, path) ==
    IF path = <<>> THEN acc
    ELSE LET par == acc[Len(acc)] IN
         PubAcc(Append(acc, IF par.ok THEN ChildP(par.v, par.v.key, Head(path)) ELSE Fail), Tail(path))
PubPathNodes(xpub, path) == PubAcc(<<Ok(xpub)>>, path)

(* ---- serialisation: 4 version | 1 depth | 4 fingerprint | 4 child number | 32 chain code | 33 key ---- *)
Version(x) == IF x.net = "main" THEN (IF x.prv THEN VerMainPrv ELSE VerMainPub)
                                ELSE (IF x.prv THEN VerTestPrv ELSE VerTestPub)
KeyData(x) == IF x.prv THEN <<0>> \o Ser256(x.key) ELSE SerP(x.key)
SerXKey(x) == Version(x) \o <<x.depth>> \o x.fp \o x.idx \o x.cc \o KeyData(x)

(* which rule of the BIP makes a payload invalid ("ok" = none) *)
DeserReason(b) ==
    IF Len(b) # 78 THEN "wrong-length"
    ELSE LET ver == SubSeq(b, 1, 4)  depth == b[5]  fp == SubSeq(b, 6, 9)  idx == SubSeq(b, 10, 13)
             kd  == SubSeq(b, 46, 78) IN
         IF ver \notin {VerMainPub, VerMainPrv, VerTestPub, VerTestPrv} THEN "unknown-version"
         ELSE IF depth = 0 /\ fp # Zero4 THEN "depth0-nonzero-fingerprint"
         ELSE IF depth = 0 /\ idx # Zero4 THEN "depth0-nonzero-childnum"
         ELSE IF ver \in {VerMainPrv, VerTestPrv} THEN
              IF kd[1] \in {2, 3} THEN "prvkey-version-with-pubkey"
              ELSE IF kd[1] # 0 THEN "bad-prvkey-prefix"
              ELSE LET k == NFromBE(Drop(kd, 1)) IN
                   IF NIsZero(k) THEN "prvkey-zero" ELSE IF ~NLt(k, CN) THEN "prvkey-ge-n" ELSE "ok"
         ELSE IF kd[1] = 0 THEN "pubkey-version-with-prvkey"
              ELSE IF kd[1] \notin {2, 3} THEN "bad-pubkey-prefix"
              ELSE IF ~Sec1Dec(kd).ok THEN "pubkey-not-on-curve" ELSE "ok"
DeserXKey(b) ==
    IF DeserReason(b) # "ok" THEN Fail
    ELSE LET ver == SubSeq(b, 1, 4)  kd == SubSeq(b, 46, 78)
             prv == ver \in {VerMainPrv, VerTestPrv} IN
         Ok(XKey(prv, IF ver \in {VerMainPrv, VerMainPub} THEN "main" ELSE "test", b[5], SubSeq(b, 6, 9),
                 SubSeq(b, 10, 13), SubSeq(b, 14, 45), IF prv THEN NFromBE(Drop(kd, 1)) ELSE Sec1Dec(kd).v))

(* Base58Check strings (sequences of ASCII codes) *)
XKeyStr(x)      == EncCheck(SerXKey(x))
DeserXKeyStr(s) == LET d == DecCheck(s) IN IF d.ok THEN DeserXKey(d.v) ELSE Fail
=============================================================================
