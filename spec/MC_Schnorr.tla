----------------------------- MODULE MC_Schnorr -----------------------------
(***************************************************************************)
(* Stage A for C12 on small curves with b = 7 (Big = FALSE) and - through  *)
(* Emit - the generator of the stage-B case table replayed into the        *)
(* retargeted bits.bips.bip340.sign / verify / pubkey.                     *)
(*   sign    every secret key d in 0..CN+1 x messages x aux values         *)
(*   ver     EVERY (pk_x, r) in (0..CP+1)^2 x messages, all s in 0..CN+1   *)
(*           quantified inside the invariant (accept-set theorem)          *)
(*   count   per public key: exactly one accepted s for every liftable r   *)
(*   len     wrong-length variants of valid triples                        *)
(* Run with native=False the hashes are Native.tla's toy bodies (stage A); *)
(* run with native=True they are real SHA-256 (stage-B table).             *)
(* Dev # "none" replaces the verifier under test by a named deviation; the *)
(* harness requires TLC to find the counterexample (vacuity guard).        *)
(***************************************************************************)
EXTENDS Schnorr, TLC, FiniteSets
CONSTANTS SignMsgs, SignAuxs, VerMsgs, CountPks, LenDs, EmitRows, Dev
VARIABLE c

MsgOf(i) == CASE i = 0 -> <<>>
              [] i = 1 -> <<0>>
              [] i = 2 -> [j \in 1..33 |-> (j * 7) % 256]
              [] i = 3 -> [j \in 1..32 |-> 255]
              [] OTHER -> [j \in 1..(i + 60) |-> (j * i + 11) % 256]
AuxOf(i) == CASE i = 0 -> [j \in 1..32 |-> 0]
              [] i = 1 -> [j \in 1..32 |-> (j * 13 + 5) % 256]
              [] OTHER -> [j \in 1..32 |-> 255]

GMax == (IF CP > CN THEN CP ELSE CN) + 1
SignCases(g)  == [k : {"sign"}, d : {g} \cap (0..(CN + 1)), m : SignMsgs, a : SignAuxs]
VerCases(g)   == [k : {"ver"}, x : {g} \cap (0..(CP + 1)), r : 0..(CP + 1), m : VerMsgs]
CountCases(g) == [k : {"count"}, x : {g} \cap CountPks, m : VerMsgs]
LenCases(g)   == [k : {"len"}, d : {g} \cap LenDs, m : SignMsgs, v : 1..12]
Init == c \in [k : {"group"}, g : 0..GMax]
Next == /\ c.k = "group"
        /\ c' \in SignCases(c.g) \cup VerCases(c.g) \cup CountCases(c.g) \cup LenCases(c.g)

(* --- the verifier the theorems are stated about (the specification unless a deviation is selected) --- *)
VerifyNoLen(pk, m, sig) ==
    LET P == LiftX(NFromBE(pk))
        r == NFromBE(SubSeq(sig, 1, 32))
        s == NFromBE(SubSeq(sig, 33, Len(sig)))
    IN /\ P.ok /\ InField(r) /\ NLt(s, CN)
       /\ LET e == Challenge(r, P.v[1], m)
              R == PointAdd(ScalarMul(s, G), Neg(ScalarMul(e, P.v)))
          IN ~IsInf(R) /\ EvenY(R) /\ R[1] = r
VerifyNoParity(pk, m, sig) ==
    /\ Len(pk) = 32 /\ Len(sig) = 64
    /\ LET P == LiftX(NFromBE(pk))
           r == NFromBE(SubSeq(sig, 1, 32))
           s == NFromBE(SubSeq(sig, 33, 64))
       IN /\ P.ok /\ InField(r) /\ NLt(s, CN)
          /\ LET e == Challenge(r, P.v[1], m)
                 R == PointAdd(ScalarMul(s, G), Neg(ScalarMul(e, P.v)))
             IN ~IsInf(R) /\ R[1] = r
V(pk, m, sig) == CASE Dev = "none"     -> Verify(pk, m, sig)
                   [] Dev = "nolen"    -> VerifyNoLen(pk, m, sig)
                   [] Dev = "noparity" -> VerifyNoParity(pk, m, sig)

(* --- independent characterisation: multiples of G by repeated addition, discrete logs by table lookup --- *)
RECURSIVE Mults(_)
Mults(n) == IF n = 0 THEN <<>>
            ELSE LET t == Mults(n - 1) IN Append(t, PointAdd(IF n = 1 THEN Inf ELSE t[n - 1], G))
MultTab == Mults(CN - 1)                       \* MultTab[d] = G + ... + G (d times); a concrete tuple, computed once
Even(y) == (y % 2) = 0
Liftable(x) == \E d \in 1..(CN - 1) : MultTab[d][1] = x
EvenLog(x)  == CHOOSE d \in 1..(CN - 1) : MultTab[d][1] = x /\ Even(MultTab[d][2])
(* accept <=> pk_x = x(dG) and r = x(kG), both with even ordinate, and s = k + e d (mod n): the accepted   *)
(* set of s for given (pk_x, r, m) is that singleton, or empty when pk_x or r is not an abscissa < p       *)
AltAccepted(x, r, m) ==
    IF x < CP /\ r < CP /\ Liftable(x) /\ Liftable(r)
    THEN {(EvenLog(r) + (Challenge(r, x, m) * EvenLog(x))) % CN}
    ELSE {}
VerifyAlt(x, r, s, m) == s \in AltAccepted(x, r, m)

Sig(r, s)  == Bytes32(r) \o Bytes32(s)
SignRes    == Sign(c.d, MsgOf(c.m), AuxOf(c.a))
(* the nonce k' of default signing, recomputed *)
NonceOf(d, m, aux) ==
    LET P  == MultTab[d]
        dd == IF Even(P[2]) THEN d ELSE CN - d
    IN BytesModN(TaggedHash(TagNonce, XorBytes(Bytes32(dd), TaggedHash(TagAux, aux)) \o Bytes32(P[1]) \o m))

(* Sign refuses exactly the secret keys 0 and >= n (and, on a tiny curve, a zero nonce) *)
SignDomain == c.k = "sign" =>
    (SignRes.ok <=> (c.d \in 1..(CN - 1) /\ NonceOf(c.d, MsgOf(c.m), AuxOf(c.a)) # 0))
SignSound == c.k = "sign" /\ SignRes.ok =>
    LET sg == SignRes.v
        r  == NFromBE(SubSeq(sg, 1, 32))
        s  == NFromBE(SubSeq(sg, 33, 64))
        kp == NonceOf(c.d, MsgOf(c.m), AuxOf(c.a))
    IN /\ Len(sg) = 64
       /\ V(XOnlyPub(c.d), MsgOf(c.m), sg)
       /\ VerifyAlt(MultTab[c.d][1], r, s, MsgOf(c.m))
       /\ r = MultTab[kp][1]                                   \* R = k'G
       /\ XOnlyPub(c.d) = XOnlyPub(CN - c.d)                   \* d and n-d share the x-only key
       /\ XOnlyPub(c.d) = Bytes32(MultTab[c.d][1])
(* accept-set theorem: the set of ALL s in 0..CN+1 accepted for (pk_x, r, m) is the independently characterised one *)
Accepted == {s \in 0..(CN + 1) : V(Bytes32(c.x), MsgOf(c.m), Sig(c.r, s))}
VerifyExact == c.k = "ver" =>
    LET acc == Accepted IN
    /\ acc = AltAccepted(c.x, c.r, MsgOf(c.m))
    /\ (c.x >= CP \/ c.r >= CP => acc = {})
    /\ acc \cap {CN, CN + 1} = {}
    /\ (EmitRows => PrintT(<<"R", "ver", c.x, c.r, c.m, acc>>))
WhyConsistent == c.k = "ver" =>
    \A s \in {0, 1, CN - 1, CN, CN + 1} \cup AltAccepted(c.x, c.r, MsgOf(c.m)) :
        Verify(Bytes32(c.x), MsgOf(c.m), Sig(c.r, s)) = (VerifyWhy(Bytes32(c.x), MsgOf(c.m), Sig(c.r, s)) = "ok")
LiftExact == c.k = "ver" =>
    /\ LiftX(c.x).ok = (c.x < CP /\ Liftable(c.x))
    /\ (LiftX(c.x).ok => LET p == LiftX(c.x).v IN OnCurve(p[1], p[2]) /\ p[1] = c.x /\ Even(p[2]))
(* every public key: over ALL (r, s) the number of accepted signatures = number of abscissas (one s per liftable r) *)
OneSPerR == c.k = "count" =>
    \A r \in 0..(CP + 1) :
        Cardinality({s \in 0..(CN + 1) : V(Bytes32(c.x), MsgOf(c.m), Sig(r, s))})
          = IF c.x < CP /\ r < CP /\ Liftable(c.x) /\ Liftable(r) THEN 1 ELSE 0

(* wrong-length variants of a valid triple *)
LenVariant(pk, sg, v) ==
    CASE v = 1  -> <<(<<0>> \o pk), sg>>                        \* leading zero byte added to pk (33 bytes)
      [] v = 2  -> <<Tail(pk), sg>>                             \* leading byte of pk removed (31 bytes)
      [] v = 3  -> <<(pk \o <<0>>), sg>>
      [] v = 4  -> <<pk, (sg \o <<0>>)>>
      [] v = 5  -> <<pk, (<<0>> \o sg)>>
      [] v = 6  -> <<pk, (SubSeq(sg, 1, 32) \o <<0>> \o SubSeq(sg, 33, 64))>>   \* zero byte in front of s (65 bytes)
      [] v = 7  -> <<pk, (SubSeq(sg, 1, 32) \o SubSeq(sg, 34, 64))>>            \* leading byte of s removed (63 bytes)
      [] v = 8  -> <<pk, Tail(sg)>>
      [] v = 9  -> <<pk, Front(sg)>>
      [] v = 10 -> <<(<<>>), sg>>
      [] v = 11 -> <<pk, (<<>>)>>
      [] v = 12 -> <<pk, SubSeq(sg, 1, 32)>>
LenSig == Sign(c.d, MsgOf(c.m), AuxOf(0))
LenStrict == c.k = "len" /\ LenSig.ok =>
    LET w == LenVariant(XOnlyPub(c.d), LenSig.v, c.v)
    IN /\ V(XOnlyPub(c.d), MsgOf(c.m), LenSig.v)
       /\ ~V(w[1], MsgOf(c.m), w[2])

(* --- stage-B rows --- *)
Row == CASE c.k = "sign"  -> <<"R", "sign", c.d, c.m, c.a, IF SignRes.ok THEN SignRes.v ELSE <<>> >>
         [] c.k = "len"   -> IF LenSig.ok
                             THEN LET w == LenVariant(XOnlyPub(c.d), LenSig.v, c.v) IN <<"R", "len", c.m, w[1], w[2]>>
                             ELSE <<"R", "none">>
         [] c.k = "group" -> IF c.g = 0
                             THEN <<"R", "tab", {<<i, MsgOf(i)>> : i \in SignMsgs \cup VerMsgs}, {<<i, AuxOf(i)>> : i \in SignAuxs}>>
                             ELSE IF c.g \in 1..(CN - 1) THEN <<"R", "pub", c.g, XOnlyPub(c.g)>> ELSE <<"R", "none">>
         [] OTHER -> <<"R", "none">>
Emit == (EmitRows /\ c.k # "ver") => PrintT(Row)
=============================================================================
