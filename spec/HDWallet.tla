------------------------------ MODULE HDWallet ------------------------------
(***************************************************************************)
(* EXTENSION (outside the 20 listed properties): the life cycle of the HD  *)
(* wallet objects of bits.wallet.hd (class HD: __init__, from_mnemonic,    *)
(* get_root_keys, get_xkeys_from_path; functions get_xpub, p2pkh,          *)
(* derive_child) with the BIP43 serialisation (always main-net versions).  *)
(*                                                                         *)
(* A process creates wallets over time.  State:                            *)
(*   wallets  the wallets created so far, in order.  A wallet is what can  *)
(*            be observed of the object: mnemonic sentence, passphrase,    *)
(*            strength, BIP39 seed, master key / chain code, root xprv and *)
(*            xpub (+ src: where its mnemonic came from, bookkeeping)      *)
(*   rng      the entropy source: a script of draws and how many of them   *)
(*            have been handed out (secrets.token_bytes, scripted)         *)
(*   shared   whatever is shared BETWEEN wallets.  The specification has   *)
(*            no such state: shared = NoShared, always                     *)
(*   call/out the last call and what it returned                           *)
(* One action per call the code offers: New, FromMnemonic, RootKeys,       *)
(* XKeysFromPath, XPubOf, P2pkhOf, DeriveChild.  Derivation, serialisation *)
(* and the mnemonic / seed algorithms are those of Bip32.tla and Bip39.tla *)
(* (nothing is re-specified here); this module adds the sentence level of  *)
(* BIP39 (words joined by single spaces) and the wallet objects.           *)
(*                                                                         *)
(* Like Bip32.tla the module has two sizes, selected by Big:               *)
(*   Big = TRUE   secp256k1, SHA-256 / HMAC-SHA512 / PBKDF2 (Native),      *)
(*                11-bit groups, the 2048 English words, ENT 128..256      *)
(*   Big = FALSE  small curve, toy hashes, 5-bit groups, 32 one-letter     *)
(*                words, checksum ENT/4 bits, ENT in {8, 16} bits          *)
(*                (bounded model: MC_HDWallet)                             *)
(*                                                                         *)
(* ClassLevelMnemonic is a NAMED DEVIATION (FALSE = the specification):    *)
(* the mnemonic given to FromMnemonic is remembered at class level; a      *)
(* restored wallet does not own its mnemonic (it reads the class's), and   *)
(* New, finding a remembered mnemonic, reuses it instead of drawing        *)
(* entropy (and never looks at the strength).  Under it the independence   *)
(* properties below are violated (vacuity guard of MC_HDWallet), and the   *)
(* trace specification uses it to name observations it explains.           *)
(***************************************************************************)
EXTENDS Bip32, Bip39, HDWalletWords

CONSTANT ClassLevelMnemonic
VARIABLES wallets, rng, shared, call, out
vars == <<wallets, rng, shared, call, out>>

(* ---------------- BIP39, sentence level ---------------- *)
ToyWord(i)     == <<IF i < 26 THEN 65 + i ELSE 71 + i>>            \* A..Z a..f  (ascending, like the English list)
ListSize       == IF Big THEN 2048 ELSE 32
Word(i)        == IF Big THEN EnglishWords[i + 1] ELSE ToyWord(i)  \* i = 0..ListSize-1
GroupW         == IF Big THEN 11 ELSE 5
CsUnit         == IF Big THEN 32 ELSE 4
ValidStrengths == IF Big THEN RealValidEnt ELSE {8, 16}            \* entropy sizes in bits

Sentence(idx) == IF idx = <<>> THEN <<>>
                 ELSE Word(idx[1]) \o Concat([i \in 1..(Len(idx) - 1) |-> <<32>> \o Word(idx[i + 1])])
RECURSIVE SplitAcc(_, _, _, _)
SplitAcc(s, i, cur, acc) == IF i > Len(s) THEN Append(acc, cur)
                            ELSE IF s[i] = 32 THEN SplitAcc(s, i + 1, <<>>, Append(acc, cur))
                            ELSE SplitAcc(s, i + 1, Append(cur, s[i]), acc)
SplitWords(s) == SplitAcc(s, 1, <<>>, <<>>)                        \* split at every single space
RECURSIVE SeqLess(_, _)
SeqLess(a, b) == IF b = <<>> THEN FALSE ELSE IF a = <<>> THEN TRUE
                 ELSE IF a[1] # b[1] THEN a[1] < b[1] ELSE SeqLess(Tail(a), Tail(b))
RECURSIVE FindWord(_, _, _)
FindWord(w, lo, hi) == IF lo > hi THEN ListSize                     \* binary search: the list is sorted
                       ELSE LET mid == (lo + hi) \div 2 IN
                            IF Word(mid) = w THEN mid
                            ELSE IF SeqLess(Word(mid), w) THEN FindWord(w, mid + 1, hi) ELSE FindWord(w, lo, mid - 1)
WordIndex(w) == FindWord(w, 0, ListSize - 1)                        \* ListSize: not a list word
WordListSorted == \A i \in 0..(ListSize - 2) : SeqLess(Word(i), Word(i + 1))

MnemonicOfEntropy(ent) ==                                           \* bytes -> Ok(sentence) | Fail (invalid size)
    LET r == ToIndicesG(BytesToBits(ent), GroupW, CsUnit, ValidStrengths, RealHB)
    IN IF r.ok THEN Ok(Sentence(r.v)) ELSE Fail
EntropyOfMnemonic(m) ==                                             \* sentence -> Ok(bytes) | Fail (not a valid mnemonic)
    LET ws  == SplitWords(m)
        idx == [i \in 1..Len(ws) |-> WordIndex(ws[i])]
        r   == ToEntropyG(idx, GroupW, CsUnit, ValidStrengths, ListSize, RealHB)
    IN IF r.ok THEN Ok(BitsToBytes(r.v)) ELSE Fail

(* ---------------- strings ---------------- *)
(* (MC_HDWallet replaces the three by the bare payloads: Base58Check is C07's and MC_Bip32's business) *)
KeyStr(x)     == XKeyStr(x)                   \* extended key -> Base58Check text
KeyOf(s)      == DeserXKeyStr(s)              \* text -> Ok(extended key) | Fail
AddrStr(p)    == EncCheck(p)                  \* version byte ++ hash160 -> address text

(* ---------------- wallets ---------------- *)
NoShared == <<>>
RngSrc(d, n) == [kind |-> "rng", draw |-> d, n |-> n, own |-> TRUE]       \* entropy = first n bytes of draw d
GivenSrc(own) == [kind |-> "given", draw |-> 0, n |-> 0, own |-> own]
(* what can be observed of a wallet *)
Obs(w) == [mn |-> w.mn, pass |-> w.pass, strength |-> w.strength, seed |-> w.seed, mk |-> w.mk, mc |-> w.mc,
           xprv |-> w.xprv, xpub |-> w.xpub]

MasterXKey(mk, mc) == XKey(TRUE, "main", 0, Zero4, Zero4, mc, NFromBE(mk))
(* the wallet determined by (mnemonic, passphrase): Fail when the seed has no master key (probability 2^-127) *)
WalletOf(m, p, src) ==
    LET seed == Seed(m, p)
        mx   == MasterX(seed, "main")                 \* BIP43: always the main-net version bytes
        e    == EntropyOfMnemonic(m)
    IN IF ~mx.ok THEN Fail
       ELSE Ok([mn |-> m, pass |-> p, strength |-> IF e.ok THEN 8 * Len(e.v) ELSE 0,     \* 0: not a valid mnemonic, unspecified
                seed |-> seed, mk |-> Ser256(mx.v.key), mc |-> mx.v.cc,
                xprv |-> KeyStr(mx.v), xpub |-> KeyStr(NeuterX(mx.v)), src |-> src])

(* ---------------- BIP43 / BIP44 / SLIP44 constants ---------------- *)
(* m / purpose' / coin_type' / account' / change / address_index; purpose = 44', Bitcoin = coin 0', test nets = coin 1' *)
(* (the library has no path builder: only these constants exist there; account, change, index < 256 in Bip44Path)     *)
Bip44Purpose   == <<128, 0, 0, 44>>
Slip44Bitcoin  == <<128, 0, 0, 0>>
Slip44Testnet  == <<128, 0, 0, 1>>
Bip44Path(coin, account, change, index) == <<Bip44Purpose, coin, <<128, 0, 0, account>>, <<0, 0, 0, change>>, <<0, 0, 0, index>> >>

(* ---------------- calls and results ---------------- *)
BlankCall == [op |-> "none", w |-> 0, p |-> <<>>, s |-> 0, m |-> <<>>, path |-> <<>>, key |-> <<>>, i |-> Zero4]
NewCall(p, s)        == [BlankCall EXCEPT !.op = "new", !.p = p, !.s = s]
FromCall(m, p)       == [BlankCall EXCEPT !.op = "from", !.m = m, !.p = p]
RootCall(w)          == [BlankCall EXCEPT !.op = "root", !.w = w]
XKeysCall(w, path)   == [BlankCall EXCEPT !.op = "xkeys", !.w = w, !.path = path]
XPubCall(key)        == [BlankCall EXCEPT !.op = "xpub", !.key = key]
P2pkhCall(key)       == [BlankCall EXCEPT !.op = "p2pkh", !.key = key]
ChildCall(key, i)    == [BlankCall EXCEPT !.op = "child", !.key = key, !.i = i]
CreateOps == {"new", "from"}
QueryOps  == {"root", "xkeys", "xpub", "p2pkh", "child"}

Result(v)    == [ok |-> TRUE, v |-> v, why |-> "ok"]             \* v: tuple of strings (or <<wallet index>>)
Refused(why) == [ok |-> FALSE, v |-> <<>>, why |-> why]

(* st = [wallets, pos, shared]: the state without the script *)
St(ws, pos, sh) == [wallets |-> ws, pos |-> pos, shared |-> sh]
Same(st, o)     == [st |-> st, out |-> o]

(* -- New(passphrase, strength): fresh entropy of strength bits -> mnemonic -> seed -> master *)
ApplyNew(st, script, c, dev, W(_, _, _)) ==
    IF dev /\ st.shared # NoShared
    THEN (* DEVIATION: the remembered mnemonic is reused: nothing is drawn, the strength is never looked at *)
         LET w == W(st.shared, c.p, GivenSrc(FALSE)) IN
         IF ~w.ok THEN Same(st, Refused("invalid-master"))
         ELSE [st |-> [st EXCEPT !.wallets = Append(@, w.v)], out |-> Result(<<Len(st.wallets) + 1>>)]
    ELSE IF c.s \notin ValidStrengths THEN Same(st, Refused("bad-strength"))
    ELSE IF st.pos >= Len(script) THEN Same(st, Refused("rng-exhausted"))
    ELSE LET n   == c.s \div 8
             ent == Take(script[st.pos + 1], n)
             w   == W(MnemonicOfEntropy(ent).v, c.p, RngSrc(st.pos + 1, n))
             st1 == [st EXCEPT !.pos = @ + 1]                    \* the draw is consumed
         IN IF ~w.ok THEN Same(st1, Refused("invalid-master"))
            ELSE [st |-> [st1 EXCEPT !.wallets = Append(@, w.v)], out |-> Result(<<Len(st.wallets) + 1>>)]

(* -- FromMnemonic(m, passphrase): the wallet of a given sentence (any non-empty text: BIP39 derives a seed from any *)
(*    sentence); nothing is drawn, nothing is remembered outside the new wallet                                      *)
ApplyFrom(st, script, c, dev, W(_, _, _)) ==
    LET w == W(c.m, c.p, GivenSrc(~dev)) IN
    IF ~dev
    THEN IF ~w.ok THEN Same(st, Refused("invalid-master"))
         ELSE [st |-> [st EXCEPT !.wallets = Append(@, w.v)], out |-> Result(<<Len(st.wallets) + 1>>)]
    ELSE (* DEVIATION: remembered at class level; wallets that do not own their mnemonic now show this one *)
         LET seen == [i \in 1..Len(st.wallets) |-> IF st.wallets[i].src.own THEN st.wallets[i]
                                                   ELSE [st.wallets[i] EXCEPT !.mn = c.m]]
             st1  == [st EXCEPT !.shared = c.m, !.wallets = seen]
         IN IF ~w.ok THEN Same(st1, Refused("invalid-master"))
            ELSE [st |-> [st1 EXCEPT !.wallets = Append(@, w.v)], out |-> Result(<<Len(st.wallets) + 1>>)]

(* -- the queries: no state change *)
ApplyRoot(st, c) ==
    IF c.w \notin 1..Len(st.wallets) THEN Refused("no-such-wallet")
    ELSE Result(<<st.wallets[c.w].xprv, st.wallets[c.w].xpub>>)
(* XKeysFromPath(w, path) = BIP32 derivation of the path (child numbers ser32) from w's master key; xpub = N(xprv) *)
PathKeys(x0, path) == LET d == Derive(x0, path) IN
                      IF d.ok THEN Result(<<KeyStr(d.v), KeyStr(NeuterX(d.v))>>) ELSE Refused("invalid-child")
ApplyXKeys(st, c) ==
    IF c.w \notin 1..Len(st.wallets) THEN Refused("no-such-wallet")
    ELSE PathKeys(MasterXKey(st.wallets[c.w].mk, st.wallets[c.w].mc), c.path)
(* get_xpub: the neutered key; the identity on public keys *)
ApplyXPub(c) == LET d == KeyOf(c.key) IN
                IF ~d.ok THEN Refused("invalid-key") ELSE Result(<<KeyStr(NeuterX(d.v))>>)
(* p2pkh(xpub) = Base58Check(0x00 ++ HASH160(compressed public key)) *)
ApplyP2pkh(c) == LET d == KeyOf(c.key) IN
                 IF ~d.ok THEN Refused("invalid-key")
                 ELSE IF d.v.prv THEN Refused("not-an-xpub")
                 ELSE Result(<<AddrStr(<<0>> \o Hash160(SerP(d.v.key)))>>)
(* derive_child: one CKD step, private -> private or public -> public; hardened from public is refused *)
ApplyChild(c) == LET d == KeyOf(c.key) IN
                 IF ~d.ok THEN Refused("invalid-key")
                 ELSE LET ch == Child(d.v, c.i) IN
                      IF ch.ok THEN Result(<<KeyStr(ch.v)>>)
                      ELSE Refused(IF ~d.v.prv /\ Hardened(c.i) THEN "hardened-from-public"
                                   ELSE IF d.v.depth >= 255 THEN "depth-overflow" ELSE "invalid-child")

(* W = the operator that makes the wallet of (mnemonic, passphrase): WalletOf, or a memoised WalletOf (Trace_HDWallet) *)
ApplyW(st, script, c, dev, W(_, _, _)) ==
    CASE c.op = "new"   -> ApplyNew(st, script, c, dev, W)
      [] c.op = "from"  -> ApplyFrom(st, script, c, dev, W)
      [] c.op = "root"  -> Same(st, ApplyRoot(st, c))
      [] c.op = "xkeys" -> Same(st, ApplyXKeys(st, c))
      [] c.op = "xpub"  -> Same(st, ApplyXPub(c))
      [] c.op = "p2pkh" -> Same(st, ApplyP2pkh(c))
      [] c.op = "child" -> Same(st, ApplyChild(c))
Apply(st, script, c, dev) == ApplyW(st, script, c, dev, WalletOf)

(* ---------------- the state machine ---------------- *)
InitWith(script) == /\ wallets = <<>> /\ shared = NoShared /\ call = BlankCall /\ out = Refused("none")
                    /\ rng = [script |-> script, pos |-> 0]       \* script: the draws the entropy source will hand out
Do(c) == LET r == Apply(St(wallets, rng.pos, shared), rng.script, c, ClassLevelMnemonic) IN
         /\ wallets' = r.st.wallets
         /\ shared'  = r.st.shared
         /\ rng'     = [rng EXCEPT !.pos = r.st.pos]
         /\ call'    = c
         /\ out'     = r.out
New(p, s)           == Do(NewCall(p, s))
FromMnemonic(m, p)  == m # <<>> /\ Do(FromCall(m, p))
RootKeys(w)         == w \in 1..Len(wallets) /\ Do(RootCall(w))
XKeysFromPath(w, path) == w \in 1..Len(wallets) /\ Do(XKeysCall(w, path))
XPubOf(key)         == Do(XPubCall(key))
P2pkhOf(key)        == Do(P2pkhCall(key))
DeriveChild(key, i) == IsIndex(i) /\ Do(ChildCall(key, i))

(* ---------------- properties ---------------- *)
(* INDEPENDENCE.  (1) nothing is shared between wallets *)
NoSharedState == shared = NoShared
(* (2) a wallet made by New owns a fresh draw: its mnemonic is the BIP39 mnemonic of the first strength/8 bytes of ITS *)
(*     draw, strength is the size of that entropy, and no two wallets use the same draw                               *)
FreshEntropy == \A i \in 1..Len(wallets) : LET w == wallets[i] IN
    w.src.kind = "rng" =>
        LET ent == Take(rng.script[w.src.draw], w.src.n) IN
        /\ w.src.draw \in 1..rng.pos
        /\ MnemonicOfEntropy(ent) = Ok(w.mn)
        /\ EntropyOfMnemonic(w.mn) = Ok(ent)
        /\ w.strength = 8 * w.src.n /\ w.strength \in ValidStrengths
        /\ \A j \in 1..Len(wallets) : (j # i /\ wallets[j].src.kind = "rng") => wallets[j].src.draw # w.src.draw
(*     in particular right after a successful New - whatever happened before it, a FromMnemonic for instance - the new *)
(*     wallet's mnemonic is the mnemonic of the draw just consumed, of the requested strength                          *)
NewIsFresh == (call.op = "new" /\ out.ok) =>
    LET w == wallets[Len(wallets)] IN
    /\ rng.pos >= 1 /\ w.src.kind = "rng" /\ w.src.draw = rng.pos
    /\ call.s \in ValidStrengths /\ w.strength = call.s
    /\ MnemonicOfEntropy(Take(rng.script[rng.pos], call.s \div 8)) = Ok(w.mn)
    /\ Len(SplitWords(w.mn)) = (call.s + (call.s \div CsUnit)) \div GroupW
(* (3) no call changes a wallet that exists (earlier or later ones alike); wallets are only ever appended *)
Immutable == [][/\ Len(wallets') \in {Len(wallets), Len(wallets) + 1}
                /\ \A i \in 1..Len(wallets) : wallets'[i] = wallets[i]]_vars
(* (4) queries change nothing; creating never draws more than one draw, restoring draws none *)
QueriesPure == [][/\ call'.op \in QueryOps => UNCHANGED <<wallets, rng, shared>>
                  /\ call'.op = "from" => rng' = rng
                  /\ call'.op = "new" => rng'.pos \in {rng.pos, rng.pos + 1}
                  /\ (call'.op = "new" /\ out'.ok) => rng'.pos = rng.pos + 1]_vars
(* every wallet is the wallet of its (mnemonic, passphrase): seed = BIP39 seed, master = BIP32 master of the seed, *)
(* root xprv / xpub = the BIP32 serialisation (main net, depth 0) of the master key and of its neutered form         *)
Consistent == \A i \in 1..Len(wallets) : LET w == wallets[i]  e == WalletOf(w.mn, w.pass, w.src) IN
    /\ e.ok /\ Obs(e.v) = Obs(w)
    /\ w.seed = Seed(w.mn, w.pass) /\ Len(w.seed) = 64
    /\ LET m == Master(w.seed) IN m.ok /\ w.mk = Ser256(m.v.k) /\ w.mc = m.v.c
    /\ KeyOf(w.xprv) = Ok(MasterXKey(w.mk, w.mc))
    /\ KeyOf(w.xpub) = Ok(NeuterX(MasterXKey(w.mk, w.mc)))
    /\ w.src.kind = "given" => (LET e2 == EntropyOfMnemonic(w.mn) IN w.strength = IF e2.ok THEN 8 * Len(e2.v) ELSE 0)
(* restoring: equal (mnemonic, passphrase) give equal wallets *)
Restore == \A i, j \in 1..Len(wallets) :
    (wallets[i].mn = wallets[j].mn /\ wallets[i].pass = wallets[j].pass) => Obs(wallets[i]) = Obs(wallets[j])

(* what the last call returned, stated through Bip32's operators *)
OutCorrect ==
    /\ call.op \in CreateOps /\ out.ok => out.v = <<Len(wallets)>> /\ wallets[Len(wallets)].pass = call.p
    /\ call.op = "from" /\ out.ok => wallets[Len(wallets)].mn = call.m /\ wallets[Len(wallets)].src.kind = "given"
    /\ call.op = "new" => (out.ok => call.s \in ValidStrengths /\ wallets[Len(wallets)].strength = call.s)
                          /\ (call.s \notin ValidStrengths => ~out.ok)
    /\ call.op = "root" => out = Result(<<wallets[call.w].xprv, wallets[call.w].xpub>>)
    /\ call.op = "xkeys" =>
         LET w  == wallets[call.w]
             x0 == MasterXKey(w.mk, w.mc)
             d  == Derive(x0, call.path)
         IN /\ out.ok = d.ok
            /\ out.ok => /\ KeyOf(out.v[1]) = d /\ KeyOf(out.v[2]) = Ok(NeuterX(d.v))
                         /\ KeyOf(out.v[2]).v.key = PubOf(d.v.key)                        \* xpub = N(xprv)
                         /\ d.v.depth = Len(call.path) /\ d.v.prv /\ d.v.net = "main"
                         /\ call.path = <<>> => out.v = <<w.xprv, w.xpub>>
                         /\ call.path # <<>> =>                                            \* the last step is one CKDpriv
                              LET par == Derive(x0, Front(call.path)) IN
                              par.ok /\ LET r == CKDpriv(par.v.key, par.v.cc, Last(call.path)) IN
                                        r.ok /\ d.v.key = r.v.k /\ d.v.cc = r.v.c /\ d.v.idx = Last(call.path)
                                             /\ d.v.fp = Fingerprint(PubOf(par.v.key))
    /\ call.op = "xpub" =>
         LET d == KeyOf(call.key) IN
         /\ out.ok = d.ok
         /\ out.ok => /\ KeyOf(out.v[1]) = Ok(NeuterX(d.v))
                      /\ ~d.v.prv => out.v[1] = call.key                                   \* identity on xpubs
                      /\ d.v.prv => LET n == Neuter(d.v.key, d.v.cc) q == KeyOf(out.v[1]).v IN
                                    q.key = n.K /\ q.cc = n.c /\ ~q.prv /\ q.depth = d.v.depth /\ q.fp = d.v.fp /\ q.idx = d.v.idx
    /\ call.op = "p2pkh" =>
         LET d == KeyOf(call.key) IN
         /\ out.ok = (d.ok /\ ~d.v.prv)
         /\ out.ok => out.v[1] = AddrStr(<<0>> \o Ripemd160(Sha256(Sec1Enc(d.v.key, TRUE))))
    /\ call.op = "child" =>
         LET d == KeyOf(call.key) IN
         /\ ~d.ok => ~out.ok
         /\ d.ok => /\ (~d.v.prv /\ Hardened(call.i)) => ~out.ok                           \* hardened from public: refused
                    /\ d.v.prv => LET r == CKDpriv(d.v.key, d.v.cc, call.i) IN
                                  /\ out.ok = (r.ok /\ d.v.depth < 255)
                                  /\ out.ok => KeyOf(out.v[1]) = Ok(XKey(TRUE, d.v.net, d.v.depth + 1, Fingerprint(PubOf(d.v.key)),
                                                                         call.i, r.v.c, r.v.k))
                    /\ ~d.v.prv => LET r == CKDpub(d.v.key, d.v.cc, call.i) IN
                                   /\ out.ok = (r.ok /\ d.v.depth < 255)
                                   /\ out.ok => KeyOf(out.v[1]) = Ok(XKey(FALSE, d.v.net, d.v.depth + 1, Fingerprint(d.v.key),
                                                                          call.i, r.v.c, r.v.K))
                    (* public and private derivation commute: child(N(x)) = N(child(x)) *)
                    /\ (d.v.prv /\ ~Hardened(call.i)) =>
                          LET viaPub == ApplyChild(ChildCall(KeyStr(NeuterX(d.v)), call.i)) IN
                          /\ viaPub.ok = out.ok
                          /\ out.ok => viaPub.v[1] = KeyStr(NeuterX(KeyOf(out.v[1]).v))
=============================================================================
