---------------------------- MODULE Trace_Bech32 ----------------------------
(***************************************************************************)
(* Stage C for C06: every recorded call of the segwit address functions of *)
(* bits (and every pre-recorded BIP173/BIP350 test vector) is judged by    *)
(* the specification.  Verdict = "ok" or the name of the failing clause.   *)
(*   enc   segwit_addr / to_bitcoin_address(witness_version=...)           *)
(*   str   one byte string through decode_segwit_addr+assert_valid_segwit, *)
(*         is_segwit_addr and is_addr                                      *)
(*   bech  generic Bech32 / Bech32m string validity (vector lists only)    *)
(***************************************************************************)
EXTENDS Bech32, Base58, Json, IOUtils, TLC
Trace == JsonDeserialize(IOEnv.TRACE_FILE)
VARIABLE l

EncVerdict(e) ==
    LET want == SegwitEncode(e.net, e.ver, e.prog) IN
    IF ~want.ok THEN "ok"                         \* the property does not speak about programs BIP141/350 forbid
    ELSE IF ~e.ok THEN "encoder-refuses-valid-program"
    ELSE IF e.r # want.v THEN "encoder-wrong-address"
    ELSE IF Len(e.r) > 90 THEN "address-longer-than-90"
    ELSE "ok"

StrVerdict(e) ==
    LET d == SegwitDecode(e.a) IN
    (* decoder + validity check *)
    IF e.dok /\ ~d.ok THEN "decoder-accepts-invalid"
    ELSE IF ~e.dok /\ d.ok THEN "decoder-rejects-valid"
    ELSE IF d.ok /\ (e.hrp # d.v.hrp \/ e.ver # d.v.ver \/ e.prog # d.v.prog) THEN "decoder-wrong-triple"
    (* is_segwit_addr: total, TRUE exactly on the valid addresses *)
    ELSE IF ~e.sok THEN "classifier-raised"
    ELSE IF e.sr /\ ~d.ok THEN "classifier-accepts-invalid"
    ELSE IF ~e.sr /\ d.ok THEN "classifier-rejects-valid"
    (* is_addr: total; TRUE on valid segwit addresses; FALSE on what is neither segwit nor Base58Check *)
    ELSE IF ~e.aok THEN "is_addr-raised"
    ELSE IF ~e.ar /\ d.ok THEN "is_addr-rejects-valid-segwit"
    ELSE IF e.ar /\ ~d.ok /\ ~IsCheck(e.a) THEN "is_addr-accepts-non-address"
    ELSE "ok"

BechVerdict(e) ==        \* e.m: TRUE = Bech32m;  e.ok: the recorded/published validity
    LET const == IF e.m THEN Bech32mConst ELSE Bech32Const
        other == IF e.m THEN Bech32Const ELSE Bech32mConst
    IN IF BechDecode(e.a, const).ok # e.ok THEN (IF e.ok THEN "bech-accepts-invalid" ELSE "bech-rejects-valid")
       ELSE IF e.ok /\ BechDecode(e.a, other).ok THEN "bech-valid-for-both-constants"
       ELSE "ok"

Verdict(e) ==
    CASE e.op = "enc"  -> EncVerdict(e)
      [] e.op = "str"  -> StrVerdict(e)
      [] e.op = "bech" -> BechVerdict(e)
      [] OTHER -> "unknown-op"

Init == l = 1
Next == /\ l <= Len(Trace)
        /\ PrintT(<<"V", Trace[l].id, Verdict(Trace[l])>>)
        /\ l' = l + 1
=============================================================================
