---------------------------- MODULE Trace_Base58 ----------------------------
(* Stage C: every recorded call of the real codec is judged by the spec.      *)
EXTENDS Base58, Json, IOUtils, TLC
Trace == JsonDeserialize(IOEnv.TRACE_FILE)
VARIABLE l

Verdict(e) ==
    CASE e.op = "enc" ->
           IF ~e.ok THEN "enc-raised"
           ELSE IF e.r # Enc(e.a) THEN "enc-wrong" ELSE "ok"
      [] e.op = "dec" ->
           LET d == Dec(e.a) IN
           IF e.ok # d.ok THEN (IF d.ok THEN "dec-rejects-valid" ELSE "dec-accepts-invalid")
           ELSE IF d.ok /\ e.r # d.v THEN "dec-wrong" ELSE "ok"
      [] e.op = "enccheck" ->
           IF ~e.ok THEN "enccheck-raised"
           ELSE IF e.r # EncCheck(e.a) THEN "enccheck-wrong" ELSE "ok"
      [] e.op = "deccheck" ->
           LET d == DecCheck(e.a) IN
           IF e.ok # d.ok THEN (IF d.ok THEN "deccheck-rejects-valid" ELSE "deccheck-accepts-invalid")
           ELSE IF d.ok /\ e.r # d.v THEN "deccheck-wrong" ELSE "ok"
      [] e.op = "ischeck" ->
           IF ~e.ok THEN "classifier-raised"
           ELSE IF e.r # IsCheck(e.a) THEN "classifier-wrong" ELSE "ok"
      [] OTHER -> "unknown-op"

Init == l = 1
Next == /\ l <= Len(Trace)
        /\ PrintT(<<"V", Trace[l].id, Verdict(Trace[l])>>)
        /\ l' = l + 1
=============================================================================
