--------------------------- MODULE Trace_NodeLife ---------------------------
(***************************************************************************)
(* Stage C of the NodeLife extension: executions of the real bits.p2p.Node *)
(* (start / connect_peer / recv_loop threads / ibd / handle_command /      *)
(* stop, XML-RPC thread) under the controlled scheduler, one JSON record   *)
(* per execution:                                                          *)
(*   [id, conf : [seeds, rpc, pv, services, relay], ev : Seq(event),       *)
(*    final : [queue, sent, closes, exitreq, pcs, rpc, disk, nconn]]       *)
(* Every event must be the NodeLife action it claims to be (Explains); the *)
(* content of what the code wrote (hello fields, getblocks locator, the    *)
(* genesis record, the getdata built from a 500-entry inv) is judged by    *)
(* the operators below.  A deviation of the code that the specification    *)
(* names (ThreadEndsWithoutClose) or a call that raises / returns early is *)
(* noted as the verdict and the rest of the execution is still followed.   *)
(* One verdict per execution: the sequence of failing clauses (<<>> = ok).  *)
(***************************************************************************)
EXTENDS NodeLife, Prim, Json, IOUtils, TLC
Execs == JsonDeserialize(IOEnv.TRACE_FILE)

VARIABLES t,        \* execution being validated
          l,        \* next event (0 = not started)
          verdict   \* the failing clauses so far (each once, in order of appearance)
tvars == <<vars, t, l, verdict>>

X  == Execs[t]
Ev == X.ev[l]
Note(v, clause) == IF \E i \in 1..Len(v) : v[i] = clause THEN v ELSE Append(v, clause)

(* hash of the mainnet genesis block header, in the byte order used on the wire
   (displayed: 000000000019d6689c085ae165831e934ff763ae46a2a6c172b3f1b60a8ce26f) *)
GenesisHash == <<111, 226, 140, 10, 182, 241, 179, 114, 193, 166, 162, 70, 174, 99, 247, 79,
                 147, 30, 131, 101, 225, 90, 8, 156, 104, 214, 25, 0, 0, 0, 0, 0>>
GenesisLen  == 285

(* ---- content of what the code wrote ---- *)
(* our version message: the node's protocol version / services / relay flag, the port we connected to, the local
   port of the socket, start height 0; well-formed, on the current network *)
HelloNote(e) ==
    LET h == e.h IN
    IF ~(h.wf /\ h.magic) THEN "hello-malformed"
    ELSE IF h.pv # X.conf.pv \/ h.services # X.conf.services \/ h.relay # X.conf.relay THEN "hello-not-the-nodes-parameters"
    ELSE IF h.rport # e.port \/ h.tport # e.lport THEN "hello-wrong-ports"
    ELSE IF h.height # 0 THEN "hello-wrong-start-height"
    ELSE ""
(* ibd: write_blocks_to_disk is given the one genesis block and the node's datadir; afterwards the datadir holds
   exactly one record, the genesis block; the getblocks message carries the node's protocol version, one locator
   hash = the genesis hash, and the zero stop hash *)
WriteNote(e) ==
    IF e.nblocks # 1 \/ ~e.dirok \/ ~e.recok \/ e.blen # GenesisLen \/ Hash256(e.hdr) # GenesisHash THEN "ibd-genesis-record-wrong"
    ELSE IF e.nrec # 1 THEN "ibd-genesis-record-not-exactly-once"
    ELSE ""
IbdNote(e) ==
    LET g == e.gb IN
    IF ~g.wf \/ g.count # 1 \/ g.loc # GenesisHash \/ ~g.stop0 THEN "getblocks-locator-wrong"
    ELSE IF g.pv # X.conf.pv THEN "getblocks-protocol-version-not-the-nodes"
    ELSE ""
(* getdata for a 500-entry inv: the first 128 entries, verbatim (4-byte type + 32-byte hash each) *)
GetdataFor(inv) == <<128>> \o SubSeq(inv, 4, 3 + 128 * 36)
DirectNote(e) ==
    LET want == DirectReply(marg[2])[1] IN
    IF <<e.m[1], e.m[2]>> # want THEN "direct-reply-wrong-" \o marg[2]
    ELSE IF marg[2] = "inv500" /\ e.gd.payload # GetdataFor(e.gd.inv) THEN "getdata-payload-wrong"
    ELSE ""

(* ---- silent steps: a handler without observable effect (verack) ---- *)
SilentEnabled(p) == pc[p] = "handle" /\ Reply(Cur(p)) = <<>>
NoSilent == \A p \in Peers : ~SilentEnabled(p)
Silent == /\ l > 0 /\ l <= Len(X.ev) + 1
          /\ \E p \in Peers : SilentEnabled(p) /\ Handle(p)
          /\ UNCHANGED <<t, l, verdict>>

Begin == /\ t <= Len(Execs) /\ l = 0
         /\ conf' = [seeds |-> X.conf.seeds, rpc |-> X.conf.rpc]
         /\ node' = "created" /\ mcall' = "none" /\ mph' = "idle" /\ mk' = 0 /\ marg' = <<>> /\ nconn' = 0
         /\ pc' = [p \in Peers |-> "none"]
         /\ exitreq' = [p \in Peers |-> FALSE]
         /\ rcvd' = [p \in Peers |-> <<>>]
         /\ queue' = <<>>
         /\ sent' = [p \in Peers |-> <<>>]
         /\ closes' = [p \in Peers |-> 0]
         /\ after' = [p \in Peers |-> 0]
         /\ rpc' = "off" /\ rpcreq' = FALSE /\ disk' = 0
         /\ nstops' = 0 /\ nibd' = 0 /\ ndirect' = 0
         /\ l' = 1 /\ verdict' = <<>> /\ t' = t

(* ---- actions only the trace specification has: they keep a deviating execution explainable ---- *)
(* a call that raised or returned before its work was done *)
ForceReturn == /\ ~Idle
               /\ node' = NodeAfter(mcall)
               /\ mcall' = "none" /\ mph' = "idle" /\ mk' = 0 /\ marg' = <<>>
               /\ UNCHANGED <<conf, nconn, peerv, rpc, rpcreq, disk, countv>>
(* a receive thread that died somewhere else than at the end of its connection *)
Crash(p) == /\ Running(p)
            /\ pc' = [pc EXCEPT ![p] = "dead"]
            /\ UNCHANGED <<PeerFrame, exitreq, rcvd, queue, sent, closes, after>>

(* which action explains event e, or "none" *)
OfPeer(e) == e.p \in Peers
M2(e) == <<e.m[1], e.m[2]>>
M3(e) == <<e.m[1], e.m[2], e.m[3]>>
Explains(e) ==
    CASE e.op = "call" ->
            IF ~Idle THEN "none"
            ELSE CASE e.f = "start"   -> IF node = "created" THEN "Start" ELSE "none"
                   [] e.f = "connect" -> IF node = "started" /\ nconn < NPeers THEN "CallConnect" ELSE "none"
                   [] e.f = "ibd"     -> IF node = "started" /\ nconn >= 1 /\ nibd < MaxIbd THEN "CallIbd" ELSE "none"
                   [] e.f = "direct"  -> IF node = "started" /\ e.p \in Peers /\ e.p < nconn /\ e.k \in DirectKinds /\ ndirect < MaxDirect
                                         THEN "CallDirect" ELSE "none"
                   [] e.f = "stop"    -> IF node \in {"created", "started", "stopped"} /\ nstops < MaxStops THEN "Stop" ELSE "none"
                   [] OTHER -> "none"
      [] e.op = "ret" -> IF mcall # e.f THEN "none" ELSE IF CanReturn THEN "Return" ELSE "ForceReturn"
      [] e.op = "connect" ->
            IF mcall \in {"start", "connect"} /\ mph = "next" /\ nconn < ConnLimit /\ (mcall = "connect" => mk = 0)
               /\ e.sk = nconn THEN "Connect" ELSE "none"
      [] e.op = "send" /\ e.by = "main" ->
            IF mcall \in {"start", "connect"} /\ mph = "hello" /\ e.to = nconn - 1 /\ e.no = e.to /\ M2(e) = Hello THEN "HelloSent"
            ELSE IF mcall = "ibd" /\ (mph = "wrote" \/ (mph = "next" /\ disk = 1)) /\ e.to = 0 /\ e.m[1] = "getblocks" THEN "IbdSend"
            ELSE IF mcall = "direct" /\ mph = "next" /\ DirectReply(marg[2]) # <<>> /\ e.to = marg[1]
                    /\ e.m[1] = DirectReply(marg[2])[1][1] THEN "DirectSend"
            ELSE "none"
      [] e.op = "send" /\ e.by = "peer" ->
            IF OfPeer(e) /\ pc[e.p] = "handle" /\ e.to = e.p /\ Reply(Cur(e.p)) = <<M2(e)>> THEN "Handle" ELSE "none"
      [] e.op = "write" -> IF mcall = "ibd" /\ mph = "next" THEN "IbdWrite" ELSE "none"
      [] e.op = "tstart" ->
            IF mcall \in {"start", "connect"} /\ mph = "thread" /\ e.p = nconn - 1 THEN "ThreadStart" ELSE "none"
      [] e.op = "rpc-launch" -> IF mcall = "start" /\ mph = "next" /\ nconn = conf.seeds /\ conf.rpc /\ rpc = "off" THEN "RpcLaunch" ELSE "none"
      [] e.op = "rpc-create" -> IF rpc = "starting" THEN "RpcCreate" ELSE "none"
      [] e.op = "rpc-serve"  -> IF rpc = "ready" THEN "RpcServe" ELSE "none"
      [] e.op = "rpc-down"   -> IF rpc = "serving" /\ rpcreq THEN "RpcDown" ELSE "none"
      [] e.op = "shutdown"   -> IF Signalled /\ conf.rpc /\ rpc # "off" THEN "RpcShutdown" ELSE "none"
      [] e.op = "joined"     -> IF mcall = "stop" /\ mph = "join" /\ rpc = "down" THEN "RpcJoin" ELSE "none"
      [] e.op = "signal" -> IF mcall = "stop" /\ mph = "next" /\ e.p = mk /\ mk < nconn THEN "Signal" ELSE "none"
      [] e.op = "check" ->
            IF OfPeer(e) /\ pc[e.p] = "loop" /\ e.flag = exitreq[e.p] THEN (IF e.flag THEN "ObserveExit" ELSE "Proceed") ELSE "none"
      [] e.op = "recv" ->
            IF OfPeer(e) /\ pc[e.p] = "recv" /\ e.sk = e.p /\ Len(rcvd[e.p]) < MaxMsgs /\ e.k \in Kinds
               /\ e.n = Tag(e.p, Len(rcvd[e.p]) + 1, e.k) THEN "Recv" ELSE "none"
      [] e.op = "timeout" -> IF OfPeer(e) /\ pc[e.p] = "recv" /\ e.sk = e.p THEN "Timeout" ELSE "none"
      [] e.op = "fault"   -> IF OfPeer(e) /\ pc[e.p] = "recv" /\ e.sk = e.p THEN "Fault" ELSE "none"
      [] e.op = "append" ->
            IF OfPeer(e) /\ pc[e.p] = "enq" /\ M3(e) = <<e.p, Cur(e.p).k, Cur(e.p).n>> THEN "Enqueue" ELSE "none"
      [] e.op = "close" ->
            IF OfPeer(e) /\ pc[e.p] = "exiting" /\ closes[e.p] = 0 /\ e.sk = e.p THEN "Close" ELSE "none"
      [] e.op = "crash" ->
            IF ~OfPeer(e) THEN "none"
            ELSE IF pc[e.p] = "exiting" /\ closes[e.p] = 0 THEN "ThreadEndsWithoutClose"
            ELSE IF Running(e.p) THEN "Crash" ELSE "none"
      [] OTHER -> "none"

Act(name, e) ==
    CASE name = "Start" -> Start [] name = "CallConnect" -> CallConnect [] name = "CallIbd" -> CallIbd
      [] name = "CallDirect" -> CallDirect(e.p, e.k) [] name = "Stop" -> Stop
      [] name = "Return" -> Return [] name = "ForceReturn" -> ForceReturn
      [] name = "Connect" -> Connect(e.sk) [] name = "HelloSent" -> HelloSent(e.to) [] name = "ThreadStart" -> ThreadStart(e.p)
      [] name = "IbdWrite" -> IbdWrite [] name = "IbdSend" -> IbdSend [] name = "DirectSend" -> DirectSend
      [] name = "RpcLaunch" -> RpcLaunch [] name = "RpcCreate" -> RpcCreate [] name = "RpcServe" -> RpcServe
      [] name = "RpcDown" -> RpcDown [] name = "RpcShutdown" -> RpcShutdown [] name = "RpcJoin" -> RpcJoin
      [] name = "Signal" -> Signal(e.p)
      [] name = "Proceed" -> Proceed(e.p) [] name = "ObserveExit" -> ObserveExit(e.p)
      [] name = "Recv" -> Recv(e.p, e.k) [] name = "Timeout" -> Timeout(e.p) [] name = "Fault" -> Fault(e.p)
      [] name = "Handle" -> Handle(e.p) [] name = "Enqueue" -> Enqueue(e.p) [] name = "Close" -> Close(e.p)
      [] name = "ThreadEndsWithoutClose" -> ThreadEndsWithoutClose(e.p) [] name = "Crash" -> Crash(e.p)

(* the clause an explained step fails, "" if none (evaluated in the state BEFORE the step) *)
StepNote(name, e) ==
    CASE name = "HelloSent"   -> HelloNote(e)
      [] name = "ThreadStart" -> IF ~e.tmo THEN "receive-thread-started-on-socket-without-timeout" ELSE ""    \* (liveness rests on it)
      [] name = "IbdWrite"    -> WriteNote(e)
      [] name = "IbdSend"     -> IbdNote(e)
      [] name = "DirectSend"  -> DirectNote(e)
      [] name = "Return"      -> IF e.err # "" THEN e.f \o "-raised" ELSE ""
      [] name = "ForceReturn" -> IF e.err # "" THEN e.f \o "-raised-before-its-work-was-done" ELSE e.f \o "-returned-before-its-work-was-done"
      [] name = "ThreadEndsWithoutClose" -> "thread-ends-without-closing-socket"
      [] name = "Crash"       -> "thread-crashed-while-" \o pc[e.p]
      [] name = "Enqueue"     -> IF e.ql # Len(queue) + 1 THEN "queue-length-diverges" ELSE ""
      [] OTHER -> ""

Step == /\ l > 0 /\ l <= Len(X.ev) /\ NoSilent
        /\ LET name == Explains(Ev) IN
           IF name # "none"
           THEN /\ Act(name, Ev)
                /\ l' = l + 1 /\ t' = t
                /\ verdict' = LET n == StepNote(name, Ev) IN IF n = "" THEN verdict ELSE Note(verdict, n)
           ELSE (* an event no action explains: note it, stop matching *)
                /\ l' = Len(X.ev) + 2 /\ t' = t
                /\ verdict' = Note(verdict, "unexplained-step-" \o Ev.op)
                /\ UNCHANGED vars

(* the observed final state against the specification's *)
PcVis(p) == pc[p]
FinalVerdict(v, explained) ==
    LET f == X.final
        q == [i \in 1..Len(f.queue) |-> <<f.queue[i][1], f.queue[i][2], f.queue[i][3]>>]
        s == [p \in Peers |-> [i \in 1..Len(f.sent[p + 1]) |-> <<f.sent[p + 1][i][1], f.sent[p + 1][i][2]>>]]
        one(c) == <<c>>
    IN  IF v # <<>> THEN v
        ELSE one(
        IF ~explained THEN "unexplained-step"
        ELSE IF q # queue THEN "final-queue-diverges-from-spec"
        ELSE IF s # sent THEN "final-sent-diverges-from-spec"
        ELSE IF \E p \in Peers : f.closes[p + 1] # closes[p] THEN "final-closes-diverge-from-spec"
        ELSE IF \E p \in Peers : f.exitreq[p + 1] # exitreq[p] THEN "final-exit-flags-diverge-from-spec"
        ELSE IF \E p \in Peers : f.pcs[p + 1] # PcVis(p) THEN "final-thread-states-diverge-from-spec"
        ELSE IF f.rpc # rpc \/ f.disk # disk \/ f.nconn # nconn THEN "final-node-state-diverges-from-spec"
        ELSE IF ~(CloseOnce /\ Accounted /\ HelloFirst /\ AfterStopBounded /\ IbdOnce) THEN "invariant-broken-at-end"
        ELSE IF nstops > 0 /\ Idle /\ ~AllTerminated THEN "stop-leaves-thread-running"
        ELSE IF nstops > 0 /\ Idle /\ rpc \notin {"off", "down"} THEN "stop-leaves-rpc-serving"
        ELSE "ok")

Finish1 == /\ l = Len(X.ev) + 1 /\ NoSilent      \* all events explained
           /\ PrintT(<<"V", X.id, FinalVerdict(verdict, TRUE)>>)
           /\ t' = t + 1 /\ l' = 0 /\ verdict' = <<>> /\ UNCHANGED vars
Finish2 == /\ l = Len(X.ev) + 2                 \* gave up matching
           /\ PrintT(<<"V", X.id, FinalVerdict(verdict, FALSE)>>)
           /\ t' = t + 1 /\ l' = 0 /\ verdict' = <<>> /\ UNCHANGED vars

TInit == /\ t = 1 /\ l = 0 /\ verdict = <<>>
         /\ conf = <<>> /\ node = "" /\ mcall = "" /\ mph = "" /\ mk = 0 /\ marg = <<>> /\ nconn = 0
         /\ pc = <<>> /\ exitreq = <<>> /\ rcvd = <<>> /\ queue = <<>> /\ sent = <<>> /\ closes = <<>> /\ after = <<>>
         /\ rpc = "" /\ rpcreq = FALSE /\ disk = 0 /\ nstops = 0 /\ nibd = 0 /\ ndirect = 0
TNext == /\ t <= Len(Execs)
         /\ (Begin \/ Silent \/ Step \/ Finish1 \/ Finish2)
=============================================================================
