------------------------------ MODULE MC_Merkle ------------------------------
(* Stage A (C15): the level-reduction machine with a FREE-TERM combiner          *)
(* H(a,b) = <<a,b>> on leaves <<1>>..<<N>>, every N in 1..MaxN.  Equality of    *)
(* roots is equality of tree shapes, so the invariants say: every row of the    *)
(* machine is the row of the textbook definition, the final node is MerkleRec,  *)
(* and the operator form Reduce (used on traces) agrees.  Promote = TRUE        *)
(* enables the named deviation (self-test: TLC must find the counterexample).   *)
EXTENDS Naturals, Sequences
CONSTANTS MaxN, Promote
VARIABLES row, lvl, n
FreeH(a, b) == <<a, b>>
M == INSTANCE Merkle WITH H <- FreeH
Leaves(k) == [i \in 1..k |-> <<i>>]

Init == n \in 1..MaxN /\ row = Leaves(n) /\ lvl = 0
LevelEven      == M!LevelEven /\ UNCHANGED n
LevelOddLeaves == M!LevelOddLeaves /\ UNCHANGED n
LevelOddAbove  == ~Promote /\ M!LevelOddAbove /\ UNCHANGED n
LevelOddAbovePromote == Promote /\ M!LevelOddAbovePromote /\ UNCHANGED n
Done           == M!Done /\ UNCHANGED n
Next == LevelEven \/ LevelOddLeaves \/ LevelOddAbove \/ LevelOddAbovePromote \/ Done
Spec == Init /\ [][Next]_<<row, lvl, n>> /\ WF_<<row, lvl, n>>(LevelEven \/ LevelOddLeaves \/ LevelOddAbove \/ LevelOddAbovePromote)

RowIsRec     == row = M!RowRec(Leaves(n), lvl)
RootIsRec    == Len(row) = 1 => (row[1] = M!MerkleRec(Leaves(n)) /\ lvl = M!Height(n))
ReduceIsRec  == lvl = 0 => M!Reduce(Leaves(n)) = M!MerkleRec(Leaves(n))
NeverEmpty   == Len(row) >= 1
Terminates   == <>(Len(row) = 1)
=============================================================================
