---------------------------- MODULE Gen_P2PCodec ----------------------------
(* Stage B for C17 (codecs): TLC evaluates Build at the REAL hash length over the  *)
(* boundary cases of MC_P2PCodec plus version values the real builder can express *)
(* and writes rows [k, v, b]; the harness replays every row into bits.p2p: the    *)
(* real builder (where it can express v) must produce b, the real parser fed b    *)
(* must return v.                                                                 *)
EXTENDS MC_P2PCodec, Json, IOUtils, TLC, SequencesExt
BitsUa == <<47, 98, 105, 116, 115, 58, 48, 46, 49, 46, 48, 47>>                         \* "/bits:0.1.0/"
LocalIp == <<58, 58, 102, 102, 102, 102, 58, 49, 50, 55, 46, 48, 46, 48, 46, 49>>      \* "::ffff:127.0.0.1"
RealLike ==
    {[k |-> "version",
      v |-> [pv |-> pv, services |-> sv, timestamp |-> ts, recv_services |-> <<0,0,0,0,0,0,0,0>>, recv_ip |-> LocalIp, recv_port |-> pt,
             trans_services |-> sv, trans_ip |-> LocalIp, trans_port |-> 65535 - pt, nonce |-> <<0,0,0,0,0,0,0,0>>, ua |-> ua,
             start_height |-> sh, relay |-> rl]] :
        pv \in {<<127,17,1,0>>, <<255,255,255,255>>}, sv \in {<<1,0,0,0,0,0,0,0>>, <<9,4,0,0,0,0,0,128>>},
        ts \in {<<0,0,0,0,0,0,0,0>>, <<0,94,208,178,0,0,0,0>>}, pt \in {0, 8333, 65535},
        ua \in {BitsUa, <<>>}, sh \in {<<0,0,0,0>>, <<255,255,255,255>>}, rl \in BOOLEAN}
Rows == SetToSeq({[k |-> x.k, v |-> x.v, b |-> Build(x.k, x.v)] : x \in Cases \cup RealLike})
ASSUME JsonSerialize(IOEnv.OUT_FILE, Rows)
ASSUME PrintT(<<"ROWS", Len(Rows)>>)
=============================================================================
