CONSTANTS Big = FALSE CP = 43 CB = 7 CN = 31 CGx = 2 CGy = 12
WitVers = {}
WitLens = {}
B58Vers = {1,128}
EmitRows = FALSE
Deviation = "anyver"
INIT Init
NEXT Next
INVARIANT VersionByteDecides
CHECK_DEADLOCK FALSE
