CONSTANTS InB = 4  OutB = 3  MaxIn = 6  MaxOut = 7
INIT Init
NEXT Next
INVARIANT RoundTripIn
INVARIANT RoundTripOut
INVARIANT DigitsInRange
INVARIANT AcceptExactlyImage
CHECK_DEADLOCK FALSE
