CONSTANTS Big = FALSE CP = 79 CB = 6 CN = 67 CGx = 5 CGy = 17
Ds = {}
Zs = {}
VerifyDs = {1}
VerifyZs = {0,1,67}
DerVals = {}
EmitRows = TRUE
INIT Init
NEXT Next
INVARIANT VerifyExact
INVARIANT OffCurveRejected
INVARIANT Emit
CHECK_DEADLOCK FALSE
