------------------------------ MODULE MC_Ecdsa ------------------------------
(* Stage A for C01/C02 on small curves (Big = FALSE), and - through Emit -   *)
(* the generator of the stage-B case table replayed into the retargeted     *)
(* bits.ecmath.sign / verify and bits.utils.der_encode_sig/der_decode_sig.  *)
EXTENDS Ecdsa, TLC, FiniteSets
CONSTANTS Ds, Zs, VerifyDs, VerifyZs, DerVals, EmitRows
OffCurve == {q \in {<<1, 1>>, <<0, 0>>, <<2, 3>>, <<CP - 1, CP - 1>>, <<5, 0>>, <<3, 7>>} : ~OnCurve(q[1], q[2])}
VARIABLE c
K2(k) == ((k * 7) + 3) % CN
(* Cases are generated as successors of CN+2 "group" states so that TLC's workers evaluate them in parallel *)
SignCases(g)   == [k : {"sign"}, d : Ds, z : Zs, k1 : {g} \cap (0..(CN - 1))]
VerifyCases(g) == [k : {"verify"}, d : VerifyDs, z : VerifyZs, r : {g}, s : 0..(CN + 1)]
OffCases    == [k : {"off"}, q : OffCurve \cup {Inf}, z : {1}, r : 1..3, s : 1..3]
DerCases    == [k : {"der"}, r : DerVals, s : DerVals]
Init == c \in [k : {"group"}, g : 0..(CN + 1)]
Next == /\ c.k = "group"
        /\ c' \in SignCases(c.g) \cup VerifyCases(c.g) \cup (IF c.g = 0 THEN OffCases \cup DerCases ELSE {})

Draws(k1) == <<k1, K2(k1), 3, 2>>
SignRes == Sign(c.d, c.z, Draws(c.k1))
(* why a draw was rejected *)
Rejected(d, z, k) == ~SigOfDraw(d, z, k).ok
SignSound == c.k = "sign" /\ SignRes.ok =>
    LET v == SignRes.v  ku == Draws(c.k1)[v.used] IN
    /\ v.r \in 1..(CN - 1) /\ v.s \in 1..(CN \div 2)
    /\ Verify(v.r, v.s, PubOf(c.d), c.z) /\ Verify(v.r, v.s, PubOf(c.d), c.z % CN)
    /\ VerifyAlt(v.r, v.s, c.d, c.z)
    /\ v.r = ScalarMul(ku, G)[1] % CN                       \* the nonce is the accepted draw
    /\ \A j \in 1..(v.used - 1) : Rejected(c.d, c.z, Draws(c.k1)[j])
(* a draw is rejected only for k = 0, r = 0 or s = 0; otherwise the FIRST draw is used *)
SignUsesFirstGoodDraw == c.k = "sign" =>
    (~Rejected(c.d, c.z, c.k1) => SignRes.ok /\ SignRes.v.used = 1)
VerifyExact == c.k = "verify" =>
    /\ Verify(c.r, c.s, PubOf(c.d), c.z) = VerifyAlt(c.r, c.s, c.d, c.z)
    /\ (c.s \in 1..(CN - 1) => Verify(c.r, c.s, PubOf(c.d), c.z) = Verify(c.r, CN - c.s, PubOf(c.d), c.z))
    /\ (c.r \notin 1..(CN - 1) \/ c.s \notin 1..(CN - 1) => ~Verify(c.r, c.s, PubOf(c.d), c.z))
OffCurveRejected == c.k = "off" => ~Verify(c.r, c.s, c.q, c.z)
DerRoundTrip == c.k = "der" =>
    /\ IsStrictDER(DerEnc(c.r, c.s))
    /\ DerDec(DerEnc(c.r, c.s)) = Ok(<<c.r, c.s>>)

Row == CASE c.k = "sign"   -> <<"R", "sign", c.d, c.z, Draws(c.k1), IF SignRes.ok THEN <<SignRes.v.r, SignRes.v.s, SignRes.v.used>> ELSE <<>> >>
         [] c.k = "verify" -> <<"R", "verify", c.r, c.s, PubOf(c.d), c.z, Verify(c.r, c.s, PubOf(c.d), c.z)>>
         [] c.k = "off"    -> <<"R", "verify", c.r, c.s, c.q, c.z, FALSE>>
         [] c.k = "der"    -> <<"R", "der", c.r, c.s, DerEnc(c.r, c.s)>>
Emit == (EmitRows /\ c.k # "group") => PrintT(Row)
=============================================================================
