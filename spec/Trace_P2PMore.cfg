CONSTANTS HashLen = 32  HdrLen = 80
INIT Init
NEXT Next
CHECK_DEADLOCK FALSE
