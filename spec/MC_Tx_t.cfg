CONSTANTS Scripts <- ScriptsT  Seqs <- SeqsQ  Stacks <- StacksT  OutChoices <- OutsT  MaxIn = 2  MaxOut = 1
TrailKinds = {"none", "zero", "one", "last", "copy", "prefix", "zeros"}  Deviation = "none"
INIT Init
NEXT Next
INVARIANT CasesWellFormed
INVARIANT ParseNeverFails
INVARIANT FieldsRoundTrip
INVARIANT LeftoverExact
INVARIANT ReserialiseIdentity
INVARIANT CursorInBounds
INVARIANT OperatorAgrees
INVARIANT TruncationRefused
INVARIANT MarkerFlagIffWitness
INVARIANT TxidIsHashOfNoWitnessForm
INVARIANT WtxidIsHashOfFullForm
INVARIANT NonWitnessIdsEqual
INVARIANT RawIsConsumedBytes
INVARIANT IdsIgnoreTrailing
CHECK_DEADLOCK FALSE
