------------------------------- MODULE Spend -------------------------------
(***************************************************************************)
(* Template-level consensus validity of one transaction input (C16): does  *)
(* the unlocking data (scriptSig and/or witness stack) satisfy the locking *)
(* script of the output it spends, under Bitcoin's signature-hash and      *)
(* script rules?  Covers P2PK, P2PKH, bare multisig, P2SH(multisig),       *)
(* P2WPKH, P2WSH(multisig | pk CHECKSIG), P2SH-P2WPKH, P2SH-P2WSH.         *)
(* Not a general interpreter; policy-only rules are not part of it.        *)
(***************************************************************************)
EXTENDS Sighash, Ecdsa

IsData(it) == it.k = "data"
IsOp(it, name) == it.k = "op" /\ it.b = OpByte[name]
SmallIntOf(it) == IF it.k = "op" /\ it.b = 0 THEN 0
                  ELSE IF it.k = "op" /\ it.b \in 81..96 THEN it.b - 80 ELSE 99

(* digest context: which signature hash applies to the input being checked *)
Legacy(t, idx, sc)            == [mode |-> "legacy",  t |-> t, idx |-> idx, sc |-> sc, amount |-> <<>>]
Witness(t, idx, amount8, sc)  == [mode |-> "witness", t |-> t, idx |-> idx, sc |-> sc, amount |-> amount8]
DigestOf(cx, flag) == IF cx.mode = "legacy" THEN LegacyDigest(cx.t, cx.idx, cx.sc, flag)
                      ELSE WitnessDigest(cx.t, cx.idx, cx.amount, cx.sc, flag)

(* signature check: sigbytes = strict DER ++ hash-type byte *)
CheckSig(sigb, pk, cx) ==
    /\ Len(sigb) >= 9
    /\ LET d == DerDec(Front(sigb))  q == Sec1Dec(pk) IN
       d.ok /\ q.ok /\ Verify(d.v[1], d.v[2], q.v, NFromBE(DigestOf(cx, Last(sigb))))

(* CHECKMULTISIG: signatures must match public keys in key order *)
RECURSIVE MultiMatch(_, _, _)
MultiMatch(sigs, pks, digestOf) ==
    IF sigs = <<>> THEN TRUE
    ELSE IF Len(sigs) > Len(pks) THEN FALSE
    ELSE IF CheckSig(Head(sigs), Head(pks), digestOf) THEN MultiMatch(Tail(sigs), Tail(pks), digestOf)
    ELSE MultiMatch(sigs, Tail(pks), digestOf)

(* classify a script: returns [kind, ...] *)
Classify(script) ==
    LET d == Disasm(script) IN
    IF ~d.ok THEN [kind |-> "other"]
    ELSE LET it == d.v  n == Len(it) IN
      IF n = 2 /\ IsData(it[1]) /\ IsOp(it[2], "OP_CHECKSIG") THEN [kind |-> "p2pk", pk |-> it[1].d]
      ELSE IF n = 5 /\ IsOp(it[1], "OP_DUP") /\ IsOp(it[2], "OP_HASH160") /\ IsData(it[3]) /\ Len(it[3].d) = 20
                 /\ IsOp(it[4], "OP_EQUALVERIFY") /\ IsOp(it[5], "OP_CHECKSIG") THEN [kind |-> "p2pkh", h |-> it[3].d]
      ELSE IF n = 3 /\ IsOp(it[1], "OP_HASH160") /\ IsData(it[2]) /\ Len(it[2].d) = 20 /\ IsOp(it[3], "OP_EQUAL")
           THEN [kind |-> "p2sh", h |-> it[2].d]
      ELSE IF n = 2 /\ IsOp(it[1], "OP_0") /\ IsData(it[2]) /\ Len(it[2].d) = 20 THEN [kind |-> "p2wpkh", h |-> it[2].d]
      ELSE IF n = 2 /\ IsOp(it[1], "OP_0") /\ IsData(it[2]) /\ Len(it[2].d) = 32 THEN [kind |-> "p2wsh", h |-> it[2].d]
      ELSE IF n >= 4 /\ IsOp(it[n], "OP_CHECKMULTISIG") /\ SmallIntOf(it[1]) \in 1..16 /\ SmallIntOf(it[n - 1]) = n - 3
                 /\ SmallIntOf(it[1]) <= n - 3 /\ \A j \in 2..(n - 2) : IsData(it[j])
           THEN [kind |-> "multisig", m |-> SmallIntOf(it[1]), pks |-> [j \in 1..(n - 3) |-> it[j + 1].d]]
      ELSE [kind |-> "other"]

PushOnly(items) == \A j \in 1..Len(items) : IsData(items[j]) \/ (items[j].k = "op" /\ items[j].b \in ({0} \cup (79..96)))
(* the byte string an item pushes (OP_0 pushes the empty string) *)
Pushed(it) == IF IsData(it) THEN it.d ELSE <<>>

(* witness program execution (version 0) for input idx *)
WitnessValid(kind, prog, stack, t, idx, amount8) ==
    IF kind = "p2wpkh" THEN
        /\ Len(stack) = 2
        /\ Hash160(stack[2]) = prog
        /\ CheckSig(stack[1], stack[2], Witness(t, idx, amount8, P2PKH(prog)))
    ELSE \* p2wsh
        /\ Len(stack) >= 1
        /\ LET ws == stack[Len(stack)]  c == Classify(ws)  args == SubSeq(stack, 1, Len(stack) - 1)
               dg == Witness(t, idx, amount8, ws) IN
           /\ Sha256(ws) = prog
           /\ IF c.kind = "multisig" THEN
                  /\ Len(args) = c.m + 1 /\ args[1] = <<>>            \* the dummy element must be empty (NULLDUMMY is consensus for witness v0? policy; we require only presence)
                  /\ MultiMatch(SubSeq(args, 2, Len(args)), c.pks, dg)
              ELSE IF c.kind = "p2pk" THEN Len(args) = 1 /\ CheckSig(args[1], c.pk, dg)
              ELSE IF c.kind = "p2pkh" THEN Len(args) = 2 /\ Hash160(args[2]) = c.h /\ CheckSig(args[1], args[2], dg)
              ELSE FALSE

(* does input idx (0-based) of t validly spend an output with script `prev` and value amount8? *)
InputValid(prev, amount8, t, idx) ==
    LET inp == t.ins[idx + 1]
        ss  == Disasm(inp.script)
        wit == IF HasWitness(t) THEN t.wit[idx + 1] ELSE <<>>
        c   == Classify(prev) IN
    /\ ss.ok
    /\ CASE c.kind = "p2pk" ->
              /\ wit = <<>> /\ Len(ss.v) = 1 /\ IsData(ss.v[1])
              /\ CheckSig(ss.v[1].d, c.pk, Legacy(t, idx, prev))
         [] c.kind = "p2pkh" ->
              /\ wit = <<>> /\ Len(ss.v) = 2 /\ IsData(ss.v[1]) /\ IsData(ss.v[2])
              /\ Hash160(ss.v[2].d) = c.h
              /\ CheckSig(ss.v[1].d, ss.v[2].d, Legacy(t, idx, prev))
         [] c.kind = "multisig" ->
              /\ wit = <<>> /\ Len(ss.v) = c.m + 1 /\ PushOnly(ss.v)
              /\ MultiMatch([j \in 1..c.m |-> Pushed(ss.v[j + 1])], c.pks, Legacy(t, idx, prev))
         [] c.kind = "p2sh" ->
              /\ Len(ss.v) >= 1 /\ PushOnly(ss.v)
              /\ LET redeem == Pushed(ss.v[Len(ss.v)])  rc == Classify(redeem) IN
                 /\ Hash160(redeem) = c.h
                 /\ IF rc.kind = "multisig" THEN
                        /\ wit = <<>> /\ Len(ss.v) = rc.m + 2
                        /\ MultiMatch([j \in 1..rc.m |-> Pushed(ss.v[j + 1])], rc.pks, Legacy(t, idx, redeem))
                    ELSE IF rc.kind \in {"p2wpkh", "p2wsh"} THEN
                        /\ Len(ss.v) = 1 /\ IsData(ss.v[1])
                        /\ WitnessValid(rc.kind, rc.h, wit, t, idx, amount8)
                    ELSE IF rc.kind = "p2pk" THEN
                        /\ wit = <<>> /\ Len(ss.v) = 2 /\ CheckSig(Pushed(ss.v[1]), rc.pk, Legacy(t, idx, redeem))
                    ELSE FALSE
         [] c.kind \in {"p2wpkh", "p2wsh"} ->
              /\ inp.script = <<>>
              /\ WitnessValid(c.kind, c.h, wit, t, idx, amount8)
         [] OTHER -> FALSE
=============================================================================
