------------------------------- MODULE Ecdsa -------------------------------
(***************************************************************************)
(* ECDSA over the curve of EC.tla (C01, C02), strict DER (BIP66), low-S    *)
(* (BIP62), SEC1 point encodings, and the library's sig / sig_verify       *)
(* conventions (HASH256 of msg || 4-byte flag, 1-byte flag suffix).        *)
(***************************************************************************)
EXTENDS EC

HalfN   == NHalf(CN)
LowS(s) == NLe(s, HalfN)
InRange(v) == ~NIsZero(v) /\ NLt(v, CN)

(* --- verification: accepts exactly the tuples satisfying the equation --- *)
Verify(r, s, Q, z) ==
    /\ ~IsInf(Q) /\ OnCurve(Q[1], Q[2])
    /\ InRange(r) /\ InRange(s)
    /\ LET w  == NInvMod(s, CN)
           u1 == NMulMod(NMod(z, CN), w, CN)
           u2 == NMulMod(r, w, CN)
           R  == PointAdd(ScalarMul(u1, G), ScalarMul(u2, Q))
       IN ~IsInf(R) /\ NMod(R[1], CN) = r

(* independent characterisation through the discrete log d of Q = dG:      *)
(* valid iff k = (z + r d)/s is non-zero and x(kG) mod n = r               *)
VerifyAlt(r, s, d, z) ==
    /\ InRange(r) /\ InRange(s)
    /\ LET k == NMulMod(NAddMod(NMod(z, CN), NMulMod(r, d, CN), CN), NInvMod(s, CN), CN)
       IN ~NIsZero(k) /\ NMod(ScalarMul(k, G)[1], CN) = r

(* --- signing: retry loop over the draws of the random source --- *)
(* draws[i] are the successive values returned by randbelow(n); a draw is   *)
(* rejected when k = 0, r = 0 or s = 0; the accepted one is THE nonce.      *)
SigOfDraw(d, z, k) ==
    IF NIsZero(k) THEN Fail
    ELSE LET R == ScalarMul(k, G)
             r == NMod(R[1], CN)
         IN IF NIsZero(r) THEN Fail
            ELSE LET s0 == NMulMod(NAddMod(NMod(z, CN), NMulMod(r, d, CN), CN), NInvMod(k, CN), CN)
                 IN IF NIsZero(s0) THEN Fail
                    ELSE Ok([r |-> r, s |-> IF LowS(s0) THEN s0 ELSE NSub(CN, s0)])
RECURSIVE SignFrom(_, _, _, _)
SignFrom(d, z, draws, i) ==
    IF i > Len(draws) THEN Fail
    ELSE LET a == SigOfDraw(d, z, draws[i])
         IN IF a.ok THEN Ok([r |-> a.v.r, s |-> a.v.s, used |-> i]) ELSE SignFrom(d, z, draws, i + 1)
Sign(d, z, draws) == SignFrom(d, z, draws, 1)

(* --- strict DER (BIP66 IsValidSignatureEncoding without the hash-type byte) --- *)
DerInt(n)    == LET b == NMinBE(n) IN IF b = <<>> THEN <<0>> ELSE IF b[1] >= 128 THEN <<0>> \o b ELSE b
DerEnc(r, s) == LET ri == DerInt(r)  si == DerInt(s)
                IN <<48, Len(ri) + Len(si) + 4, 2, Len(ri)>> \o ri \o <<2, Len(si)>> \o si
IsStrictDER(sig) ==
    /\ Len(sig) >= 8 /\ Len(sig) <= 72
    /\ sig[1] = 48 /\ sig[2] = Len(sig) - 2
    /\ LET lenR == sig[4] IN
       /\ 5 + lenR < Len(sig)
       /\ LET lenS == sig[lenR + 6] IN
          /\ lenR + lenS + 6 = Len(sig)
          /\ sig[3] = 2 /\ lenR # 0 /\ sig[5] < 128
          /\ ~(lenR > 1 /\ sig[5] = 0 /\ sig[6] < 128)
          /\ sig[lenR + 5] = 2 /\ lenS # 0 /\ sig[lenR + 7] < 128
          /\ ~(lenS > 1 /\ sig[lenR + 7] = 0 /\ sig[lenR + 8] < 128)
DerDec(sig) == IF IsStrictDER(sig)
               THEN LET lenR == sig[4]  lenS == sig[lenR + 6]
                    IN Ok(<<NFromBE(SubSeq(sig, 5, 4 + lenR)), NFromBE(SubSeq(sig, lenR + 7, lenR + 6 + lenS))>>)
               ELSE Fail
EnsureLowS(sig) == LET d == DerDec(sig) IN
                   IF ~d.ok THEN Fail
                   ELSE Ok(DerEnc(d.v[1], IF LowS(d.v[2]) THEN d.v[2] ELSE NSub(CN, d.v[2])))

(* --- SEC1 public keys: exact accept set --- *)
Sec1Enc(p, compressed) ==
    IF compressed THEN <<IF NOdd(p[2]) THEN 3 ELSE 2>> \o NToBE(p[1], 32)
    ELSE <<4>> \o NToBE(p[1], 32) \o NToBE(p[2], 32)
Sec1Dec(b) ==
    IF Len(b) = 33 /\ b[1] \in {2, 3} THEN
        LET x == NFromBE(SubSeq(b, 2, 33)) IN
        IF InField(x) /\ HasSqrt(Rhs(x))
        THEN LET y0 == SqrtCand(Rhs(x))
                 y  == IF NOdd(y0) = (b[1] = 3) THEN y0 ELSE FSub(NZero, y0)
             IN IF NOdd(y) = (b[1] = 3) THEN Ok(<<x, y>>) ELSE Fail
        ELSE Fail
    ELSE IF Len(b) = 65 /\ b[1] = 4 THEN
        LET x == NFromBE(SubSeq(b, 2, 33))  y == NFromBE(SubSeq(b, 34, 65)) IN
        IF OnCurve(x, y) THEN Ok(<<x, y>>) ELSE Fail
    ELSE Fail

(* --- the library's message conventions --- *)
Flag4(f) == <<f, 0, 0, 0>>
SigDigest(msg, flag, preimage) == NFromBE(Hash256(IF preimage THEN msg ELSE msg \o Flag4(flag)))
(* preimage mode: the last four bytes of msg must be the flag *)
PreimageOk(msg, flag) == Len(msg) >= 4 /\ SubSeq(msg, Len(msg) - 3, Len(msg)) = Flag4(flag)
SigBytes(d, msg, flag, preimage, draws) ==
    IF preimage /\ ~PreimageOk(msg, flag) THEN Fail
    ELSE LET sg == Sign(d, SigDigest(msg, flag, preimage), draws)
         IN IF sg.ok THEN Ok([sig |-> DerEnc(sg.v.r, sg.v.s) \o <<flag>>, used |-> sg.v.used, r |-> sg.v.r, s |-> sg.v.s]) ELSE Fail
SigVerify(sigb, pk, msg, preimage) ==
    /\ Len(sigb) >= 1
    /\ LET der == Front(sigb)  flag == Last(sigb)  d == DerDec(der)  q == Sec1Dec(pk) IN
       d.ok /\ q.ok /\ Verify(d.v[1], d.v[2], q.v, SigDigest(msg, flag, preimage))
=============================================================================
