CONSTANTS Sha256 <- SampleHash  Scripts <- ScriptsR  Seqs <- SeqsR  Stacks <- StacksR  OutChoices <- OutsR  MaxIn = 1  MaxOut = 1
TrailKinds = {"none", "zero", "copy"}  Deviation = "none"
INIT Init
NEXT Next
INVARIANT CasesWellFormed
INVARIANT ParseNeverFails
INVARIANT FieldsRoundTrip
INVARIANT LeftoverExact
INVARIANT ReserialiseIdentity
INVARIANT CursorInBounds
INVARIANT OperatorAgrees
INVARIANT TruncationRefused
INVARIANT MarkerFlagIffWitness
INVARIANT TxidIsHashOfNoWitnessForm
INVARIANT WtxidIsHashOfFullForm
INVARIANT NonWitnessIdsEqual
INVARIANT RawIsConsumedBytes
INVARIANT IdsIgnoreTrailing
CHECK_DEADLOCK FALSE
