----------------------------- MODULE MC_P2PCodec -----------------------------
(* Stage A for C17 (codecs): Parse(Build(v)) = Ok(v) and tightness over field boundary sets. *)
EXTENDS P2PCodec, FiniteSets
CONSTANT Big          \* BOOLEAN: include counts 65535 / 65536 (FD/FE boundary)
VARIABLE c

N8 == {<<0,0,0,0,0,0,0,0>>, <<1,0,0,0,0,0,0,0>>, <<255,0,0,0,0,0,0,0>>, <<0,1,0,0,0,0,0,0>>, <<255,255,255,255,0,0,0,0>>,
       <<0,0,0,0,1,0,0,0>>, <<0,0,0,0,0,0,0,128>>, <<255,255,255,255,255,255,255,255>>}
N4 == {<<0,0,0,0>>, <<127,17,1,0>>, <<255,255,255,127>>, <<0,0,0,128>>, <<255,255,255,255>>}   \* 0, 70015, 2^31-1, 2^31, 2^32-1
Ip == [i \in 1..16 |-> 57 + i]
Ua(n) == [i \in 1..n |-> 32 + (i % 90)]
Counts == {0, 1, 2, 252, 253, 254}
Hash(i) == [j \in 1..HashLen |-> (i * 7 + j) % 256]
TypeSeq == <<MSG_TX, MSG_BLOCK, MSG_FILTERED_BLOCK, MSG_CMPCT_BLOCK, MSG_TX + WFLAG, MSG_BLOCK + WFLAG>>

PingCases == {[k |-> "ping", v |-> [nonce |-> n]] : n \in N8}
VersionCases ==
    {[k |-> "version",
      v |-> [pv |-> pv, services |-> sv, timestamp |-> ts, recv_services |-> <<0,0,0,0,0,0,0,0>>, recv_ip |-> Ip, recv_port |-> pt,
             trans_services |-> sv, trans_ip |-> Ip, trans_port |-> 65535 - pt, nonce |-> nn, ua |-> Ua(ul),
             start_height |-> sh, relay |-> rl]] :
        pv \in {<<127,17,1,0>>, <<255,255,255,255>>}, sv \in {<<1,0,0,0,0,0,0,0>>, <<9,4,0,0,0,0,0,128>>},
        ts \in {<<0,0,0,0,0,0,0,0>>, <<255,255,255,255,255,255,255,255>>}, pt \in {0, 8333, 65535},
        nn \in {<<0,0,0,0,0,0,0,0>>, <<255,255,255,255,255,255,255,255>>}, ul \in {0, 1, 12, 252, 253, 300},
        sh \in {<<0,0,0,0>>, <<255,255,255,255>>}, rl \in BOOLEAN}
GetHeadersCases ==
    {[k |-> "getheaders", v |-> [pv |-> pv, hashes |-> [i \in 1..n |-> Hash(i)], stop |-> st]] :
        pv \in {<<127,17,1,0>>, <<0,0,0,128>>}, n \in Counts, st \in {Hash(0), [j \in 1..HashLen |-> 255]}}
InvCases ==
    {[k |-> "inv", v |-> [items |-> [i \in 1..n |-> [type |-> TypeSeq[((i + s) % 6) + 1], hash |-> Hash(i + s)]]]] :
        n \in Counts, s \in 0..5}
AddrCases ==
    {[k |-> "addr", v |-> [addrs |-> [i \in 1..n |-> [time |-> tm, services |-> <<(i % 256),4,0,0,0,0,0,128>>, ip |-> Ip,
                                                     port |-> IF (i % 2) = 0 THEN pt ELSE 65535 - pt]]]] :
        n \in Counts, tm \in N4, pt \in {0, 8333}}
(* the FD/FE boundary of CompactSize (beyond what the protocol allows in these messages; thorough tier only) *)
BigCases == IF ~Big THEN {}
            ELSE {[k |-> "getheaders", v |-> [pv |-> <<127,17,1,0>>, hashes |-> [i \in 1..n |-> Hash(i)], stop |-> Hash(0)]] : n \in {65535, 65536}}
                 \cup {[k |-> "inv", v |-> [items |-> [i \in 1..65536 |-> [type |-> TypeSeq[(i % 6) + 1], hash |-> Hash(i)]]]]}
                 \cup {[k |-> "addr", v |-> [addrs |-> [i \in 1..65536 |-> [time |-> <<255,255,255,255>>, services |-> <<(i % 256),4,0,0,0,0,0,128>>,
                                                                            ip |-> Ip, port |-> 8333]]]]}
Cases == PingCases \cup VersionCases \cup GetHeadersCases \cup InvCases \cup AddrCases \cup BigCases

Init == c \in Cases
Next == UNCHANGED c
RoundTrip == RoundTrips(c.k, c.v)
TightParse == Tight(c.k, c.v)
(* vacuity: the boundary forms of CompactSize are really exercised *)
Forms == {Build(x.k, x.v)[IF x.k = "getheaders" THEN 5 ELSE 1] : x \in {y \in Cases : y.k \in {"getheaders", "inv", "addr"}}}
ASSUME {0, 1, 252, 253} \subseteq Forms
=============================================================================
