------------------------------- MODULE CliCmd -------------------------------
(***************************************************************************)
(* Extension of C20: what every SUBCOMMAND of `bits` computes from its     *)
(* options and its input.  Cli.tla covers the base conversion command and  *)
(* option precedence; this module states, for one invocation               *)
(*     inv = [cmd |-> subcommand, opts |-> option record, input |-> bytes  *)
(*            read from --in-file / stdin]                                 *)
(* the outcome the command is meant to have:                               *)
(*     Expected(inv)   = Ok(output bytes) | Fail     byte-producing forms  *)
(*     ExpectedJ(inv)  = Ok(record)       | Fail     forms that print JSON *)
(*     ExpectedS(inv)  = "OK" | "NOT-OK" | "FAIL"    sig --verify          *)
(* Fail = the command must exit non-zero and deliver no result.            *)
(*                                                                         *)
(* The point is COMPOSITION: nothing is re-specified here.  Every value is *)
(* computed by the operators of the existing modules - Cli (ReadBytes /    *)
(* WriteBytes), Base58, Bech32 + Addr, Wif, Pem, EC / Ecdsa, Script, Tx,   *)
(* Block, Bip39, Bip32, and the hashes of Prim/Native - instantiated under *)
(* a prefix; this module only contains the decision tables (which options  *)
(* select which operator, decode vs encode, check vs raw, network x        *)
(* address type x witness version) and the text conventions of the command *)
(* line (newline handling, path syntax, whitespace of mnemonics).          *)
(*                                                                         *)
(* Where the help text leaves a behaviour open the invocation is           *)
(* Unconstrained(inv) (either outcome allowed), MayFail(inv) (refusing is  *)
(* also fine) or has AltOutputs(inv) (further acceptable outputs).         *)
(*                                                                         *)
(* Option record (only the fields a command uses are looked at):           *)
(*   inf, outf      "raw" | "hex" | "bin" (outf also "pem" for key/pubkey) *)
(*   net            "mainnet" | "testnet" | "regtest"                      *)
(*   print, decode, check, compressed, witness, xpub, verify, preimage,    *)
(*   acp, header    the boolean flags                                      *)
(*   type           address type (addr: p2pkh|p2sh, wif: the eight types)  *)
(*   haswv, wv      --witness-version given / its value                    *)
(*   hrp, data      bech32 --hrp, wif --data (bytes)                       *)
(*   mode           mnemonic: generate|from-entropy|to-entropy|to-seed|    *)
(*                  to-master-key; pass = passphrase (code points);        *)
(*                  token = what the random source returned (generate)     *)
(*   draw           key: what randbelow returned (a Num number)            *)
(*   path           hd: the path argument (ASCII)                          *)
(*   items          script: arguments as items [k: "op"|"data"|"bad", n:    *)
(*                  opcode name, d: bytes]; scripts: the byte strings to   *)
(*                  decode (hexok = all arguments were hex)                *)
(*   msg, sighash, hassig, sig, draws     sig                              *)
(*   ins, outs, wits, version, locktime, argsok     tx (numbers as fixed   *)
(*                  width little-endian bytes; argsok = every number fits  *)
(*                  its field and every string is hex)                     *)
(*   hasheight, height   blockchain                                        *)
(*                                                                         *)
(* Where the bytes come from (stdin or --in-file) and go to (stdout or     *)
(* --out-file) is not part of inv: Trace_CliCmd requires the output in the *)
(* place the options name.  The BIP39 English word list is the literal     *)
(* module CliCmdWords.  Not covered: send, mine, p2p, rpc (they need a     *)
(* node), hd --dump, -L.                                                   *)
(*                                                                         *)
(* Dev is a set of named deviations.  "bech32-const1" reproduces a way in  *)
(* which this kind of tool goes wrong and is switched on only by the       *)
(* vacuity self-test of MC_CliCmd.                                         *)
(***************************************************************************)
EXTENDS Prim, FiniteSets, CliCmdWords
CONSTANTS Big, CP, CB, CN, CGx, CGy,     \* the curve (EC.tla); secp256k1 in Trace_CliCmd, a small curve in MC_CliCmd
          Dev

C   == INSTANCE Cli
AD  == INSTANCE Addr          \* Bech32 + Base58 + Ecdsa (+ EC, Num)
WF  == INSTANCE Wif
PM  == INSTANCE Pem
HD  == INSTANCE Bip32
MN  == INSTANCE Bip39
BK  == INSTANCE Block         \* Block + Tx + Script + CompactSize

NL == 10
NWords == 2048
WordList == EnglishWords                  \* the 2048 BIP39 words, each an ASCII string (CliCmdWords.tla)
WithNL(t, p) == IF p THEN Append(t, NL) ELSE t
Wr(b, f) == C!WriteBytes(b, f)
Rd(inv)  == C!ReadBytes(inv.input, inv.opts.inf)

HashCmds == {"sha256", "ripemd160", "hash160", "hash256"}
Commands == HashCmds \cup {"base58", "bech32", "addr", "wif", "pubkey", "key", "mnemonic", "hd", "script", "sig", "tx",
                           "blockchain"}

(* text in a digit format that contains anything but digits (and surrounding newlines): outside C20's quantifier *)
DigitOf(fmt, ch) == IF fmt = "hex" THEN C!IsHexDigit(ch) ELSE ch \in {48, 49}
ReadOpen(t, fmt) == fmt \in {"hex", "bin"} /\ LET s == C!StripNL(t) IN \E i \in 1..Len(s) : ~DigitOf(fmt, s[i])

(* ------------------------------------------------------------------ hashes *)
HashOf(cmd, b) == CASE cmd = "sha256"    -> Sha256(b)
                    [] cmd = "ripemd160" -> Ripemd160(b)
                    [] cmd = "hash160"   -> Hash160(b)
                    [] cmd = "hash256"   -> Hash256(b)
HashExpected(inv) == LET r == Rd(inv) IN IF r.ok THEN Ok(Wr(HashOf(inv.cmd, r.v), inv.opts.outf)) ELSE Fail

(* ------------------------------------------------------------------ base58 *)
(* encode: input in --input-format, output the Base58(Check) text; decode: the text as it stands (no stripping),  *)
(* output in --output-format.  --print: a newline ends the output.                                                  *)
Base58Expected(inv) ==
    LET o == inv.opts IN
    IF o.decode
    THEN LET d == IF o.check THEN AD!DecCheck(inv.input) ELSE AD!Dec(inv.input) IN
         IF ~d.ok THEN Fail
         ELSE Ok(IF o.outf = "raw" THEN WithNL(d.v, o.print) ELSE Wr(d.v, o.outf))
    ELSE LET r == Rd(inv) IN
         IF ~r.ok THEN Fail
         ELSE Ok(WithNL(IF o.check THEN AD!EncCheck(r.v) ELSE AD!Enc(r.v), o.print))

(* ------------------------------------------------------------------ bech32 *)
HrpValid(h) == Len(h) \in 1..83 /\ \A i \in 1..Len(h) : h[i] \in 33..126
HasUpper(h) == \E i \in 1..Len(h) : AD!IsUpper(h[i])
ConstFor(v) == IF "bech32-const1" \in Dev THEN AD!Bech32Const ELSE AD!ConstOfVersion(v)
NetOfHrp(h) == CASE h = AD!HrpOf("mainnet") -> "mainnet" [] h = AD!HrpOf("testnet") -> "testnet" [] OTHER -> "regtest"

(* encode: hrp 1 data, the data part being the input regrouped into 5-bit symbols; with --witness-version v the   *)
(* version symbol goes first and the checksum is the one BIP350 prescribes for v (Bech32 for 0, Bech32m for 1..16) *)
Bech32Enc(inv) ==
    LET o == inv.opts  r == Rd(inv) IN
    IF ~r.ok \/ ~HrpValid(o.hrp) THEN Fail
    ELSE IF o.haswv /\ o.wv \notin 0..16 THEN Fail
    ELSE LET syms == (IF o.haswv THEN <<o.wv>> ELSE <<>>) \o AD!ConvertBits8to5(r.v)
             s    == AD!BechEncode(AD!LowerStr(o.hrp), syms, IF o.haswv THEN ConstFor(o.wv) ELSE AD!Bech32Const)
         IN IF Len(s) > 90 THEN Fail ELSE Ok(WithNL(s, o.print))

(* decode: a segwit address prints network / version / program, any other Bech32 string hrp / payload *)
NoBech == [form |-> "none", network |-> "", ver |-> 0, prog |-> <<>>, hrp |-> <<>>, payload |-> <<>>]
Bech32DecJ(inv) ==
    LET s == inv.input  sw == AD!SegwitDecode(s) IN
    IF sw.ok THEN Ok([NoBech EXCEPT !.form = "segwit", !.network = NetOfHrp(sw.v.hrp), !.ver = sw.v.ver, !.prog = sw.v.prog])
    ELSE LET g == AD!BechDecode(s, AD!Bech32Const) IN
         IF ~g.ok THEN Fail
         ELSE LET p == AD!ConvertBits5to8(g.v.data) IN
              IF p.ok THEN Ok([NoBech EXCEPT !.form = "generic", !.hrp = g.v.hrp, !.payload = p.v]) ELSE Fail
(* open: a Bech32 string whose data part is not a whole number of bytes; a Bech32m string that is not an address *)
Bech32DecOpen(inv) ==
    LET s == inv.input IN
    ~AD!SegwitDecode(s).ok /\
    LET g == AD!BechDecode(s, AD!Bech32Const) IN
    IF g.ok THEN ~AD!ConvertBits5to8(g.v.data).ok ELSE AD!BechDecode(s, AD!Bech32mConst).ok

(* -------------------------------------------------------------------- addr *)
(* --witness-version present => native segwit address and --type is ignored *)
AddrExpected(inv) ==
    LET o == inv.opts  r == Rd(inv) IN
    IF ~r.ok THEN Fail
    ELSE LET a == IF o.haswv THEN AD!AddrEncode("wit", o.wv, o.net, r.v) ELSE AD!AddrEncode(o.type, 0, o.net, r.v) IN
         IF a.ok THEN Ok(WithNL(a.v, o.print)) ELSE Fail

(* --------------------------------------------------------------------- wif *)
WifEncExpected(inv) ==
    LET o == inv.opts  r == Rd(inv) IN
    IF ~r.ok THEN Fail
    ELSE LET w == WF!WifEnc(o.net, o.type, r.v, o.data) IN
         IF w.ok THEN Ok(WithNL(w.v, o.print)) ELSE Fail
WifDecJ(inv) == WF!WifDec(inv.input)          \* Ok([key, type, net (class), suffix, version]) | Fail
WifDecOpen(inv) == ~WF!WifDec(inv.input).ok /\ ~WF!WifMustReject(inv.input)

(* ------------------------------------------------------------ key / pubkey *)
(* 32 bytes = a private key, 33 / 65 bytes = a public key to be re-encoded *)
PointOfInput(b) ==
    IF Len(b) = 32 THEN (LET k == AD!PrivFromBytes(b) IN IF k.ok THEN Ok(AD!PubOf(k.v)) ELSE Fail)
    ELSE IF Len(b) \in {33, 65} THEN AD!Sec1Dec(b)
    ELSE Fail
PubkeyExpected(inv) ==
    LET o == inv.opts  r == Rd(inv) IN
    IF ~r.ok THEN Fail
    ELSE LET p == PointOfInput(r.v) IN
         IF ~p.ok THEN Fail
         ELSE LET s == AD!Sec1Enc(p.v, o.compressed) IN
              IF o.outf = "pem" THEN PM!PemEncPub(s) ELSE Ok(Wr(s, o.outf))

(* the key is 1 + the draw of randbelow(n - 1) *)
KeyOfDraw(d) == AD!NToBE(AD!NAdd(d, AD!NLit(1)), 32)
KeyExpected(inv) ==
    LET o == inv.opts  k == KeyOfDraw(o.draw) IN
    IF ~AD!PrivFromBytes(k).ok THEN Fail
    ELSE IF o.outf = "pem" THEN PM!PemEncPriv(k) ELSE Ok(Wr(k, o.outf))

(* ---------------------------------------------------------------- mnemonic *)
IsWs(ch) == ch \in {9, 10, 11, 12, 13, 32}
RECURSIVE SplitAcc(_, _, _, _)
SplitAcc(t, i, cur, acc) ==
    IF i > Len(t) THEN (IF cur = <<>> THEN acc ELSE Append(acc, cur))
    ELSE IF IsWs(t[i]) THEN SplitAcc(t, i + 1, <<>>, IF cur = <<>> THEN acc ELSE Append(acc, cur))
    ELSE SplitAcc(t, i + 1, Append(cur, t[i]), acc)
SplitWs(t) == SplitAcc(t, 1, <<>>, <<>>)                          \* the words of a text
RECURSIVE JoinSp(_)
JoinSp(ws) == IF ws = <<>> THEN <<>> ELSE IF Len(ws) = 1 THEN ws[1] ELSE ws[1] \o <<32>> \o JoinSp(Tail(ws))
WordIndex(w) == (CHOOSE i \in 1..(NWords + 1) : i = NWords + 1 \/ WordList[i] = w) - 1      \* NWords = not a word
IdxOf(t)     == LET ws == SplitWs(t) IN [i \in 1..Len(ws) |-> WordIndex(ws[i])]
PhraseOf(ent) ==
    LET ix == MN!ToIndices(ent) IN
    IF ix.ok THEN Ok(JoinSp([i \in 1..Len(ix.v) |-> WordList[ix.v[i] + 1]])) ELSE Fail
NonAscii(t) == \E i \in 1..Len(t) : t[i] >= 128
(* the phrase is read as text: words separated by any whitespace, joined by single blanks *)
SeedOf(inv) == MN!Seed(JoinSp(SplitWs(inv.input)), inv.opts.pass)
XNet(net) == IF net = "mainnet" THEN "main" ELSE "test"

MnemonicExpected(inv) ==
    LET o == inv.opts IN
    CASE o.mode = "generate" ->
           (LET p == PhraseOf(o.token) IN IF p.ok THEN Ok(Append(p.v, NL)) ELSE Fail)
      [] o.mode = "from-entropy" ->
           (LET r == Rd(inv) IN
            IF ~r.ok THEN Fail ELSE LET p == PhraseOf(r.v) IN IF p.ok THEN Ok(Append(p.v, NL)) ELSE Fail)
      [] o.mode = "to-entropy" ->
           (LET e == MN!ToEntropy(IdxOf(inv.input)) IN IF e.ok THEN Ok(Wr(e.v, o.outf)) ELSE Fail)
      [] o.mode = "to-seed" -> Ok(Wr(SeedOf(inv), o.outf))
      [] o.mode = "to-master-key" ->
           (LET m == HD!MasterX(SeedOf(inv), XNet(o.net)) IN
            IF m.ok THEN Ok(WithNL(HD!XKeyStr(m.v), o.print)) ELSE Fail)

(* ---------------------------------------------------------------------- hd *)
(* path = m | M | m/e/e... | M/e/e...; e = decimal digits, optionally followed by ' (hardened); value < 2^31 *)
Slash == 47
Apos  == 39
IsDigit(ch) == ch \in 48..57
RECURSIVE SplitSepAcc(_, _, _, _, _)
SplitSepAcc(t, sep, i, cur, acc) ==
    IF i > Len(t) THEN Append(acc, cur)
    ELSE IF t[i] = sep THEN SplitSepAcc(t, sep, i + 1, <<>>, Append(acc, cur))
    ELSE SplitSepAcc(t, sep, i + 1, Append(cur, t[i]), acc)
SplitSep(t, sep) == SplitSepAcc(t, sep, 1, <<>>, <<>>)
RECURSIVE DecVal(_, _, _)
DecVal(ds, i, acc) == IF i > Len(ds) THEN acc ELSE DecVal(ds, i + 1, (10 * acc) + (ds[i] - 48))
TwoPow31Text == <<50, 49, 52, 55, 52, 56, 51, 54, 52, 56>>                 \* "2147483648"
RECURSIVE TextLess(_, _, _)
TextLess(a, b, i) == IF i > Len(a) THEN FALSE ELSE IF a[i] # b[i] THEN a[i] < b[i] ELSE TextLess(a, b, i + 1)
(* characters Python's int() tolerates around / inside a number, and the alternative hardened markers h / H *)
LooseChar(ch) == ch \in {9, 10, 11, 12, 13, 32, 43, 45, 95} \/ ch >= 128      \* (int() also reads non-ASCII digits)
ParseElem(s) ==
    LET hard == s # <<>> /\ Last(s) = Apos
        ds   == IF hard THEN Front(s) ELSE s
        sig  == Drop(ds, LeadingCount(ds, 48))
    IN IF ds # <<>> /\ \A i \in 1..Len(ds) : IsDigit(ds[i])
       THEN (IF Len(sig) < 10 \/ (Len(sig) = 10 /\ TextLess(sig, TwoPow31Text, 1))
             THEN [cls |-> "ok", idx |-> LET b == BE(DecVal(sig, 1, 0), 4) IN IF hard THEN [b EXCEPT ![1] = @ + 128] ELSE b]
             ELSE [cls |-> IF hard THEN "invalid" ELSE "loose", idx |-> <<>>])
       ELSE IF s # <<>> /\ \A i \in 1..Len(s) : IsDigit(s[i]) \/ LooseChar(s[i]) \/ (i = Len(s) /\ s[i] \in {Apos, 72, 104})
            THEN [cls |-> "loose", idx |-> <<>>]
       ELSE [cls |-> "invalid", idx |-> <<>>]
ParsePath(p) ==
    IF p = <<109>> THEN [cls |-> "ok", priv |-> TRUE, path |-> <<>>]
    ELSE IF p = <<77>> THEN [cls |-> "ok", priv |-> FALSE, path |-> <<>>]
    ELSE IF Len(p) >= 2 /\ p[1] \in {109, 77} /\ p[2] = Slash
    THEN LET segs == SplitSep(Drop(p, 2), Slash)
             es   == [i \in 1..Len(segs) |-> ParseElem(segs[i])]
         IN [cls  |-> IF \E i \in 1..Len(es) : es[i].cls = "invalid" THEN "invalid"
                      ELSE IF \E i \in 1..Len(es) : es[i].cls = "loose" THEN "loose" ELSE "ok",
             priv |-> p[1] = 109,
             path |-> [i \in 1..Len(es) |-> es[i].idx]]
    ELSE [cls |-> "invalid", priv |-> FALSE, path |-> <<>>]

(* m... derives private keys and needs an extended private key; M... derives public keys from an extended public key *)
HdExpected(inv) ==
    LET o == inv.opts  pp == ParsePath(o.path) IN
    IF pp.cls # "ok" THEN Fail
    ELSE LET x == HD!DeserXKeyStr(inv.input) IN
         IF ~x.ok THEN Fail
         ELSE IF pp.priv # x.v.prv THEN Fail
         ELSE LET d == HD!Derive(x.v, pp.path) IN
              IF ~d.ok THEN Fail
              ELSE Ok(WithNL(HD!XKeyStr(IF o.xpub THEN HD!NeuterX(d.v) ELSE d.v), o.print))
(* open: tolerated number syntax; M... below an extended PRIVATE key (could be read as N(m...)) *)
HdOpen(inv) ==
    LET pp == ParsePath(inv.opts.path) IN
    \/ pp.cls = "loose"
    \/ (pp.cls = "ok" /\ ~pp.priv /\ LET x == HD!DeserXKeyStr(inv.input) IN x.ok /\ x.v.prv)

(* ------------------------------------------------------------------ script *)
(* encode: the arguments are opcode names and hex data, pushed with the shortest push; --witness: the arguments *)
(* are the items of a witness stack.  decode: every argument is a hex script (witness stack).                   *)
ItemsOk(items)   == \A i \in 1..Len(items) : items[i].k \in {"op", "data"}
NamesKnown(items) == \A i \in 1..Len(items) : items[i].k = "op" => items[i].n \in BK!OpNames
ScriptEncExpected(inv) ==
    LET o == inv.opts IN
    IF ~ItemsOk(o.items) \/ ~NamesKnown(o.items) THEN Fail
    ELSE IF o.witness THEN Ok(Wr(BK!AsmWitness([i \in 1..Len(o.items) |-> o.items[i].d]), o.outf))
    ELSE LET p == BK!FromNamed(o.items) IN IF p.ok THEN Ok(Wr(BK!Asm(p.v), o.outf)) ELSE Fail
(* open: names of push opcodes (the pushes are implied); opcodes on a witness stack *)
ScriptEncOpen(inv) ==
    LET o == inv.opts IN
    ItemsOk(o.items) /\ NamesKnown(o.items) /\
    IF o.witness THEN \E i \in 1..Len(o.items) : o.items[i].k = "op" ELSE ~BK!FromNamed(o.items).ok

ScriptDecJ(inv) ==
    LET o == inv.opts IN
    IF ~o.hexok THEN Fail
    ELSE IF o.witness
         THEN (IF \A i \in 1..Len(o.scripts) : BK!DisasmWitness(o.scripts[i]).ok
               THEN Ok([i \in 1..Len(o.scripts) |-> BK!DataSeq(BK!DisasmWitness(o.scripts[i]).v.stack)]) ELSE Fail)
         ELSE (IF \A i \in 1..Len(o.scripts) : BK!Disasm(o.scripts[i]).ok
               THEN Ok([i \in 1..Len(o.scripts) |-> BK!Disasm(o.scripts[i]).v]) ELSE Fail)
(* open (as in C13): scripts that do not parse or use non-minimal pushes; bytes after a witness stack *)
ScriptDecOpen(inv) ==
    LET o == inv.opts IN
    o.hexok /\ \E i \in 1..Len(o.scripts) :
        IF o.witness THEN LET d == BK!DisasmWitness(o.scripts[i]) IN ~d.ok \/ d.v.rest # <<>>
        ELSE ~BK!MinimalPushes(o.scripts[i])

(* --------------------------------------------------------------------- sig *)
FlagOf(o) == (CASE o.sighash = "all" -> 1 [] o.sighash = "none" -> 2 [] o.sighash = "single" -> 3) + (IF o.acp THEN 128 ELSE 0)
SigExpected(inv) ==
    LET o == inv.opts  r == Rd(inv) IN
    IF ~r.ok THEN Fail
    ELSE LET k == AD!PrivFromBytes(r.v) IN
         IF ~k.ok THEN Fail
         ELSE LET sg == AD!SigBytes(k.v, o.msg, FlagOf(o), o.preimage, o.draws) IN
              IF sg.ok THEN Ok(Wr(sg.v.sig, o.outf)) ELSE Fail
(* open: the scripted random source ran dry - every draw was 0 - which cannot happen with a real one.  (A non-zero *)
(* draw that makes r or s zero is refused by Ecdsa!Sign and retried by the code; at 256 bits it does not occur.)   *)
SigOpen(inv) ==
    LET o == inv.opts  r == Rd(inv) IN
    r.ok /\ AD!PrivFromBytes(r.v).ok /\ ~(o.preimage /\ ~AD!PreimageOk(o.msg, FlagOf(o)))
         /\ \A i \in 1..Len(o.draws) : AD!NIsZero(o.draws[i])
(* open (as in C02): a signature whose DER part is not strict (BIP66) - rejecting is not demanded, accepting cannot be judged *)
SigVerifyOpen(inv) == LET o == inv.opts IN o.hassig /\ o.sig # <<>> /\ ~AD!IsStrictDER(Front(o.sig))
ExpectedS(inv) ==
    LET o == inv.opts  r == Rd(inv) IN
    IF ~o.hassig \/ o.sig = <<>> \/ ~r.ok THEN "FAIL"
    ELSE IF AD!SigVerify(o.sig, r.v, o.msg, o.preimage) THEN "OK" ELSE "NOT-OK"

(* ---------------------------------------------------------------------- tx *)
FinalSeq == <<255, 255, 255, 255>>
(* build: txid as users write it (RPC byte order, reversed on the wire), every --script-witness the serialised *)
(* stack of the input at the same position                                                                     *)
TxWits(o) == [i \in 1..Len(o.wits) |-> BK!DisasmWitness(o.wits[i])]
TxBuildExpected(inv) ==
    LET o == inv.opts IN
    IF ~o.argsok THEN Fail
    ELSE IF \E i \in 1..Len(o.ins) : Len(o.ins[i].txid) # 32 THEN Fail
    ELSE LET ins  == [i \in 1..Len(o.ins) |-> BK!TxIn(Rev(o.ins[i].txid), o.ins[i].vout, o.ins[i].script, FinalSeq)]
             outs == [i \in 1..Len(o.outs) |-> BK!TxOut(o.outs[i].value, o.outs[i].script)]
             wit  == IF o.wits = <<>> THEN <<>> ELSE [i \in 1..Len(o.wits) |-> TxWits(o)[i].v.stack]
         IN Ok(Wr(BK!TxSer(BK!MkTx(o.version, ins, outs, wit, o.locktime)), o.outf))
(* open: no inputs; witnesses that do not match the inputs one to one or are not serialised stacks *)
TxBuildOpen(inv) ==
    LET o == inv.opts IN
    o.argsok /\ (\A i \in 1..Len(o.ins) : Len(o.ins[i].txid) = 32) /\
    (\/ o.ins = <<>>
     \/ (o.wits # <<>> /\ (\/ Len(o.wits) # Len(o.ins)
                           \/ \E i \in 1..Len(o.wits) : ~TxWits(o)[i].ok \/ TxWits(o)[i].v.rest # <<>>
                           \/ \A i \in 1..Len(o.wits) : TxWits(o)[i].v.stack = <<>>)))

TxJ(t) == [version |-> t.version, ins |-> t.ins, outs |-> t.outs, wit |-> t.wit, locktime |-> t.locktime,
           txid |-> BK!Txid(t), wtxid |-> BK!Wtxid(t)]
TxDecJ(inv) ==
    LET r == Rd(inv) IN
    IF ~r.ok THEN Fail
    ELSE LET d == BK!TxDeser(r.v) IN IF d.ok THEN Ok(TxJ(d.v.t)) ELSE Fail
(* open: bytes after the transaction (the command logs a warning) *)
TxDecOpen(inv) == LET r == Rd(inv) IN r.ok /\ LET d == BK!TxDeser(r.v) IN d.ok /\ d.v.rest # <<>>

(* -------------------------------------------------------------- blockchain *)
SatoshiKey == <<4,103,138,253,176,254,85,72,39,25,103,241,166,113,48,183,16,92,214,168,40,224,57,9,166,121,98,224,234,
                31,97,222,182,73,246,188,63,76,239,56,196,243,85,4,229,30,193,18,222,92,56,77,247,186,11,141,87,138,76,112,
                43,107,241,29,95>>
TheTimes == <<84,104,101,32,84,105,109,101,115,32,48,51,47,74,97,110,47,50,48,48,57,32,67,104,97,110,99,101,108,108,111,
              114,32,111,110,32,98,114,105,110,107,32,111,102,32,115,101,99,111,110,100,32,98,97,105,108,111,117,116,32,
              102,111,114,32,98,97,110,107,115>>
GenesisBits == <<255, 255, 0, 29>>
GenesisCoinbase ==
    BK!MkTx(<<1, 0, 0, 0>>,
            <<BK!TxIn(Rep(0, 32), FinalSeq, BK!Asm(<<BK!DataI(GenesisBits), BK!DataI(<<4>>), BK!DataI(TheTimes)>>), FinalSeq)>>,
            <<BK!TxOut(<<0, 242, 5, 42, 1, 0, 0, 0>>, BK!P2PK(SatoshiKey))>>, <<>>, <<0, 0, 0, 0>>)
GenesisHeader == BK!Header(<<1, 0, 0, 0>>, Rep(0, 32), BK!Txid(GenesisCoinbase), <<41, 171, 95, 73>>, GenesisBits, <<29, 172, 43, 124>>)
GenesisBlock  == BK!BlockSer(GenesisHeader, <<GenesisCoinbase>>)
GenesisHash   == <<111,226,140,10,182,241,179,114,193,166,162,70,174,99,247,79,147,30,131,101,225,90,8,156,104,214,25,0,0,0,0,0>>

BlockOf(inv) == IF inv.opts.hasheight THEN (IF inv.opts.height = 0 THEN Ok(GenesisBlock) ELSE Fail) ELSE Rd(inv)
BlockchainExpected(inv) ==
    LET o == inv.opts  b == BlockOf(inv) IN
    IF ~b.ok THEN Fail ELSE Ok(Wr(IF o.header THEN Take(b.v, 80) ELSE b.v, o.outf))
BlockJ(d) == [hdr |-> d.hdr, txs |-> [i \in 1..Len(d.txs) |-> [t |-> TxJ(d.txs[i].t), raw |-> d.txs[i].raw]]]
BlockchainDecJ(inv) ==
    LET o == inv.opts  b == BlockOf(inv) IN
    IF ~b.ok THEN Fail
    ELSE IF o.header
         THEN (IF Len(b.v) < 80 THEN Fail
               ELSE Ok([hdr |-> BK!HeaderDeser(Take(b.v, 80)).v, txs |-> <<>>]))
         ELSE LET d == BK!BlockDeser(b.v) IN IF d.ok THEN Ok(BlockJ(d.v)) ELSE Fail
(* open: heights above 0 ("not implemented"); input shorter than a header when nothing is decoded; --header-only *)
(* --decode of something that is a header but not a whole block                                                 *)
BlockchainOpen(inv) ==
    LET o == inv.opts IN
    \/ (o.hasheight /\ o.height # 0)
    \/ (~o.hasheight /\ LET b == Rd(inv) IN
                        b.ok /\ (IF o.decode THEN o.header /\ Len(b.v) >= 80 /\ ~BK!BlockDeser(b.v).ok
                                 ELSE Len(b.v) < 80))

(* ------------------------------------------------------------- the dispatch *)
ReadsFormatted(inv) ==
    LET o == inv.opts IN
    CASE inv.cmd \in HashCmds \cup {"addr", "pubkey", "sig"} -> TRUE
      [] inv.cmd \in {"base58", "wif"}  -> ~o.decode
      [] inv.cmd = "bech32"             -> ~o.decode
      [] inv.cmd = "mnemonic"           -> o.mode = "from-entropy"
      [] inv.cmd = "tx"                 -> o.decode
      [] inv.cmd = "blockchain"         -> ~o.hasheight
      [] OTHER                          -> FALSE

(* what the invocation prints: "bytes" (Expected), "json" (ExpectedJ) or "status" (ExpectedS) *)
Produces(inv) ==
    LET o == inv.opts IN
    CASE inv.cmd \in {"wif", "bech32", "script", "tx", "blockchain"} /\ o.decode -> "json"
      [] inv.cmd = "sig" /\ o.verify -> "status"
      [] OTHER -> "bytes"

Expected(inv) ==
    LET o == inv.opts IN
    CASE inv.cmd \in HashCmds   -> HashExpected(inv)
      [] inv.cmd = "base58"     -> Base58Expected(inv)
      [] inv.cmd = "bech32"     -> Bech32Enc(inv)
      [] inv.cmd = "addr"       -> AddrExpected(inv)
      [] inv.cmd = "wif"        -> WifEncExpected(inv)
      [] inv.cmd = "pubkey"     -> PubkeyExpected(inv)
      [] inv.cmd = "key"        -> KeyExpected(inv)
      [] inv.cmd = "mnemonic"   -> MnemonicExpected(inv)
      [] inv.cmd = "hd"         -> HdExpected(inv)
      [] inv.cmd = "script"     -> ScriptEncExpected(inv)
      [] inv.cmd = "sig"        -> SigExpected(inv)
      [] inv.cmd = "tx"         -> TxBuildExpected(inv)
      [] inv.cmd = "blockchain" -> BlockchainExpected(inv)

ExpectedJ(inv) ==
    CASE inv.cmd = "wif"        -> WifDecJ(inv)
      [] inv.cmd = "bech32"     -> Bech32DecJ(inv)
      [] inv.cmd = "script"     -> ScriptDecJ(inv)
      [] inv.cmd = "tx"         -> TxDecJ(inv)
      [] inv.cmd = "blockchain" -> BlockchainDecJ(inv)

Unconstrained(inv) ==
    LET o == inv.opts IN
    \/ (ReadsFormatted(inv) /\ ReadOpen(inv.input, o.inf))
    \/ CASE inv.cmd = "bech32"     -> o.decode /\ Bech32DecOpen(inv)
         [] inv.cmd = "wif"        -> o.decode /\ WifDecOpen(inv)
         [] inv.cmd = "mnemonic"   -> o.mode \in {"to-entropy", "to-seed", "to-master-key"} /\ NonAscii(inv.input)
         [] inv.cmd = "hd"         -> HdOpen(inv)
         [] inv.cmd = "script"     -> IF o.decode THEN ScriptDecOpen(inv) ELSE ScriptEncOpen(inv)
         [] inv.cmd = "sig"        -> IF o.verify THEN SigVerifyOpen(inv) ELSE SigOpen(inv)
         [] inv.cmd = "tx"         -> IF o.decode THEN TxDecOpen(inv) ELSE TxBuildOpen(inv)
         [] inv.cmd = "blockchain" -> BlockchainOpen(inv)
         [] OTHER                  -> FALSE

(* why an invocation that must fail is invalid (only used to name clauses) *)
FailReason(inv) ==
    LET o == inv.opts IN
    CASE inv.cmd = "bech32" /\ ~o.decode ->
           IF ~HrpValid(o.hrp) THEN "hrp" ELSE IF o.haswv /\ o.wv \notin 0..16 THEN "witness-version" ELSE "longer-than-90"
      [] inv.cmd = "addr" -> IF o.haswv THEN "witness-program" ELSE "hash-length"
      [] inv.cmd = "tx" /\ ~o.decode -> IF o.argsok THEN "txid-length" ELSE "arguments"
      [] inv.cmd \in {"pubkey", "wif", "sig"} /\ Produces(inv) = "bytes" -> "key"
      [] OTHER -> "input"

(* refusing is acceptable as well: an --hrp with capitals (BIP173: encoders output lower case only) *)
MayFail(inv) == inv.cmd = "bech32" /\ ~inv.opts.decode /\ HasUpper(inv.opts.hrp)

(* further acceptable outputs (given the canonical output v): --print where the rendering already ends with a *)
(* newline; the mnemonic commands end their line whether or not --print is given                              *)
AltOutputs(inv, v) ==
    LET o == inv.opts IN
    CASE inv.cmd = "base58" /\ o.decode /\ o.print /\ o.outf # "raw" -> {Append(v, NL)}
      [] inv.cmd = "mnemonic" /\ o.mode \in {"generate", "from-entropy"} /\ ~o.print -> {Front(v)}
      [] OTHER -> {}
=============================================================================
