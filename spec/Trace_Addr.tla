----------------------------- MODULE Trace_Addr -----------------------------
(***************************************************************************)
(* Stage C for C08 at real size (cfg: Big = TRUE, secp256k1, Native        *)
(* SHA-256): recorded calls of bits.to_bitcoin_address and                 *)
(* bits.script.scriptpubkey are judged by Addr.tla.                        *)
(*   rt   scriptpubkey(to_bitcoin_address(kind, net, payload)): the        *)
(*        library's own address, turned back into a script, must be the    *)
(*        template for that kind committing to that payload                *)
(*   spk  scriptpubkey(bytes) for an arbitrary byte string (public keys,   *)
(*        addresses built by the harness, malformed / corrupted input)     *)
(***************************************************************************)
EXTENDS Addr, Secp256k1, Json, IOUtils, TLC
Trace == JsonDeserialize(IOEnv.TRACE_FILE)
VARIABLE l

RtVerdict(e) ==
    LET want == AddrEncode(e.kind, e.ver, e.net, e.payload) IN
    IF ~want.ok THEN "ok"                                  \* payload the property does not quantify over
    ELSE IF ~e.aok THEN "address-encoder-refuses-valid-payload"
    ELSE IF e.addr # want.v THEN "address-wrong"
    ELSE IF ~e.sok THEN "own-address-refused"
    ELSE IF e.spk # Template(e.kind, e.ver, e.payload) THEN "own-address-wrong-script"
    ELSE "ok"

SpkVerdict(e) ==
    LET want == ScriptPubKeyOf(e.a) IN
    IF Unconstrained(e.a) THEN "ok"                        \* known version byte, payload not a 20-byte hash
    ELSE IF want.ok THEN
        IF ~e.ok THEN "valid-" \o InputClass(e.a) \o "-refused"
        ELSE IF e.r # want.v THEN "wrong-script-for-" \o InputClass(e.a)
        ELSE "ok"
    ELSE IF e.ok THEN "invalid-input-mapped-to-script"
    ELSE "ok"

Verdict(e) ==
    CASE e.op = "rt"  -> RtVerdict(e)
      [] e.op = "spk" -> SpkVerdict(e)
      [] OTHER -> "unknown-op"

Init == l = 1
Next == /\ l <= Len(Trace)
        /\ PrintT(<<"V", Trace[l].id, Verdict(Trace[l])>>)
        /\ l' = l + 1
=============================================================================
