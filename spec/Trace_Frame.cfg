CONSTANTS Magic <- TraceMagic  SpinOnEOF = FALSE
INIT TInit
NEXT TNext
CHECK_DEADLOCK FALSE
