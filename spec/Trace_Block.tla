---------------------------- MODULE Trace_Block ----------------------------
(* Stage C (C15): recorded calls of the block functions judged by Block.tla     *)
(* (native = TRUE: real SHA-256).                                               *)
(*   hdr      [f (header fields as bytes), ok, r]          block_header          *)
(*   hdrdeser [b, ok, f]                                    block_header_deser    *)
(*   blockser [hdr, raws, ok, r]                            block_ser             *)
(*   blockdeser [b, ok, f, txs = <<[raw, txid]>>]           block_deser           *)
(*   mined    [height, prev, bits, spk, regtest, mempool, ok, block]  mine_block: *)
(*            the block handed to submitblock, given the scripted node state     *)
(*   genesis  [block, hash]  published constant (spec self-test)                 *)
EXTENDS Block, Json, IOUtils, TLC
Trace == JsonDeserialize(IOEnv.TRACE_FILE)
VARIABLE l
RealH(a, b) == Hash256(a \o b)
MK == INSTANCE Merkle WITH H <- RealH, row <- <<>>, lvl <- 0
CB == INSTANCE Coinbase

FieldsOf(f) == Header(f.version, f.prev, f.merkle, f.time, f.bits, f.nonce)

VerdictDeser(e) ==
    LET d == BlockDeser(e.b) IN
    IF d.ok # e.ok THEN (IF d.ok THEN "block-deser-rejects-valid" ELSE "block-deser-accepts-invalid")
    ELSE IF ~d.ok THEN "ok"
    ELSE IF FieldsOf(e.f) # d.v.hdr THEN "block-header-fields"
    ELSE IF Len(e.txs) # Len(d.v.txs) THEN "block-tx-count"
    ELSE IF \E i \in 1..Len(e.txs) : e.txs[i].raw # d.v.txs[i].raw THEN "block-tx-raw"
    ELSE IF \E i \in 1..Len(e.txs) : e.txs[i].txid # d.v.txs[i].txid THEN "block-tx-id"
    ELSE "ok"

(* mine_block: the submitted block must be a well-formed successor of the scripted tip *)
VerdictMined(e) ==
    IF ~e.ok THEN "mined-raised"
    ELSE LET d == BlockDeser(e.block) IN
    IF ~d.ok THEN "mined-unparseable"
    ELSE LET txs  == d.v.txs
             n    == Len(txs)
             h    == e.height + 1
             iv   == IF e.regtest THEN CB!RegtestInterval ELSE CB!MainInterval
             segw == \E i \in 1..Len(e.mempool) : LET t == TxDeser(e.mempool[i]) IN t.ok /\ HasWitness(t.v.t)
         IN IF n # 1 + Len(e.mempool) THEN "mined-tx-count"
            ELSE IF \E i \in 1..Len(e.mempool) : txs[i + 1].raw # e.mempool[i] THEN "mined-mempool-txs"
            ELSE IF d.v.hdr.prev # e.prev THEN "mined-prev-hash"
            ELSE IF d.v.hdr.bits # e.bits THEN "mined-bits"
            ELSE IF d.v.hdr.merkle # MK!Reduce([i \in 1..n |-> txs[i].txid]) THEN "mined-merkle-root"
            ELSE LET cb == txs[1].t IN
                 IF Len(cb.ins) # 1 \/ cb.ins[1].txid \o cb.ins[1].vout # CB!NullOutpoint THEN "cb-outpoint"
                 ELSE IF Take(cb.ins[1].script, Len(CB!HeightPush(h))) # CB!HeightPush(h) THEN "cb-height-push"
                 ELSE IF Len(cb.ins[1].script) > 100 THEN "cb-script-over-100-accepted"
                 ELSE IF Len(cb.outs) = 0 \/ cb.outs[1].script # e.spk THEN "cb-output-script"
                 ELSE IF cb.outs[1].value # BigToLE(CB!Subsidy(h, iv, CB!FiftyBtc), 8) THEN "cb-default-reward-not-subsidy"
                 ELSE IF ~segw THEN "ok"
                 ELSE LET wroot  == MK!Reduce([i \in 1..n |-> IF i = 1 THEN Rep(0, 32) ELSE txs[i].wtxid])
                          commit == Hash256(wroot \o CB!ReservedValue)
                      IN IF ~\E k \in 1..Len(cb.outs) : cb.outs[k] = TxOut(Rep(0, 8), CB!CommitmentSpk(commit))
                         THEN "cb-commitment-output"
                         ELSE IF cb.wit # << <<CB!ReservedValue>> >> THEN "cb-reserved-witness"
                         ELSE "ok"

Verdict(e) ==
    CASE e.op = "hdr" ->
           IF ~e.ok THEN "header-raised"
           ELSE IF e.r # HeaderSer(FieldsOf(e.f)) THEN "header-bytes" ELSE "ok"
      [] e.op = "hdrdeser" ->
           LET d == HeaderDeser(e.b) IN
           IF d.ok # e.ok THEN (IF d.ok THEN "header-deser-rejects-valid" ELSE "header-deser-accepts-invalid")
           ELSE IF d.ok /\ FieldsOf(e.f) # d.v THEN "header-fields" ELSE "ok"
      [] e.op = "blockser" ->
           IF ~e.ok THEN "block-ser-raised"
           ELSE IF e.r # BlockSerRaw(e.hdr, e.raws) THEN "block-ser-bytes" ELSE "ok"
      [] e.op = "blockdeser" -> VerdictDeser(e)
      [] e.op = "mined" -> VerdictMined(e)
      [] e.op = "genesis" ->
           LET d == BlockDeser(e.block) IN
           IF ~d.ok \/ Len(d.v.txs) # 1 THEN "genesis-parse"
           ELSE IF BlockHash(d.v.hdr) # e.hash THEN "genesis-hash"
           ELSE IF d.v.hdr.merkle # MK!Reduce(<<d.v.txs[1].txid>>) \/ d.v.hdr.merkle # e.merkle THEN "genesis-merkle"
           ELSE IF BlockSer(d.v.hdr, <<d.v.txs[1].t>>) # e.block THEN "genesis-reser"
           ELSE "ok"
      [] OTHER -> "unknown-op"

Init == l = 1
Next == /\ l <= Len(Trace)
        /\ PrintT(<<"V", Trace[l].id, Verdict(Trace[l])>>)
        /\ l' = l + 1
=============================================================================
