------------------------------- MODULE MC_Addr -------------------------------
(***************************************************************************)
(* Stage A for C08: the dispatcher ScriptPubKeyOf as an exhaustive         *)
(* decision table over concrete representatives of every input class.      *)
(* Bech32 is at its real parameters; SEC1 keys live on a small curve (Big  *)
(* = FALSE, 32-byte coordinates as in SEC1) so that ALL its points can be  *)
(* enumerated; Base58Check uses whatever Sha256 is loaded (toy body in the *)
(* pure stage-A run, the real hash in the row-generating run for stage B). *)
(*   rt      kind x network x payload: ScriptPubKeyOf(AddrEncode(x)) =     *)
(*           Template(x)                                                   *)
(*   key     every curve point, compressed and uncompressed -> P2PK        *)
(*   badkey  malformed key buffers (length/prefix mismatch, unknown        *)
(*           prefix, x >= p, off-curve, no square root, truncated) refused *)
(*   b58ver  Base58Check of a 20-byte hash with every version byte:        *)
(*           template for the four known ones, refused otherwise           *)
(*   bad     corrupted / malformed addresses and garbage refused           *)
(***************************************************************************)
EXTENDS Addr, TLC
CONSTANTS WitVers, WitLens, B58Vers, EmitRows, Deviation
VARIABLE c

Contents == {"zero", "ones", "mix"}
Payload(n, ct) == CASE ct = "zero" -> Rep(0, n)
                    [] ct = "ones" -> Rep(255, n)
                    [] ct = "mix"  -> [i \in 1..n |-> ((i * 37) + 11) % 256]

(* the dispatcher under test, with optional seeded faults for the vacuity guard *)
Spk(x) == LET r == ScriptPubKeyOf(x) IN
          IF Deviation = "witlen" /\ r.ok /\ Classify(x) /\ Len(r.v) \notin {22, 34} THEN Fail      \* F14-like
          ELSE IF Deviation = "keylen" /\ ~r.ok /\ Len(x) = 65 /\ x[1] \in {2, 3} THEN Ok(P2PK(x))  \* F4-like
          ELSE IF Deviation = "anyver" /\ ~r.ok /\ IsCheck(x) THEN Ok(P2PKH(Tail(DecCheck(x).v)))
          ELSE r

(* ---- cases ---- *)
LensOf(ver) == IF ver = 0 THEN {20, 32} ELSE WitLens
RtB58   == [k : {"rt"}, kind : {"p2pkh", "p2sh"}, ver : {0}, net : Nets, n : {20}, ct : Contents]
RtWit(ver) == [k : {"rt"}, kind : {"wit"}, ver : {ver}, net : Nets, n : LensOf(ver), ct : Contents]

Points == {q \in (0..(CP - 1)) \X (0..(CP - 1)) : OnCurve(q[1], q[2])}
KeyCases == [k : {"key"}, q : Points, comp : BOOLEAN]

Coord(v) == BE(v, 32)
BadBuffers(q) ==
    LET x == Coord(q[1])  y == Coord(q[2]) IN
    {<<4>> \o x \o Coord(v) : v \in {w \in 0..(CP - 1) : ~OnCurve(q[1], w)}}   \* off curve (every wrong y)
    \cup
    {<<2>> \o x \o y, <<3>> \o x \o y, <<4>> \o x,                         \* length does not match the prefix
     <<4>> \o Coord(q[1] + CP) \o y, <<4>> \o x \o Coord(q[2] + CP),        \* coordinates not reduced
     <<2>> \o Coord(q[1] + CP), <<3>> \o Coord(q[1] + CP),
     <<0>> \o x, <<1>> \o x, <<5>> \o x, <<6>> \o x \o y, <<7>> \o x \o y, <<0>> \o x \o y,
     <<4>> \o x \o Front(y), <<4>> \o x \o y \o <<0>>, <<2>> \o Front(x), <<3>> \o x \o <<0>>, x, x \o y}
NoRootX == {v \in 0..(CP - 1) : ~HasSqrt(Rhs(v))}
BadKeyCases == [k : {"badkey"}, b : UNION {BadBuffers(q) : q \in Points}
                                   \cup {<<pf>> \o Coord(v) : pf \in {2, 3}, v \in NoRootX}]

B58Cases == [k : {"b58ver"}, v : B58Vers, ct : Contents]

A0 == AddrEncode("p2pkh", 0, "mainnet", Payload(20, "mix")).v
W0 == AddrEncode("wit", 0, "testnet", Payload(20, "mix")).v
W1 == AddrEncode("wit", 1, "regtest", Payload(32, "mix")).v
Subst(s, i, ch) == [s EXCEPT ![i] = IF s[i] = ch THEN ch + 1 ELSE ch]
BadStrings ==
    {<<>>, <<0>>, <<49>>, <<98, 99, 49>>, Payload(20, "mix"), Payload(33, "ones"), Payload(65, "zero")}
    \cup {Subst(A0, i, 50) : i \in 1..Len(A0)}                             \* Base58Check, one character changed
    \cup {Front(A0), A0 \o <<49>>, <<49>> \o A0}
    \cup {Subst(W0, i, 113) : i \in 4..Len(W0)} \cup {Subst(W1, i, 112) : i \in 6..Len(W1)}
    \cup {BechEncode(HrpOf("mainnet"), <<v>> \o ConvertBits8to5(Payload(20, "mix")), IF v = 0 THEN Bech32mConst ELSE Bech32Const)
            : v \in 0..16}                                                 \* wrong checksum constant
    \cup {BechEncode(<<116, 99>>, <<0>> \o ConvertBits8to5(Payload(20, "mix")), Bech32Const)}       \* hrp "tc"
    \cup {BechEncode(HrpOf("mainnet"), <<v>> \o ConvertBits8to5(Payload(20, "mix")), Bech32mConst) : v \in 17..31}
    \cup {BechEncode(HrpOf("mainnet"), <<vn[1]>> \o ConvertBits8to5(Payload(vn[2], "mix")), ConstOfVersion(vn[1]))
            : vn \in {w \in {0, 1, 16} \X {0, 1, 19, 21, 33, 41} : ~ValidProgram(w[1], w[2])}}   \* length not allowed
BadCases == [k : {"bad"}, s : BadStrings]

Init == c \in [k : {"group"}, g : 0..20]
Next == /\ c.k = "group"
        /\ c' \in (CASE c.g \in WitVers -> RtWit(c.g)
                     [] c.g = 17 -> RtB58 \cup KeyCases
                     [] c.g = 18 -> BadKeyCases
                     [] c.g = 20 -> BadCases
                     [] OTHER -> {})
                  \cup {x \in B58Cases : x.v % 21 = c.g}            \* spread over the groups (parallel workers)

(* ---- properties ---- *)
RoundTrip == c.k = "rt" =>
    LET p == Payload(c.n, c.ct)
        a == AddrEncode(c.kind, c.ver, c.net, p)
    IN a.ok /\ Spk(a.v) = Ok(Template(c.kind, c.ver, p))
KeyToP2PK == c.k = "key" =>
    LET pk == Sec1Enc(c.q, c.comp) IN
    /\ Spk(pk) = Ok(<<Len(pk)>> \o pk \o <<172>>)
    /\ Len(pk) = IF c.comp THEN 33 ELSE 65
MalformedKeyRefused == c.k = "badkey" => ~Spk(c.b).ok
VersionByteDecides == c.k = "b58ver" =>
    LET h == Payload(20, c.ct)
        r == Spk(EncCheck(<<c.v>> \o h))
    IN CASE c.v \in {0, 111} -> r = Ok(<<118, 169, 20>> \o h \o <<136, 172>>)
         [] c.v \in {5, 196} -> r = Ok(<<169, 20>> \o h \o <<135>>)
         [] OTHER -> ~r.ok
GarbageRefused == c.k = "bad" => ~Spk(c.s).ok /\ InputClass(c.s) = "none"
(* a script is produced only for one of the three valid input kinds *)
OnlyValidKinds == c.k \in {"key", "badkey", "bad"} =>
    LET x == CASE c.k = "key" -> Sec1Enc(c.q, c.comp) [] c.k = "badkey" -> c.b [] OTHER -> c.s
    IN Spk(x).ok => InputClass(x) # "none"

Row == LET p == Payload(c.n, c.ct)  a == AddrEncode(c.kind, c.ver, c.net, p).v
       IN <<"R", c.kind, c.ver, c.net, p, a, Template(c.kind, c.ver, p)>>
Emit == (EmitRows /\ c.k = "rt") => PrintT(Row)
=============================================================================
