CONSTANTS Big = FALSE CP = 43 CB = 7 CN = 31 CGx = 2 CGy = 12
SignMsgs = {0,1,2}
SignAuxs = {0,1}
VerMsgs = {2}
CountPks = {}
LenDs = {1,2,30}
EmitRows = TRUE
Dev = "none"
INIT Init
NEXT Next
INVARIANT SignDomain
INVARIANT SignSound
INVARIANT VerifyExact
INVARIANT WhyConsistent
INVARIANT LiftExact
INVARIANT OneSPerR
INVARIANT LenStrict
INVARIANT Emit
CHECK_DEADLOCK FALSE
