------------------------------ MODULE MC_Bip32 ------------------------------
(***************************************************************************)
(* Stage A for C09 on a small curve (Big = FALSE, toy HMAC, I_L reduced to *)
(* 0..CN+3): case-style model.  Cases are successors of "group" states so  *)
(* that all workers evaluate them; the successor relation is split into    *)
(* named actions by OUTCOME CLASS, and the Census "invariant" prints the   *)
(* class of every case, so that the harness can require that the branches  *)
(* "I_L >= n", "child key = 0 / child point = infinity", "invalid master"  *)
(* and every rejection reason are really taken (vacuity guard; TLC's own   *)
(* -coverage is not usable here: instrumenting the EC recursion exhausts   *)
(* the heap).                                                              *)
(*   ckd     (k, c, i)  all private keys x 3 chain codes x boundary indices *)
(*   master  seed       master key rule                                     *)
(*   xk      extended key x index: bookkeeping, xkey-level commutation,     *)
(*           serialisation round trip (private and neutered)                *)
(*   deser   valid payload x mutation class: the rejection table            *)
(*   str     Base58Check level: round trip, bad checksum, wrong length      *)
(* Dev = "pub-no-il-check" enables a named deviation of CKDpub (self-test:  *)
(* TLC must then report Commute violated).                                  *)
(***************************************************************************)
EXTENDS Bip32, TLC, FiniteSets
CONSTANTS CCs, NSeeds, Dev
VARIABLE c

Idx   == {<<0, 0, 0, 0>>, <<0, 0, 0, 1>>, <<127, 255, 255, 255>>, <<128, 0, 0, 0>>, <<128, 0, 0, 1>>, <<255, 255, 255, 255>>}
CC(j) == [t \in 1..32 |-> ((j * 37) + (t * 11)) % 256]
SeedBytes(s) == [t \in 1..16 |-> ((s * 29) + (t * 7)) % 256]

(* the deviation: CKDpub that forgets the I_L >= n test *)
CKDpubNoCheck(K, c0, i) ==
    IF Hardened(i) THEN Fail
    ELSE LET h == HmacSplit(c0, PubData(K, i))  Ki == PointAdd(ScalarMul(h.il, G), K)
         IN IF IsInf(Ki) THEN Fail ELSE Ok([K |-> Ki, c |-> h.ir])
PubCkd(K, c0, i) == IF Dev = "pub-no-il-check" THEN CKDpubNoCheck(K, c0, i) ELSE CKDpub(K, c0, i)

(* ---- cases ---- *)
CkdCases(k)  == [k : {"ckd"}, d : {k}, c : CCs, i : Idx]
XkCases(k)   == [k : {"xk"}, d : {k}, c : {1}, i : Idx, depth : {0, 1, 254, 255}, net : Nets]
MasterCases  == [k : {"master"}, s : 0..(NSeeds - 1)]
Bases        == {XKey(TRUE, net, dp[1], dp[2], dp[3], CC(2), d) :
                    net \in Nets, d \in {1, 2, CN - 1}, dp \in {<<0, Zero4, Zero4>>, <<1, <<1, 2, 3, 4>>, <<128, 0, 0, 0>> >>, <<3, Zero4, Zero4>>}}
Muts == {"none", "ver-unknown", "ver-zero", "ver-other-type", "ver-other-net", "prefix-1", "prefix-4", "prefix-255", "prefix-swap",
         "key-zero", "key-n", "key-n+1", "key-n+3", "key-n-1", "pub-off-curve", "pub-x-eq-p", "pub-x-ge-p", "pub-parity",
         "depth0-fp", "depth0-idx", "depth0-clean", "depth7-any", "depth255-any", "len-77", "len-79", "len-0"}
DeserCases   == [k : {"deser"}, x : Bases, pub : BOOLEAN, m : Muts]
StrCases     == [k : {"str"}, x : {b \in Bases : b.key = 2 /\ b.depth # 3}, pub : BOOLEAN]

IL(d)        == HmacSplit(CC(d.c), PrivData(d.d, PubOf(d.d), d.i)).il
CkdClass(d)  == IF ~NLt(IL(d), CN) THEN "il-ge-n"
                ELSE IF (IL(d) + d.d) % CN = 0 THEN "child-zero"
                ELSE IF IL(d) = 0 THEN "il-zero" ELSE "ok"
MasterIL(s)  == HmacSplit(BitcoinSeed, SeedBytes(s)).il

Init == c \in [k : {"group"}, g : 0..(CN - 1)]
Grp(g) == c.k = "group" /\ c.g = g
GK == c.k = "group" /\ c.g > 0
CkdOk        == GK /\ \E d \in CkdCases(c.g) : CkdClass(d) = "ok" /\ c' = d
CkdILZero    == GK /\ \E d \in CkdCases(c.g) : CkdClass(d) = "il-zero" /\ c' = d
CkdILgeN     == GK /\ \E d \in CkdCases(c.g) : CkdClass(d) = "il-ge-n" /\ c' = d
CkdChildZero == GK /\ \E d \in CkdCases(c.g) : CkdClass(d) = "child-zero" /\ c' = d
XkAny        == GK /\ \E d \in XkCases(c.g) : c' = d
MasterOk     == Grp(0) /\ \E d \in MasterCases : MasterIL(d.s) \in 1..(CN - 1) /\ c' = d
MasterZero   == Grp(0) /\ \E d \in MasterCases : MasterIL(d.s) = 0 /\ c' = d
MasterGeN    == Grp(0) /\ \E d \in MasterCases : MasterIL(d.s) >= CN /\ c' = d
DeserAny     == Grp(0) /\ \E d \in DeserCases : c' = d
StrAny       == Grp(0) /\ \E d \in StrCases : c' = d
Next == CkdOk \/ CkdILZero \/ CkdILgeN \/ CkdChildZero \/ XkAny \/ MasterOk \/ MasterZero \/ MasterGeN \/ DeserAny \/ StrAny

(* ---- ckd ---- *)
Priv == CKDpriv(c.d, CC(c.c), c.i)
Pub  == PubCkd(PubOf(c.d), CC(c.c), c.i)
Commute == c.k = "ckd" /\ ~Hardened(c.i) =>
    /\ Priv.ok = Pub.ok                                              \* defined together
    /\ Priv.ok => Neuter(Priv.v.k, Priv.v.c) = Pub.v                 \* N(CKDpriv(k,c,i)) = CKDpub(N(k,c), i)
HardenedFromPublicFails == c.k = "ckd" /\ Hardened(c.i) => ~Pub.ok
(* the invalid cases are exactly the two of the BIP, stated arithmetically; child = 0 iff the public child is infinity *)
FailsExactly == c.k = "ckd" =>
    /\ Priv.ok <=> (IL(c) < CN /\ (IL(c) + c.d) % CN # 0)
    /\ ~Hardened(c.i) /\ IL(c) < CN => ((IL(c) + c.d) % CN = 0 <=> IsInf(PointAdd(ScalarMul(IL(c), G), PubOf(c.d))))
CkdRange == c.k = "ckd" /\ Priv.ok =>
    /\ Priv.v.k \in 1..(CN - 1) /\ Priv.v.k = (IL(c) + c.d) % CN /\ Len(Priv.v.c) = 32
    /\ ~Hardened(c.i) => OnCurve(Pub.v.K[1], Pub.v.K[2])
DataShape == c.k = "ckd" =>
    LET dat == PrivData(c.d, PubOf(c.d), c.i) IN
    /\ Len(dat) = 37 /\ SubSeq(dat, 34, 37) = c.i
    /\ (Hardened(c.i) => dat[1] = 0 /\ NFromBE(SubSeq(dat, 2, 33)) = c.d)
    /\ (~Hardened(c.i) => dat = PubData(PubOf(c.d), c.i) /\ dat[1] \in {2, 3})

(* ---- master ---- *)
MasterRule == c.k = "master" =>
    LET m == Master(SeedBytes(c.s))  il == MasterIL(c.s) IN
    /\ m.ok <=> il \in 1..(CN - 1)
    /\ m.ok => m.v.k = il /\ Len(m.v.c) = 32
    /\ \A net \in Nets : LET x == MasterX(SeedBytes(c.s), net) IN
         x.ok = m.ok /\ (x.ok => x.v = XKey(TRUE, net, 0, Zero4, Zero4, m.v.c, m.v.k))

(* ---- extended keys: one child step ---- *)
X0  == XKey(TRUE, c.net, c.depth, IF c.depth = 0 THEN Zero4 ELSE <<9, 8, 7, 6>>, IF c.depth = 0 THEN Zero4 ELSE <<128, 0, 0, 5>>, CC(c.c), c.d)
XCh == Child(X0, c.i)
XPc == Child(NeuterX(X0), c.i)
Bookkeeping == c.k = "xk" =>
    /\ c.depth = 255 => ~XCh.ok /\ ~XPc.ok
    /\ c.depth < 255 => XCh.ok = CKDpriv(c.d, CC(c.c), c.i).ok
    /\ XCh.ok => /\ XCh.v.depth = c.depth + 1 /\ XCh.v.idx = c.i /\ XCh.v.net = c.net /\ XCh.v.prv
                 /\ XCh.v.fp = Take(Hash160(SerP(PubOf(c.d))), 4)
                 /\ XCh.v.key = CKDpriv(c.d, CC(c.c), c.i).v.k /\ XCh.v.cc = CKDpriv(c.d, CC(c.c), c.i).v.c
XCommute == c.k = "xk" =>
    IF Hardened(c.i) THEN ~XPc.ok
    ELSE XPc.ok = XCh.ok /\ (XCh.ok => XPc.v = NeuterX(XCh.v))
RoundTrip == c.k = "xk" =>
    /\ Len(SerXKey(X0)) = 78 /\ DeserXKey(SerXKey(X0)) = Ok(X0)
    /\ DeserXKey(SerXKey(NeuterX(X0))) = Ok(NeuterX(X0))
    /\ XCh.ok => DeserXKey(SerXKey(XCh.v)) = XCh /\ DeserXKey(SerXKey(NeuterX(XCh.v))) = Ok(NeuterX(XCh.v))

(* ---- the rejection table ---- *)
OtherVer(x) == IF x.net = "main" THEN (IF x.prv THEN VerMainPub ELSE VerMainPrv) ELSE (IF x.prv THEN VerTestPub ELSE VerTestPrv)
NetVer(x)   == IF x.net = "main" THEN (IF x.prv THEN VerTestPrv ELSE VerTestPub) ELSE (IF x.prv THEN VerMainPrv ELSE VerMainPub)
OffX        == CHOOSE x \in 0..(CP - 1) : ~HasSqrt(Rhs(x)) /\ \A y \in 0..(x - 1) : HasSqrt(Rhs(y))
Put(p, at, b) == SubSeq(p, 1, at - 1) \o b \o SubSeq(p, at + Len(b), Len(p))
Mut(x, m) ==
    LET p == SerXKey(x) IN
    CASE m = "none"           -> p
      [] m = "ver-unknown"    -> Put(p, 1, <<4, 136, 178, 31>>)
      [] m = "ver-zero"       -> Put(p, 1, Zero4)
      [] m = "ver-other-type" -> Put(p, 1, OtherVer(x))
      [] m = "ver-other-net"  -> Put(p, 1, NetVer(x))
      [] m = "prefix-1"       -> Put(p, 46, <<1>>)
      [] m = "prefix-4"       -> Put(p, 46, <<4>>)
      [] m = "prefix-255"     -> Put(p, 46, <<255>>)
      [] m = "prefix-swap"    -> Put(p, 46, IF x.prv THEN <<2>> ELSE <<0>>)
      [] m = "key-zero"       -> Put(p, 47, Ser256(0))
      [] m = "key-n"          -> Put(p, 47, Ser256(CN))
      [] m = "key-n+1"        -> Put(p, 47, Ser256(CN + 1))
      [] m = "key-n+3"        -> Put(p, 47, Ser256(CN + 3))
      [] m = "key-n-1"        -> Put(p, 47, Ser256(CN - 1))
      [] m = "pub-off-curve"  -> Put(p, 47, Ser256(OffX))
      [] m = "pub-x-eq-p"     -> Put(p, 47, Ser256(CP))
      [] m = "pub-x-ge-p"     -> Put(p, 47, Ser256(CP + CGx))
      [] m = "pub-parity"     -> Put(p, 46, <<IF p[46] = 2 THEN 3 ELSE IF p[46] = 3 THEN 2 ELSE 0>>)
      [] m = "depth0-fp"      -> Put(p, 5, <<0, 0, 0, 0, 1, 0, 0, 0, 0>>)
      [] m = "depth0-idx"     -> Put(p, 5, <<0, 0, 0, 0, 0, 128, 0, 0, 0>>)
      [] m = "depth0-clean"   -> Put(p, 5, <<0, 0, 0, 0, 0, 0, 0, 0, 0>>)
      [] m = "depth7-any"     -> Put(p, 5, <<7, 0, 0, 0, 0, 255, 255, 255, 255>>)
      [] m = "depth255-any"   -> Put(p, 5, <<255, 1, 0, 0, 0, 0, 0, 0, 0>>)
      [] m = "len-77"         -> Front(p)
      [] m = "len-79"         -> p \o <<0>>
      [] m = "len-0"          -> <<>>
(* what the BIP says about each class (stated independently of DeserReason) *)
Table(x, m) ==
    CASE m \in {"none", "ver-other-net", "depth0-clean", "depth7-any", "depth255-any"} -> "ok"
      [] m \in {"ver-unknown", "ver-zero"} -> "unknown-version"
      [] m \in {"ver-other-type", "prefix-swap"} -> IF (m = "ver-other-type") = x.prv THEN "pubkey-version-with-prvkey" ELSE "prvkey-version-with-pubkey"
      [] m \in {"prefix-1", "prefix-4", "prefix-255"} -> IF x.prv THEN "bad-prvkey-prefix" ELSE "bad-pubkey-prefix"
      [] m = "key-zero" -> IF x.prv THEN "prvkey-zero" ELSE (IF HasSqrt(Rhs(0)) THEN "ok" ELSE "pubkey-not-on-curve")
      [] m \in {"key-n", "key-n+1", "key-n+3"} -> IF x.prv THEN "prvkey-ge-n" ELSE "skip"
      [] m = "key-n-1" -> IF x.prv THEN "ok" ELSE "skip"
      [] m \in {"pub-off-curve", "pub-x-eq-p", "pub-x-ge-p"} -> IF x.prv THEN "skip" ELSE "pubkey-not-on-curve"
      [] m = "pub-parity" -> IF x.prv THEN "skip" ELSE "ok"
      [] m = "depth0-fp" -> "depth0-nonzero-fingerprint"
      [] m = "depth0-idx" -> "depth0-nonzero-childnum"
      [] m \in {"len-77", "len-79", "len-0"} -> "wrong-length"
DX == IF c.pub THEN NeuterX(c.x) ELSE c.x
RejectionTable == c.k = "deser" /\ Table(DX, c.m) # "skip" =>
    LET p == Mut(DX, c.m)  want == Table(DX, c.m) IN
    /\ DeserReason(p) = want
    /\ DeserXKey(p).ok <=> want = "ok"
    /\ DeserXKey(p).ok => SerXKey(DeserXKey(p).v) = p                      \* accepted payloads are canonical
    /\ c.m = "pub-parity" => DeserXKey(p).v = [DX EXCEPT !.key = Neg(DX.key)]
    /\ c.m = "ver-other-net" => DeserXKey(p).v = [DX EXCEPT !.net = IF DX.net = "main" THEN "test" ELSE "main"]

(* ---- census of outcome classes (vacuity guard) ---- *)
Class == CASE c.k = "ckd"    -> CkdClass(c)
           [] c.k = "master" -> (IF MasterIL(c.s) = 0 THEN "il-zero" ELSE IF MasterIL(c.s) >= CN THEN "il-ge-n" ELSE "ok")
           [] c.k = "deser"  -> Table(DX, c.m)
           [] OTHER          -> "any"
Census == c.k # "group" => PrintT(<<"B", c.k, Class>>)

(* ---- Base58Check level (toy SHA-256) ---- *)
StrX == IF c.pub THEN NeuterX(c.x) ELSE c.x
StrLevel == c.k = "str" =>
    LET p == SerXKey(StrX)  s == XKeyStr(StrX)  ck == Cks(p) IN
    /\ DeserXKeyStr(s) = Ok(StrX)
    /\ ~DeserXKeyStr(Enc(p \o <<(ck[1] + 1) % 256, ck[2], ck[3], ck[4]>>)).ok          \* wrong checksum
    /\ ~DeserXKeyStr(Enc(p \o <<ck[1], ck[2], ck[3], (ck[4] + 128) % 256>>)).ok
    /\ ~DeserXKeyStr(EncCheck(Front(p))).ok /\ ~DeserXKeyStr(EncCheck(p \o <<0>>)).ok   \* wrong length, good checksum
    /\ ~DeserXKeyStr(Front(s)).ok /\ ~DeserXKeyStr(<<>>).ok
=============================================================================
