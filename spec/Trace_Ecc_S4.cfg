CONSTANTS Big = FALSE CP = 103 CB = 5 CN = 97 CGx = 2 CGy = 42
INIT Init
NEXT Next
CHECK_DEADLOCK FALSE
