CONSTANTS
ByteAlpha = {0, 255}
MaxBytes = 1
HexAlpha = {48, 102}
MaxHex = 2
MaxBits = 2
ZeroDigit = TRUE
INIT Init
NEXT Next
INVARIANT RoundTrip
CHECK_DEADLOCK FALSE
