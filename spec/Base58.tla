------------------------------- MODULE Base58 -------------------------------
(***************************************************************************)
(* Base58 / Base58Check (C07).  Radix conversion is written on digit       *)
(* arrays (schoolbook long division) and is parametric in the two radices, *)
(* so that the same operators are model-checked exhaustively at small      *)
(* radices (MC_Base58) and evaluated at 256/58 on implementation traces.   *)
(***************************************************************************)
EXTENDS Prim

(* one long-division pass: digits ds (base inB, big-endian) divided by outB *)
RECURSIVE DivPass(_, _, _, _, _)
DivPass(ds, inB, outB, rem, q) ==
    IF ds = <<>> THEN <<q, rem>>
    ELSE LET cur == rem * inB + Head(ds)
         IN DivPass(Tail(ds), inB, outB, cur % outB, Append(q, cur \div outB))

(* big-endian digits without leading zeros, base inB -> base outB *)
RECURSIVE ConvAcc(_, _, _, _)
ConvAcc(ds, inB, outB, acc) ==
    IF ds = <<>> THEN acc
    ELSE LET r == DivPass(ds, inB, outB, 0, <<>>)
         IN ConvAcc(Drop(r[1], LeadingCount(r[1], 0)), inB, outB, <<r[2]>> \o acc)
Conv(ds, inB, outB) == ConvAcc(Drop(ds, LeadingCount(ds, 0)), inB, outB, <<>>)

(* generic: leading zero digits map one-to-one, the rest is radix conversion *)
EncDigits(x, inB, outB) == Rep(0, LeadingCount(x, 0)) \o Conv(x, inB, outB)

(* ---- Bitcoin alphabet (ASCII codes) ---- *)
Alphabet == <<49,50,51,52,53,54,55,56,57,65,66,67,68,69,70,71,72,74,75,76,77,78,80,81,82,83,84,
              85,86,87,88,89,90,97,98,99,100,101,102,103,104,105,106,107,109,110,111,112,113,114,
              115,116,117,118,119,120,121,122>>
InAlphabet(c) == \E i \in 1..58 : Alphabet[i] = c
IndexOf(c) == (CHOOSE i \in 1..58 : Alphabet[i] = c) - 1

Enc(bytes) == LET d == EncDigits(bytes, 256, 58) IN [i \in 1..Len(d) |-> Alphabet[d[i] + 1]]
Dec(str)   == IF \A i \in 1..Len(str) : InAlphabet(str[i])
              THEN Ok(EncDigits([i \in 1..Len(str) |-> IndexOf(str[i])], 58, 256))
              ELSE Fail

Cks(payload)      == Take(Hash256(payload), 4)
EncCheck(payload) == Enc(payload \o Cks(payload))
DecCheck(str) ==
    LET d == Dec(str) IN
    IF ~d.ok \/ Len(d.v) < 4 THEN Fail
    ELSE LET payload == Take(d.v, Len(d.v) - 4)
         IN IF Drop(d.v, Len(d.v) - 4) = Cks(payload) THEN Ok(payload) ELSE Fail
IsCheck(str) == DecCheck(str).ok
=============================================================================
