--------------------------- MODULE Trace_HDWallet ---------------------------
(***************************************************************************)
(* Stage C for the HD wallet extension: histories recorded from the real   *)
(* classes (bits.wallet.hd) are judged against HDWallet.tla at full size   *)
(* (Big = TRUE: secp256k1, real SHA-256 / HMAC-SHA512 / PBKDF2 / NFKD      *)
(* through the Native overrides, the 2048 English words).                  *)
(*                                                                         *)
(* The trace is a sequence of histories [id, script, ev]: script = the     *)
(* draws the scripted secrets.token_bytes would hand out (32 bytes each),  *)
(* ev = the calls in order.  An event records the call (op and arguments,  *)
(* text as code points / ASCII codes, child numbers as ser32), what it     *)
(* returned (res = [ok, v]: v the returned strings), the draws it consumed *)
(* (draws: [ix, n] = n bytes of script[ix]), and AFTER the call: views =   *)
(* what can be observed of EVERY wallet created so far, shared = what is   *)
(* now shared between wallets (class / module attributes that changed).    *)
(*                                                                         *)
(* Each event is one step of the machine: the specification's Apply gives  *)
(* the predicted state and result, Clauses names every difference (the     *)
(* verdict is the list of the clauses that fail, <<>> = conforming), and   *)
(* the state then FOLLOWS THE OBSERVATION, so that one deviation is        *)
(* reported where it happens and the rest of the history is still judged.  *)
(* An observation the specification does not allow is tried against the    *)
(* named deviation ClassLevelMnemonic of HDWallet.tla; the clauses that it *)
(* explains are marked " [ClassLevelMnemonic]" and the state follows it.   *)
(*                                                                         *)
(* Spec self-test events (not implementation traces): vec = a published    *)
(* BIP39 vector (mnemonic, passphrase, seed, root xprv), vecpath = a       *)
(* published BIP32 chain element (seed, path, xprv, xpub), vecaddr = a     *)
(* published (xpub, address) pair.  bip44 = the purpose / coin-type        *)
(* constants of bits.bips.bip44 and slip44 (the only BIP44 code there is). *)
(***************************************************************************)
EXTENDS HDWallet, Secp256k1, Json, IOUtils, TLC
Trace == JsonDeserialize(IOEnv.TRACE_FILE)
VARIABLES h, j, jres

(* the word list of HDWalletWords is the published one *)
WordListOk == Sha256(Concat([i \in 1..2048 |-> EnglishWords[i] \o <<10>>])) = EnglishListSha256
ASSUME WordListOk

CallOf(e) == [op |-> e.op, w |-> e.w, p |-> e.p, s |-> e.s, m |-> e.m, path |-> e.path, key |-> e.key, i |-> e.i]

One(cond, name) == IF cond THEN <<name>> ELSE <<>>
RECURSIVE FirstOf(_)
FirstOf(cs) == IF cs = <<>> THEN <<>> ELSE IF Head(cs) # <<>> THEN Head(cs) ELSE FirstOf(Tail(cs))

ExpectedDraws(st, r, c) == IF r.st.pos = st.pos THEN <<>> ELSE <<[ix |-> st.pos + 1, n |-> c.s \div 8]>>

(* ---- creation: New / FromMnemonic ---- *)
(* v: the new wallet as observed; wp: as predicted; wObs: WalletOf(v.mn, v.pass, ..) - the chain seed -> master -> root   *)
(* keys is judged on the wallet's OWN mnemonic and passphrase, so that a wrong mnemonic is reported as that and only that *)
NewWalletClauses(c, v, wp, wObs) ==
    One(v.mn # wp.mn, IF c.op = "new" THEN "new-mnemonic-not-from-fresh-entropy" ELSE "mnemonic-not-kept")
    \o One(v.pass # wp.pass, "passphrase-not-kept")
    \o (IF ~wObs.ok THEN <<"wallet-of-a-seed-without-master-key">>
        ELSE LET w == wObs.v IN
             One(w.strength # 0 /\ v.strength # w.strength, "strength-is-not-the-entropy-size")
             \o FirstOf(<<One(v.seed # w.seed, "seed-wrong"),
                          One(v.mk # w.mk \/ v.mc # w.mc, "master-key-wrong"),
                          One(v.xprv # w.xprv, "root-xprv-wrong"),
                          One(v.xpub # w.xpub, "root-xpub-wrong")>>))
CreateClauses(e, st, r, c, wObs) ==
    LET n0 == Len(st.wallets)
        nk == IF Len(e.views) < Len(r.st.wallets) THEN Len(e.views) ELSE Len(r.st.wallets)
        nOld == IF nk < n0 THEN nk ELSE n0
    IN One(e.res.ok /\ ~r.out.ok, c.op \o "-accepted-where-the-specification-refuses")
       \o One(~e.res.ok /\ r.out.ok, c.op \o "-raised")
       \o One(Len(e.views) # Len(r.st.wallets), "wallet-count")
       \o One(\E k \in 1..nOld : e.views[k] # Obs(r.st.wallets[k]), "earlier-wallet-changed")
       \o (IF nk = n0 + 1 THEN NewWalletClauses(c, e.views[nk], r.st.wallets[nk], wObs) ELSE <<>>)
       \o One(e.shared # r.st.shared, "shared-state-created")
       \o (IF ~r.out.ok THEN <<>>
           ELSE One(e.draws # ExpectedDraws(st, r, c),
                    IF c.op = "new" THEN "new-does-not-draw-exactly-the-requested-entropy" ELSE "restore-drew-entropy"))

(* ---- queries ---- *)
QueryClauses(e, st, r, c) ==
    (IF r.out.why = "not-an-xpub" THEN <<>>                                     \* p2pkh of a private key: not specified
     ELSE IF e.res.ok /\ ~r.out.ok
          THEN <<IF r.out.why = "hardened-from-public" THEN "hardened-child-derived-from-public-key"
                 ELSE c.op \o "-accepted-where-the-specification-refuses">>
     ELSE IF ~e.res.ok /\ r.out.ok THEN <<c.op \o "-raised">>
     ELSE IF ~r.out.ok THEN <<>>
     ELSE IF Len(e.res.v) # Len(r.out.v) THEN <<c.op \o "-wrong">>
     ELSE IF e.res.v[1] # r.out.v[1] THEN <<c.op \o "-wrong">>
     ELSE IF Len(r.out.v) = 2 /\ e.res.v[2] # r.out.v[2] THEN <<c.op \o "-xpub-wrong">>
     ELSE <<>>)
    \o One(Len(e.views) # Len(st.wallets) \/ \E k \in 1..(IF Len(e.views) < Len(st.wallets) THEN Len(e.views) ELSE Len(st.wallets)) :
                                                  e.views[k] # Obs(st.wallets[k]), "query-changed-a-wallet")
    \o One(e.shared # st.shared, "shared-state-created")
    \o One(e.draws # <<>>, "query-drew-entropy")

Clauses(e, st, r, c, wObs) == IF c.op \in CreateOps THEN CreateClauses(e, st, r, c, wObs) ELSE QueryClauses(e, st, r, c)

(* the state after the event: the observation (with the bookkeeping of the prediction where there is one) *)
Follow(e, st, r) ==
    St([k \in 1..Len(e.views) |->
           LET v == e.views[k] IN
           [mn |-> v.mn, pass |-> v.pass, strength |-> v.strength, seed |-> v.seed, mk |-> v.mk, mc |-> v.mc, xprv |-> v.xprv,
            xpub |-> v.xpub, src |-> IF k <= Len(r.st.wallets) THEN r.st.wallets[k].src ELSE GivenSrc(TRUE)]],
       IF e.draws = <<>> THEN st.pos ELSE e.draws[Len(e.draws)].ix,
       e.shared)

(* clauses about the inside of one wallet (judged on its own mnemonic); all the others are about the life cycle *)
Internal == {"strength-is-not-the-entropy-size", "seed-wrong", "master-key-wrong", "root-xprv-wrong", "root-xpub-wrong",
             "wallet-of-a-seed-without-master-key"}
LifeCycle(m) == SelectSeq(m, LAMBDA x : x \notin Internal)
Tagged(m)    == [i \in 1..Len(m) |-> m[i] \o " [ClassLevelMnemonic]"]
Judge(e, st, script) ==
    LET c      == CallOf(e)
        n0     == Len(st.wallets)
        hasNew == c.op \in CreateOps /\ Len(e.views) = n0 + 1
        v      == e.views[n0 + 1]
        wObs   == WalletOf(v.mn, v.pass, GivenSrc(TRUE))             \* evaluated once, and only when a wallet was created
        Memo(m, p, src) == IF hasNew /\ m = v.mn /\ p = v.pass
                           THEN (IF wObs.ok THEN Ok([wObs.v EXCEPT !.src = src]) ELSE Fail)
                           ELSE WalletOf(m, p, src)
        rS == ApplyW(st, script, c, FALSE, Memo)
        mS == Clauses(e, st, rS, c, wObs)
    IN IF mS = <<>> THEN [verdict |-> <<>>, st |-> Follow(e, st, rS), out |-> rS.out]
       ELSE IF c.op = "from" \/ (c.op = "new" /\ st.shared # NoShared)
            THEN (* does the named deviation explain (some of) it? *)
                 LET rD == ApplyW(st, script, c, TRUE, Memo)
                     mD == Clauses(e, st, rD, c, wObs)
                 IN IF LifeCycle(mS) # <<>> /\ LifeCycle(mD) = <<>>
                    THEN [verdict |-> Tagged(LifeCycle(mS)) \o mD, st |-> Follow(e, st, rD), out |-> rD.out]
                    ELSE [verdict |-> mS, st |-> Follow(e, st, rS), out |-> rS.out]
       ELSE [verdict |-> mS, st |-> Follow(e, st, rS), out |-> rS.out]

(* ---- spec self-test on published vectors ---- *)
VecVerdict(e) ==
    CASE e.op = "vec" ->
           LET sd == Seed(e.m, e.p)  mx == MasterX(sd, "main") IN
           One(sd # e.seed, "vector-seed") \o One(~mx.ok \/ (mx.ok /\ KeyStr(mx.v) # e.xprv), "vector-root-xprv")
           \o One(e.ent # <<>> /\ (MnemonicOfEntropy(e.ent) # Ok(e.m) \/ EntropyOfMnemonic(e.m) # Ok(e.ent)), "vector-mnemonic")
      [] e.op = "vecpath" ->
           LET mx == MasterX(e.seed, "main") IN
           One(~mx.ok \/ (mx.ok /\ PathKeys(mx.v, e.path) # Result(<<e.xprv, e.xpub>>)), "vector-path")
      [] e.op = "vecaddr" ->
           One(ApplyP2pkh(P2pkhCall(e.xpub)) # Result(<<e.addr>>), "vector-address")
      [] e.op = "bip44" ->                                  \* the constants of bits.bips.bip44 / slip44 (ser32)
           One(e.purpose # Bip44Purpose, "bip44-purpose-constant") \o One(e.btc # Slip44Bitcoin, "slip44-bitcoin-coin-type")
           \o One(e.test # Slip44Testnet, "slip44-testnet-coin-type")

IsVec(e) == e.op \in {"vec", "vecpath", "vecaddr", "bip44"}

TInit == /\ h = 1 /\ j = 1 /\ jres = <<>>
         /\ InitWith(IF Len(Trace) >= 1 THEN Trace[1].script ELSE <<>>)
TNext == /\ h <= Len(Trace)
         /\ LET H == Trace[h]  e == H.ev[j] IN
            /\ jres' = IF IsVec(e) THEN [verdict |-> VecVerdict(e), st |-> St(wallets, rng.pos, shared), out |-> out]
                       ELSE Judge(e, St(wallets, rng.pos, shared), H.script)
            /\ PrintT(<<"V", e.id, jres'.verdict>>)
            /\ (j = Len(H.ev) => PrintT(<<"V", H.id, "done">>))
            /\ call' = IF IsVec(e) THEN call ELSE CallOf(e)
            /\ out' = jres'.out
            /\ IF j < Len(H.ev)
               THEN /\ h' = h /\ j' = j + 1
                    /\ wallets' = jres'.st.wallets /\ shared' = jres'.st.shared
                    /\ rng' = [rng EXCEPT !.pos = jres'.st.pos]
               ELSE /\ h' = h + 1 /\ j' = 1                         \* next history: a new process
                    /\ wallets' = <<>> /\ shared' = NoShared
                    /\ rng' = [script |-> IF h < Len(Trace) THEN Trace[h + 1].script ELSE <<>>, pos |-> 0]
=============================================================================
