CONSTANTS Magic <- MainMagic  SpinOnEOF = FALSE
PayLens = {0, 1, 3}  MaxMsgs = 2  FewPrefixes = TRUE  GenOnly = TRUE
SPECIFICATION Spec
INVARIANT TypeOK
INVARIANT InScript
INVARIANT NoBleed
INVARIANT NoOverRead
INVARIANT Exact
INVARIANT CorruptionDetected
INVARIANT Complete
INVARIANT EOFOnlyWhenShort
PROPERTY EachCallEnds
PROPERTY AllDone
CHECK_DEADLOCK FALSE
