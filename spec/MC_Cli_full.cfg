CONSTANTS
Cmds = {"base","key","pubkey","addr","wif","mnemonic","sig","tx","script","rpc","sha256","ripemd160","hash160","hash256"}
Opts = {"log_level","network","input_format","output_format","rpc_url","rpc_user","rpc_password","rpc_datadir"}
TomlModes = {TRUE, FALSE}
Dev = {}
INIT Init
NEXT Next
INVARIANT PolicyHolds
INVARIANT ExplicitKept
INVARIANT OthersDefault
INVARIANT OperatorForm
INVARIANT SourceSound
CHECK_DEADLOCK FALSE
