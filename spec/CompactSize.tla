---------------------------- MODULE CompactSize ----------------------------
(***************************************************************************)
(* Bitcoin CompactSize unsigned integers (C05; reused by Script, Tx,       *)
(* Block, P2P codecs).                                                     *)
(*                                                                         *)
(* Numbers are LITTLE-ENDIAN digit sequences ("byte-numbers"): values can  *)
(* exceed TLC's 32-bit integers.  High-order zero digits are insignificant *)
(* (<<5>> = <<5,0,0>>); the canonical form of a value is CsStrip(v), zero  *)
(* is <<>>.  All operators exist radix-parametric (suffix R; digits        *)
(* 0..R-1, the three markers are R-3, R-2, R-1 followed by 2, 4, 8 digits) *)
(* so the same text is model-checked exhaustively at R = 4, 5, 8 and used  *)
(* at R = 256.                                                             *)
(*                                                                         *)
(*  PUBLIC OPERATORS (R = 256)                                             *)
(*   CsStrip(v)        canonical form of a byte-number (drop high zeros)   *)
(*   CsEnc(valueLE)    Ok(bytes) canonical (shortest) encoding; Fail when  *)
(*                     the value needs more than 8 bytes (> 2^64-1)        *)
(*   CsEncInt(neg, magLE)  same for a signed integer given as sign +       *)
(*                     magnitude: negative non-zero -> Fail                *)
(*   CsDecAny(bytes)   Ok([v |-> valueLE (stripped), n |-> bytes consumed, *)
(*                     rest |-> remaining bytes]); Fail when truncated /   *)
(*                     empty.  Accepts non-canonical encodings.            *)
(*   CsDec(bytes)      as CsDecAny but Fail on a non-canonical encoding    *)
(*                     (Bitcoin Core's ReadCompactSize)                    *)
(*   CsDecAt(b, pos)   CsDec on the buffer b starting at 1-based index     *)
(*                     pos, without copying: Ok([v, n]) / Fail             *)
(*  SMALL-INT HELPERS (values < 2^31, e.g. lengths and counts)             *)
(*   NatToLE(n), LEToNat(v), CsFitsNat(v)                                  *)
(*   CsEncNat(n)       the encoding itself (a byte sequence, never fails)  *)
(*   CsDecNat(bytes)   Ok([v |-> TLC int, n, rest]) / Fail (also Fail when *)
(*                     the decoded value does not fit a TLC int)           *)
(*   CsDecNatAt(b, pos)  Ok([v |-> int, n]) / Fail                         *)
(***************************************************************************)
EXTENDS Prim

RECURSIVE CsSigLen(_, _)
CsSigLen(v, n) == IF n = 0 \/ v[n] # 0 THEN n ELSE CsSigLen(v, n - 1)
CsStrip(v) == SubSeq(v, 1, CsSigLen(v, Len(v)))
CsPad(s, w) == s \o Rep(0, w - Len(s))

CsEncR(v, R) ==
    LET s == CsStrip(v)
        n == Len(s)
    IN IF n = 0 THEN Ok(<<0>>)
       ELSE IF n = 1 /\ s[1] <= R - 4 THEN Ok(s)
       ELSE IF n <= 2 THEN Ok(<<R - 3>> \o CsPad(s, 2))
       ELSE IF n <= 4 THEN Ok(<<R - 2>> \o CsPad(s, 4))
       ELSE IF n <= 8 THEN Ok(<<R - 1>> \o CsPad(s, 8))
       ELSE Fail

CsWidthR(h, R) == IF h = R - 3 THEN 2 ELSE IF h = R - 2 THEN 4 ELSE IF h = R - 1 THEN 8 ELSE 0

(* decode at position pos of buffer b (no copy of the remainder) *)
CsDecAnyAtR(b, pos, R) ==
    IF pos > Len(b) THEN Fail
    ELSE LET h == b[pos]
             w == CsWidthR(h, R)
         IN IF w = 0 THEN Ok([v |-> CsStrip(<<h>>), n |-> 1])
            ELSE IF pos + w > Len(b) THEN Fail
            ELSE Ok([v |-> CsStrip(SubSeq(b, pos + 1, pos + w)), n |-> 1 + w])

CsDecAtR(b, pos, R) ==
    LET d == CsDecAnyAtR(b, pos, R)
    IN IF d.ok /\ CsEncR(d.v.v, R) = Ok(SubSeq(b, pos, pos + d.v.n - 1)) THEN d ELSE Fail

CsWithRest(b, d) == IF d.ok THEN Ok([v |-> d.v.v, n |-> d.v.n, rest |-> Drop(b, d.v.n)]) ELSE Fail
CsDecAnyR(b, R) == CsWithRest(b, CsDecAnyAtR(b, 1, R))
CsDecR(b, R)    == CsWithRest(b, CsDecAtR(b, 1, R))

(* ---- the real radix ---- *)
CsEnc(v)        == CsEncR(v, 256)
CsEncInt(neg, mag) == IF neg /\ CsStrip(mag) # <<>> THEN Fail ELSE CsEnc(mag)
CsDecAny(b)     == CsDecAnyR(b, 256)
CsDec(b)        == CsDecR(b, 256)
CsDecAt(b, pos) == CsDecAtR(b, pos, 256)

(* ---- small integers ---- *)
RECURSIVE NatToLE(_)
NatToLE(n) == IF n = 0 THEN <<>> ELSE <<n % 256>> \o NatToLE(n \div 256)
LEToNat(v) == FromLE(v)
CsFitsNat(v) == LET s == CsStrip(v) IN Len(s) <= 3 \/ (Len(s) = 4 /\ s[4] <= 127)
CsEncNat(n) == CsEnc(NatToLE(n)).v
CsDecNatAt(b, pos) ==
    LET d == CsDecAt(b, pos)
    IN IF d.ok /\ CsFitsNat(d.v.v) THEN Ok([v |-> LEToNat(d.v.v), n |-> d.v.n]) ELSE Fail
CsDecNat(b) ==
    LET d == CsDecNatAt(b, 1)
    IN IF d.ok THEN Ok([v |-> d.v.v, n |-> d.v.n, rest |-> Drop(b, d.v.n)]) ELSE Fail
=============================================================================
