---------------------------- MODULE Gen_Coinbase ----------------------------
(* Stage B (C15): TLC tabulates, at the REAL parameters (native big naturals),   *)
(* the BIP34 push and the subsidy on both schedules for a set of heights; the    *)
(* harness replays every row into coinbase_txin / coinbase_tx.                   *)
EXTENDS Coinbase, Json, IOUtils, TLC, SequencesExt
CONSTANTS Dense
Max31 == 2147483647
Around(S) == UNION {{b - 1, b, b + 1} : b \in S}
Heights == (0..Dense)
           \cup Around({127, 128, 255, 256, 32767, 32768, 65535, 65536, 8388607, 8388608, 16777216})
           \cup Around({k * RegtestInterval : k \in 1..66})
           \cup Around({k * MainInterval : k \in 1..66})
           \cup {Max31 - 1, Max31}
Rows == SetToSeq({[h |-> h, push |-> HeightPush(h),
                   sub_main |-> BigToLE(Subsidy(h, MainInterval, FiftyBtc), 8),
                   sub_reg  |-> BigToLE(Subsidy(h, RegtestInterval, FiftyBtc), 8)] : h \in Heights})
ASSUME JsonSerialize(IOEnv.OUT_FILE, Rows)
ASSUME PrintT(<<"ROWS", Len(Rows)>>)
=============================================================================
