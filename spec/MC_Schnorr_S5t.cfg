CONSTANTS Big = FALSE CP = 79 CB = 7 CN = 67 CGx = 1 CGy = 18
SignMsgs = {0,1,2}
SignAuxs = {0,1}
VerMsgs = {1}
CountPks = {1,2}
LenDs = {1,2,3,65,66}
EmitRows = TRUE
Dev = "none"
INIT Init
NEXT Next
INVARIANT SignDomain
INVARIANT SignSound
INVARIANT VerifyExact
INVARIANT WhyConsistent
INVARIANT LiftExact
INVARIANT OneSPerR
INVARIANT LenStrict
INVARIANT Emit
CHECK_DEADLOCK FALSE
