CONSTANTS Magic <- MainMagic  SpinOnEOF = TRUE
PayLens = {0, 1, 3}  MaxMsgs = 1  FewPrefixes = TRUE  GenOnly = FALSE
SPECIFICATION Spec
INVARIANT TypeOK
INVARIANT InScript
INVARIANT NoBleed
INVARIANT NoOverRead
INVARIANT Exact
INVARIANT CorruptionDetected
INVARIANT Complete
INVARIANT EOFOnlyWhenShort
PROPERTY EachCallEnds
PROPERTY AllDone
CHECK_DEADLOCK FALSE
