CONSTANTS Big = TRUE
CP <- SecP  CB <- SecB  CN <- SecN  CGx <- SecGx  CGy <- SecGy
Dev = {}
INIT Init
NEXT Next
CHECK_DEADLOCK FALSE
