\* vacuity guard: with the deviation SignalSkipsLast enabled TLC MUST report a violation
CONSTANTS NPeers = 2  MaxMsgs = 1  Kinds = {"ping", "inv"}  Faults = TRUE
MaxStops = 1  MaxIbd = 0  DirectKinds = {}  MaxDirect = 0  Devs = {"SignalSkipsLast"}
SeedSet = {2}  RpcSet = {FALSE}
SPECIFICATION Spec
INVARIANT StoppedMeans
CHECK_DEADLOCK FALSE
