CONSTANTS Big = FALSE CP = 103 CB = 5 CN = 97 CGx = 2 CGy = 42
CCs = {0, 1, 2}
NSeeds = 300
Dev = "none"
INIT Init
NEXT Next
CHECK_DEADLOCK FALSE
