--------------------------------- MODULE Tx ---------------------------------
(***************************************************************************)
(* Bitcoin transactions: serialisation (legacy and BIP141/144), parsing as *)
(* a cursor machine, txid / wtxid (C04, C05; reused by Block, Send).       *)
(*                                                                         *)
(* TRANSACTION RECORD (every field a byte sequence, so nothing exceeds     *)
(* TLC's 32-bit integers; multi-byte numbers are little-endian as on the   *)
(* wire):                                                                  *)
(*   [version  |-> 4 bytes,                                                *)
(*    ins      |-> Seq([txid |-> 32 bytes (internal order), vout |-> 4     *)
(*                      bytes, script |-> bytes, seq |-> 4 bytes]),        *)
(*    outs     |-> Seq([value |-> 8 bytes, script |-> bytes]),             *)
(*    wit      |-> <<>> for a non-witness transaction, otherwise one stack *)
(*                 (Seq(bytes), possibly <<>>) per input,                  *)
(*    locktime |-> 4 bytes]                                                *)
(*                                                                         *)
(* PUBLIC OPERATORS                                                        *)
(*   TxIn(txid, vout, script, seq), TxOut(value, script), MkTx(...)        *)
(*   TxInSer(i), TxOutSer(o)                                               *)
(*   TxSerNoWitness(t)   version, inputs, outputs, locktime (the txid      *)
(*                       preimage: the transaction's OWN sequence numbers) *)
(*   TxSer(t)            = TxSerNoWitness(t) when t.wit = <<>>, otherwise  *)
(*                       the BIP144 form with marker 00, flag 01 and the   *)
(*                       witness stacks before the locktime                *)
(*   Txid(t)  = Hash256(TxSerNoWitness(t));  Wtxid(t) = Hash256(TxSer(t))  *)
(*             (internal byte order, i.e. not reversed)                    *)
(*   HasWitness(t), WellFormedTx(t)                                        *)
(*   TxDeser(bytes)      Ok([t, consumed, rest]) / Fail, consumed \o rest  *)
(*                       = bytes.  Defined by running the cursor machine   *)
(*                       DsInit / DsStep (one step per grammar element:    *)
(*                       Version, InCountOrMarker, Flag, InCount, Input,   *)
(*                       OutCount, Output, WitCount, WitItem, Locktime)    *)
(*                       to completion; MC_Tx takes the same steps as TLC  *)
(*                       actions.                                          *)
(*   TxDeserAt(b, pos)   same on buffer b from 1-based index pos, returns  *)
(*                       Ok([t, pos (next index)]) / Fail (for Block)      *)
(* Parsing is strict like Bitcoin Core: canonical CompactSize only, flag   *)
(* must be 01, a witness serialisation whose stacks are all empty and a    *)
(* witness serialisation with zero inputs are refused.                     *)
(***************************************************************************)
EXTENDS Script

TxIn(txid, vout, script, seq) == [txid |-> txid, vout |-> vout, script |-> script, seq |-> seq]
TxOut(value, script)          == [value |-> value, script |-> script]
MkTx(version, ins, outs, wit, locktime) ==
    [version |-> version, ins |-> ins, outs |-> outs, wit |-> wit, locktime |-> locktime]
EmptyTx == MkTx(<<>>, <<>>, <<>>, <<>>, <<>>)

HasWitness(t) == t.wit # <<>>
WellFormedTx(t) ==
    /\ Len(t.version) = 4 /\ Len(t.locktime) = 4
    /\ Len(t.ins) >= 1
    /\ \A i \in 1..Len(t.ins) : Len(t.ins[i].txid) = 32 /\ Len(t.ins[i].vout) = 4 /\ Len(t.ins[i].seq) = 4
    /\ \A i \in 1..Len(t.outs) : Len(t.outs[i].value) = 8
    /\ HasWitness(t) => /\ Len(t.wit) = Len(t.ins)
                        /\ \E i \in 1..Len(t.wit) : t.wit[i] # <<>>

TxInSer(i)  == i.txid \o i.vout \o CsEncNat(Len(i.script)) \o i.script \o i.seq
TxOutSer(o) == o.value \o CsEncNat(Len(o.script)) \o o.script
TxInsSer(t)  == CsEncNat(Len(t.ins)) \o Concat([i \in 1..Len(t.ins) |-> TxInSer(t.ins[i])])
TxOutsSer(t) == CsEncNat(Len(t.outs)) \o Concat([i \in 1..Len(t.outs) |-> TxOutSer(t.outs[i])])
TxWitSer(t)  == Concat([i \in 1..Len(t.wit) |-> AsmWitness(t.wit[i])])

TxSerNoWitness(t) == t.version \o TxInsSer(t) \o TxOutsSer(t) \o t.locktime
TxSer(t) == IF HasWitness(t)
            THEN t.version \o <<0, 1>> \o TxInsSer(t) \o TxOutsSer(t) \o TxWitSer(t) \o t.locktime
            ELSE TxSerNoWitness(t)

Txid(t)  == Hash256(TxSerNoWitness(t))
Wtxid(t) == Hash256(TxSer(t))

(* ------------------------- the parsing machine ------------------------- *)
(* state: pc, the buffer b, cursor pos (1-based index of the next unread   *)
(* byte), remaining counters, the transaction built so far                 *)
DsInitAt(b, pos) == [pc |-> "Version", b |-> b, pos |-> pos, segwit |-> FALSE,
                     nin |-> 0, nout |-> 0, wi |-> 0, nitems |-> 0, stack |-> <<>>, t |-> EmptyTx]
DsInit(b) == DsInitAt(b, 1)
DsFailed(m)  == [m EXCEPT !.pc = "Fail"]
DsDone(m)    == m.pc \in {"Done", "Fail"}
Avail(m, n)  == m.pos + n - 1 <= Len(m.b)
Bytes(m, n)  == SubSeq(m.b, m.pos, m.pos + n - 1)

AfterInputs(m)  == IF m.nin > 0 THEN "Input" ELSE "OutCount"
AfterOutputs(m) == IF m.nout > 0 THEN "Output" ELSE IF m.segwit THEN "WitCount" ELSE "Locktime"

StepVersion(m) ==
    IF ~Avail(m, 4) THEN DsFailed(m)
    ELSE [m EXCEPT !.t.version = Bytes(m, 4), !.pos = @ + 4, !.pc = "InCountOrMarker"]

(* a zero here is the BIP144 marker, anything else the input count *)
StepInCountOrMarker(m) ==
    LET c == CsDecNatAt(m.b, m.pos) IN
    IF ~c.ok THEN DsFailed(m)
    ELSE IF c.v.v = 0 THEN [m EXCEPT !.segwit = TRUE, !.pos = @ + 1, !.pc = "Flag"]
    ELSE [m EXCEPT !.nin = c.v.v, !.pos = @ + c.v.n, !.pc = "Input"]

StepFlag(m) ==
    IF ~Avail(m, 1) \/ m.b[m.pos] # 1 THEN DsFailed(m)
    ELSE [m EXCEPT !.pos = @ + 1, !.pc = "InCount"]

StepInCount(m) ==
    LET c == CsDecNatAt(m.b, m.pos) IN
    IF ~c.ok \/ c.v.v = 0 THEN DsFailed(m)
    ELSE [m EXCEPT !.nin = c.v.v, !.pos = @ + c.v.n, !.pc = "Input"]

StepInput(m) ==
    IF ~Avail(m, 36) THEN DsFailed(m)
    ELSE LET l == CsDecNatAt(m.b, m.pos + 36) IN
         IF ~l.ok THEN DsFailed(m)
         ELSE LET s == m.pos + 36 + l.v.n IN       \* first script byte
              IF s + l.v.v + 4 - 1 > Len(m.b) THEN DsFailed(m)
              ELSE LET i  == TxIn(SubSeq(m.b, m.pos, m.pos + 31), SubSeq(m.b, m.pos + 32, m.pos + 35),
                                  SubSeq(m.b, s, s + l.v.v - 1), SubSeq(m.b, s + l.v.v, s + l.v.v + 3))
                       m2 == [m EXCEPT !.t.ins = Append(@, i), !.pos = s + l.v.v + 4, !.nin = @ - 1]
                   IN [m2 EXCEPT !.pc = AfterInputs(m2)]

StepOutCount(m) ==
    LET c == CsDecNatAt(m.b, m.pos) IN
    IF ~c.ok THEN DsFailed(m)
    ELSE LET m2 == [m EXCEPT !.nout = c.v.v, !.pos = @ + c.v.n]
         IN [m2 EXCEPT !.pc = AfterOutputs(m2)]

StepOutput(m) ==
    IF ~Avail(m, 8) THEN DsFailed(m)
    ELSE LET l == CsDecNatAt(m.b, m.pos + 8) IN
         IF ~l.ok THEN DsFailed(m)
         ELSE LET s == m.pos + 8 + l.v.n IN
              IF s + l.v.v - 1 > Len(m.b) THEN DsFailed(m)
              ELSE LET o  == TxOut(Bytes(m, 8), SubSeq(m.b, s, s + l.v.v - 1))
                       m2 == [m EXCEPT !.t.outs = Append(@, o), !.pos = s + l.v.v, !.nout = @ - 1]
                   IN [m2 EXCEPT !.pc = AfterOutputs(m2)]

(* witness: one stack per input; wi = number of stacks completed *)
CloseStack(m) ==
    LET m2 == [m EXCEPT !.t.wit = Append(@, m.stack), !.stack = <<>>, !.wi = @ + 1]
    IN [m2 EXCEPT !.pc = IF m2.wi = Len(m2.t.ins) THEN "Locktime" ELSE "WitCount"]

StepWitCount(m) ==
    LET c == CsDecNatAt(m.b, m.pos) IN
    IF ~c.ok THEN DsFailed(m)
    ELSE LET m2 == [m EXCEPT !.nitems = c.v.v, !.pos = @ + c.v.n, !.stack = <<>>]
         IN IF c.v.v = 0 THEN CloseStack(m2) ELSE [m2 EXCEPT !.pc = "WitItem"]

StepWitItem(m) ==
    LET l == CsDecNatAt(m.b, m.pos) IN
    IF ~l.ok THEN DsFailed(m)
    ELSE LET s == m.pos + l.v.n IN
         IF s + l.v.v - 1 > Len(m.b) THEN DsFailed(m)
         ELSE LET m2 == [m EXCEPT !.stack = Append(@, SubSeq(m.b, s, s + l.v.v - 1)), !.pos = s + l.v.v,
                                  !.nitems = @ - 1]
              IN IF m2.nitems = 0 THEN CloseStack(m2) ELSE m2

StepLocktime(m) ==
    IF ~Avail(m, 4) THEN DsFailed(m)
    ELSE IF m.segwit /\ \A i \in 1..Len(m.t.wit) : m.t.wit[i] = <<>> THEN DsFailed(m)   \* superfluous witness record
    ELSE [m EXCEPT !.t.locktime = Bytes(m, 4), !.pos = @ + 4, !.pc = "Done"]

DsStep(m) ==
    CASE m.pc = "Version"         -> StepVersion(m)
      [] m.pc = "InCountOrMarker" -> StepInCountOrMarker(m)
      [] m.pc = "Flag"            -> StepFlag(m)
      [] m.pc = "InCount"         -> StepInCount(m)
      [] m.pc = "Input"           -> StepInput(m)
      [] m.pc = "OutCount"        -> StepOutCount(m)
      [] m.pc = "Output"          -> StepOutput(m)
      [] m.pc = "WitCount"        -> StepWitCount(m)
      [] m.pc = "WitItem"         -> StepWitItem(m)
      [] m.pc = "Locktime"        -> StepLocktime(m)

RECURSIVE DsRun(_)
DsRun(m) == IF DsDone(m) THEN m ELSE DsRun(DsStep(m))

TxDeserAt(b, pos) ==
    LET m == DsRun(DsInitAt(b, pos))
    IN IF m.pc = "Done" THEN Ok([t |-> m.t, pos |-> m.pos]) ELSE Fail
TxDeser(b) ==
    LET r == TxDeserAt(b, 1)
    IN IF r.ok THEN Ok([t |-> r.v.t, consumed |-> SubSeq(b, 1, r.v.pos - 1), rest |-> Drop(b, r.v.pos - 1)])
       ELSE Fail
=============================================================================
