\* thorough tier: three peers
CONSTANTS NPeers = 3  MaxMsgs = 1  Kinds = {"ping", "inv"}  Faults = TRUE
MaxStops = 1  MaxIbd = 0  DirectKinds = {}  MaxDirect = 0  Devs = {}
SeedSet = {3}  RpcSet = {FALSE}
SPECIFICATION Spec
INVARIANT TypeOK
INVARIANT Numbering
INVARIANT HelloFirst
INVARIANT CloseOnce
INVARIANT AfterStopBounded
INVARIANT Accounted
INVARIANT NoStrangers
INVARIANT StoppedMeans
INVARIANT ExitOnlyByStop
INVARIANT IbdOnce
PROPERTY QuietAfterExit
PROPERTY AppendOnly
PROPERTY StopTerminates
PROPERTY StopReturns
PROPERTY RpcTerminates
CHECK_DEADLOCK FALSE
