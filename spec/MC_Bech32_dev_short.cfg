CONSTANTS
Vers = {1,16}
Lens = {2,5,6}
InvVers = {}
InvLens = {}
SubKinds = {}
EmitRows = FALSE
Deviation = "short"
INIT Init
NEXT Next
INVARIANT RoundTrip
CHECK_DEADLOCK FALSE
