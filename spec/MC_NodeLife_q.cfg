\* two seeds, two messages each, connections may end, stop() at any point; safety + liveness
CONSTANTS NPeers = 2  MaxMsgs = 2  Kinds = {"ping", "inv"}  Faults = TRUE
MaxStops = 1  MaxIbd = 0  DirectKinds = {}  MaxDirect = 0  Devs = {}
SeedSet = {2}  RpcSet = {FALSE}
SPECIFICATION Spec
INVARIANT TypeOK
INVARIANT Numbering
INVARIANT HelloFirst
INVARIANT CloseOnce
INVARIANT AfterStopBounded
INVARIANT Accounted
INVARIANT NoStrangers
INVARIANT StoppedMeans
INVARIANT ExitOnlyByStop
INVARIANT IbdOnce
PROPERTY QuietAfterExit
PROPERTY AppendOnly
PROPERTY StopTerminates
PROPERTY StopReturns
PROPERTY RpcTerminates
CHECK_DEADLOCK FALSE
