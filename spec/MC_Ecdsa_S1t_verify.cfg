CONSTANTS Big = FALSE CP = 43 CB = 7 CN = 31 CGx = 2 CGy = 12
Ds = {}
Zs = {}
VerifyDs = {1,2,3,4,5,6,7,8,9,10,11,12,13,14,15,16,17,18,19,20,21,22,23,24,25,26,27,28,29,30}
VerifyZs = {0,1,2,3,4,5,6,7,8,9,10,11,12,13,14,15,16,17,18,19,20,21,22,23,24,25,26,27,28,29,30,31,32,33}
DerVals = {}
EmitRows = TRUE
INIT Init
NEXT Next
INVARIANT VerifyExact
INVARIANT OffCurveRejected
INVARIANT Emit
CHECK_DEADLOCK FALSE
