CONSTANTS Scripts <- ScriptsQ  Seqs <- SeqsQ  Stacks <- StacksQ  OutChoices <- OutsQ  MaxIn = 2  MaxOut = 2
TrailKinds = {"none", "zero", "copy", "prefix"}  Deviation = "none"
INIT Init
NEXT Next
INVARIANT CasesWellFormed
INVARIANT ParseNeverFails
INVARIANT FieldsRoundTrip
INVARIANT LeftoverExact
INVARIANT ReserialiseIdentity
INVARIANT CursorInBounds
INVARIANT OperatorAgrees
INVARIANT TruncationRefused
INVARIANT MarkerFlagIffWitness
INVARIANT TxidIsHashOfNoWitnessForm
INVARIANT WtxidIsHashOfFullForm
INVARIANT NonWitnessIdsEqual
INVARIANT RawIsConsumedBytes
INVARIANT IdsIgnoreTrailing
CHECK_DEADLOCK FALSE
