CONSTANTS MaxN = 8  NoBound = FALSE
INIT Init
NEXT Next
INVARIANT RulesAgree
INVARIANT SingleOutOfRangeZero
INVARIANT TableAsStated
INVARIANT LayoutCorrect
CHECK_DEADLOCK FALSE
