CONSTANTS Seed = 0  Profile = "d"  Part = 0  Parts = 1
          MaxEnv = 0  MaxNonce = 100000  DevMedianTime = FALSE  DevSkipNonceZero = TRUE
          SubsidyBase <- BaseScaled
INIT Init
NEXT Next
INVARIANT FirstNonce
INVARIANT PowProgress
CHECK_DEADLOCK FALSE
