CONSTANTS NPeers = 3  MaxMsgs = 4  Kinds = {"ping", "version", "verack", "inv", "addr", "unknown"}  Faults = TRUE
MaxStops = 3  MaxIbd = 3  MaxDirect = 12
DirectKinds = {"inv500", "inv1", "getheaders", "feefilter", "sendheaders", "nohandler"}
Devs = {"ThreadEndsWithoutClose"}
INIT TInit
NEXT TNext
CHECK_DEADLOCK FALSE
