------------------------------ MODULE Sighash ------------------------------
(***************************************************************************)
(* The pre-segwit ("legacy") signature hash of Bitcoin Core's              *)
(* SignatureHash() for the templates bits.tx.send_tx produces (no          *)
(* OP_CODESEPARATOR, no FindAndDelete hit), and the BIP143 digest, both as *)
(* functions of a Tx.tla transaction record.   idx is 0-based.             *)
(***************************************************************************)
EXTENDS Tx, Bip143

Zero4 == <<0, 0, 0, 0>>
FF8   == <<255, 255, 255, 255, 255, 255, 255, 255>>
One32 == <<1>> \o Rep(0, 31)                 \* uint256(1) as hash bytes (SIGHASH_SINGLE out of range)

LegacyIns(t, idx, scriptCode, flag) ==
    LET base == BaseType(flag)
        In(j) == TxIn(t.ins[j].txid, t.ins[j].vout,
                      IF j = idx + 1 THEN scriptCode ELSE <<>>,
                      IF j # idx + 1 /\ base \in {SIGHASH_NONE, SIGHASH_SINGLE} THEN Zero4 ELSE t.ins[j].seq)
    IN IF AnyoneCanPay(flag) THEN <<In(idx + 1)>> ELSE [j \in 1..Len(t.ins) |-> In(j)]
LegacyOuts(t, idx, flag) ==
    LET base == BaseType(flag) IN
    IF base = SIGHASH_NONE THEN <<>>
    ELSE IF base = SIGHASH_SINGLE
         THEN [j \in 1..(idx + 1) |-> IF j = idx + 1 THEN t.outs[j] ELSE TxOut(FF8, <<>>)]
         ELSE t.outs
LegacyPreimage(t, idx, scriptCode, flag) ==
    TxSerNoWitness(MkTx(t.version, LegacyIns(t, idx, scriptCode, flag), LegacyOuts(t, idx, flag), <<>>, t.locktime))
    \o <<flag, 0, 0, 0>>
LegacyDigest(t, idx, scriptCode, flag) ==
    IF BaseType(flag) = SIGHASH_SINGLE /\ idx >= Len(t.outs) THEN One32
    ELSE Hash256(LegacyPreimage(t, idx, scriptCode, flag))

(* BIP143 digest of input idx spending `amount8` with the given scriptCode *)
WitnessDigest(t, idx, amount8, scriptCode, flag) ==
    Hash256(Preimage(t.version,
                     [j \in 1..Len(t.ins) |-> [prev |-> t.ins[j].txid \o t.ins[j].vout, seq |-> t.ins[j].seq]],
                     [j \in 1..Len(t.outs) |-> TxOutSer(t.outs[j])],
                     idx, amount8, scriptCode, flag, t.locktime))
=============================================================================
