CONSTANTS MAX = 40960  OVERHEAD = 8  Deviation = "none"  FlushGrain = 0
INIT TInit
NEXT TNext
CHECK_DEADLOCK FALSE
