CONSTANTS Peers = {1, 2}  Racy = FALSE  Connect = FALSE  MsgsPerPeer = 2
KindSet = {"ping", "version", "verack", "inv", "addr", "unknown"}
SPECIFICATION Spec
INVARIANT TypeOK
INVARIANT ExactlyOnce
INVARIANT NoStrangers
INVARIANT RepliesExact
INVARIANT RepliesPrefix
INVARIANT VersionStored
PROPERTY NeverRemoved
CHECK_DEADLOCK FALSE
