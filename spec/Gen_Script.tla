------------------------------ MODULE Gen_Script ------------------------------
(* Stage B for C13: TLC enumerates the bounded script grammar (programs, byte   *)
(* strings, witness stacks, template arguments) and writes what the             *)
(* specification demands for each; the harness replays every row into           *)
(* bits.script.script / decode_script / the template builders.                  *)
EXTENDS ScriptGrammar, Json, IOUtils, TLC, SequencesExt
NameOf(b) == CHOOSE n \in OpNames : OpByte[n] = b
Named(items) == [i \in 1..Len(items) |->
                    IF items[i].k = "op" THEN [k |-> "op", n |-> NameOf(items[i].b), d |-> <<>>]
                    ELSE [k |-> "data", n |-> "", d |-> items[i].d]]
(* defined here, not in the grammar module: TLC evaluates zero-arity constants eagerly *)
AllCases == UNION {Successors(p.a) : p \in Parts}
Row(x) ==
    CASE x.k = "prog"  -> [op |-> "asm", items |-> Named(x.a), r |-> Asm(x.a)]
      [] x.k = "bytes" -> LET d == Disasm(x.a) IN
                          [op |-> "disasm", a |-> x.a, canon |-> MinimalPushes(x.a), ok |-> d.ok,
                           items |-> IF d.ok THEN Named(d.v) ELSE <<>>]
      [] x.k = "wit"   -> [op |-> "wit", stack |-> x.a, r |-> AsmWitness(x.a)]
      [] x.k = "tmpl"  -> [op |-> "tmpl", args |-> x.a, r |-> TemplateSpecOf(x.a), items |-> Named(TemplateItemsOf(x.a))]
Rows == SetToSeq({Row(x) : x \in AllCases})
ASSUME JsonSerialize(IOEnv.OUT_FILE, Rows)
ASSUME PrintT(<<"ROWS", Len(Rows)>>)
=============================================================================
