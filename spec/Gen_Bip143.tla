----------------------------- MODULE Gen_Bip143 -----------------------------
(* Stage B (C11): TLC walks the whole decision table (6 flags x n_in, n_out in     *)
(* 1..MaxN x every idx < n_in) on concrete transactions and emits the preimage     *)
(* the specification demands (real SHA-256); the harness replays every row into    *)
(* witness_message.  scriptCode lengths cycle through the CompactSize boundaries.  *)
EXTENDS Bip143, Json, IOUtils, TLC, SequencesExt
CONSTANTS MaxN
ScLens == <<1, 2, 25, 75, 76, 252, 253, 254, 255, 256, 300, 600>>
Pat(n, a, b) == [j \in 1..n |-> ((a * 37) + (j * 11) + b) % 256]
Versions == << <<1, 0, 0, 0>>, <<2, 0, 0, 0>>, <<255, 255, 255, 255>>, <<0, 0, 0, 128>>, <<0, 0, 0, 0>> >>
Locks    == << <<0, 0, 0, 0>>, <<17, 0, 0, 0>>, <<255, 255, 255, 255>>, <<0, 101, 205, 29>>, <<255, 255, 255, 127>> >>
Seqs     == << <<255, 255, 255, 255>>, <<254, 255, 255, 255>>, <<0, 0, 0, 0>>, <<1, 0, 64, 0>>, <<0, 0, 0, 128>> >>
Amounts  == << Rep(0, 8), <<1, 0, 0, 0, 0, 0, 0, 0>>, <<0, 64, 7, 90, 240, 117, 7, 0>>, <<0, 242, 5, 42, 1, 0, 0, 0>>,
               <<255, 255, 255, 127, 0, 0, 0, 0>>, <<0, 0, 0, 128, 0, 0, 0, 0>> >>
Row(f, a, b, i) ==
    LET k    == (f + (3 * a) + (5 * b) + (7 * i))
        ins  == [x \in 1..a |-> [prev |-> Pat(32, x, f) \o <<(x + i) % 256, (x * b) % 3, 0, 0>>,
                                 seq |-> Seqs[((x + k) % 5) + 1]]]
        outs == [x \in 1..b |-> Pat(8, x, k) \o <<(x + a) % 40>> \o Pat((x + a) % 40, x, 9)]
        sc   == Pat(ScLens[(k % 12) + 1], k, 1)
        r    == [flag |-> f, idx |-> i, ins |-> ins, outs |-> outs, version |-> Versions[(k % 5) + 1],
                 locktime |-> Locks[((k + a) % 5) + 1], amount |-> Amounts[((k + b) % 6) + 1], sc |-> sc]
    IN r @@ [r |-> Preimage(r.version, ins, outs, i, r.amount, sc, f, r.locktime)]
Rows == SetToSeq(UNION {{Row(f, a, b, i) : f \in StandardFlags, b \in 1..MaxN, i \in 0..(a - 1)} : a \in 1..MaxN})
ASSUME JsonSerialize(IOEnv.OUT_FILE, Rows)
ASSUME PrintT(<<"ROWS", Len(Rows)>>)
=============================================================================
