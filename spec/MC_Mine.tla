------------------------------ MODULE MC_Mine ------------------------------
(* Bounded models of Mine.tla.                                                  *)
(*  Stage A (toy hashes, TLC integers): every scenario of the profile's set -   *)
(*    chain shapes (length, first height, timestamp pattern), mempool           *)
(*    compositions, nBits, clock relative to the median-time-past - is run      *)
(*    through the miner machine action by action; MaxEnv = 1 adds every         *)
(*    interleaving of one environment event.  The invariants are the clauses    *)
(*    of Mine.tla.  DevMedianTime / DevSkipNonceZero = TRUE are the vacuity     *)
(*    guards (TLC must report TimeRule / FirstNonce violated).                  *)
(*  Generator (native hashes): the same machine on the "g*" profiles; the Emit* *)
(*    invariants print every scenario and every terminal state (the block the   *)
(*    specification expects), which the harness replays into mine_block.        *)
(* All concrete values (timestamps, hashes, transactions) are derived in TLA+   *)
(* from the shape indices and the constant Seed.                                *)
EXTENDS Mine, TLC
CONSTANTS Seed, Profile, Part, Parts

BaseScaled == CB!FiftyBtcScaled
BaseReal   == CB!FiftyBtc

(* ---- deterministic pseudo-random material ---- *)
Lcg(x) == ((x * 75) + 74) % 65537
RECURSIVE LcgN(_, _)
LcgN(x, n) == IF n = 0 THEN x ELSE LcgN(Lcg(x), n - 1)
RECURSIVE SeededAcc(_, _, _, _)
SeededAcc(n, salt, k, acc) == IF k > n THEN acc ELSE SeededAcc(n, salt, k + 1, Append(acc, ((Seed * 7) + (salt * 13) + (k * 31) + ((k * k) % 97)) % 256))
Seeded(n, salt) == SeededAcc(n, salt, 1, <<>>)

(* ---- chains: valid by construction (every time > median-time-past of its ancestors) ---- *)
T0 == 1700000000 + (Seed % 1000)
RECURSIVE BuildTimes(_, _, _, _)
BuildTimes(acc, i, L, pat) ==
    IF i = L THEN acc
    ELSE LET t == IF acc = <<>> THEN T0
                  ELSE IF pat = "steady" THEN T0 + (600 * i)
                  ELSE IF pat = "tight" THEN MedianTimePast(acc, 0) + 1
                  ELSE MedianTimePast(acc, 0) + 1 + (LcgN(Seed + (7 * L), i) % 4000)         \* "loose": not monotone
         IN BuildTimes(Append(acc, t), i + 1, L, pat)
BlockId(i, L) == Sha256(<<Seed % 256, (Seed \div 256) % 256, i % 256, i \div 256, L>>)
RECURSIVE BuildChain(_, _, _, _)
BuildChain(acc, times, nb, i) ==
    IF i > Len(times) THEN acc
    ELSE BuildChain(Append(acc, [hash |-> BlockId(i, Len(times)), time |-> times[i], bits |-> nb]), times, nb, i + 1)
RECURSIVE MaxOf(_)
MaxOf(s) == IF Len(s) = 1 THEN s[1] ELSE Max(Head(s), MaxOf(Tail(s)))

(* ---- transactions ---- *)
V1 == <<1, 0, 0, 0>>
V2 == <<2, 0, 0, 0>>
Z4 == <<0, 0, 0, 0>>
F4 == <<255, 255, 255, 255>>
(* the toy-hash profiles use short scripts (the toy hash costs one recursion step per byte); the generator uses real sizes *)
Sz(n) == IF Profile \in {"g", "gt", "gr", "grt"} THEN n ELSE (n \div 12) + 1
P2pkh(h)  == <<118, 169, 20>> \o h \o <<136, 172>>
P2wpkh(h) == <<0, 20>> \o h
Pool == <<
    MkTx(V1, <<TxIn(Seeded(32, 1), Z4, Seeded(Sz(107), 2), F4)>>,
         <<TxOut(<<0, 225, 245, 5, 0, 0, 0, 0>>, P2pkh(Seeded(20, 3)))>>, <<>>, Z4),
    MkTx(V2, <<TxIn(Seeded(32, 4), V1, <<>>, <<254, 255, 255, 255>>), TxIn(Seeded(32, 5), Z4, Seeded(Sz(23), 6), F4)>>,
         <<TxOut(<<16, 39, 0, 0, 0, 0, 0, 0>>, P2wpkh(Seeded(20, 7))), TxOut(Seeded(6, 8) \o <<0, 0>>, <<106, 2, 1, 2>>)>>, <<>>, <<1, 0, 0, 0>>),
    MkTx(V1, <<TxIn(Seeded(32, 9), <<7, 0, 0, 0>>, Seeded(Sz(72), 10), F4)>>, <<TxOut(Rep(0, 8), <<81>>)>>, <<>>, Z4),
    MkTx(V2, <<TxIn(Seeded(32, 11), Z4, <<>>, <<253, 255, 255, 255>>)>>,
         <<TxOut(<<232, 3, 0, 0, 0, 0, 0, 0>>, P2wpkh(Seeded(20, 12)))>>, << <<Seeded(Sz(71), 13), Seeded(Sz(33), 14)>> >>, Z4),
    MkTx(V1, <<TxIn(Seeded(32, 15), V1, Seeded(Sz(23), 16), F4), TxIn(Seeded(32, 17), Z4, <<>>, Z4)>>,
         <<TxOut(<<1, 0, 0, 0, 0, 0, 0, 0>>, P2pkh(Seeded(20, 18)))>>, << <<>>, <<Seeded(Sz(72), 19), Seeded(Sz(33), 20)>> >>, V1) >>
Comps == << <<>>, <<1>>, <<4>>, <<1, 4>>, <<4, 2, 5>>, <<1, 2, 3>>, <<1, 4, 2, 5, 3>> >>
RECURSIVE RawsOf(_)
RawsOf(ix) == IF ix = <<>> THEN <<>> ELSE <<[txid |-> Txid(Pool[Head(ix)]), raw |-> TxSer(Pool[Head(ix)])]>> \o RawsOf(Tail(ix))
Has(ix, k) == \E j \in 1..Len(ix) : ix[j] = k
LateOf(ix) == IF ~Has(ix, 5) THEN TxSer(Pool[5]) ELSE IF ~Has(ix, 3) THEN TxSer(Pool[3]) ELSE <<>>

(* ---- compact targets of different hardness (display order) ---- *)
BitsTable == << <<32, 127, 255, 255>>,      \* 1  207fffff  regtest limit, ~2 tries
                <<32, 7, 255, 255>>,        \* 2  2007ffff  ~32 tries, still inferred as regtest
                <<33, 0, 127, 255>>,        \* 3  21007fff  = 2^255 (exponent 33, mantissa with leading zero byte)
                <<32, 0, 255, 255>>,        \* 4  2000ffff  ~256 tries, not regtest
                <<34, 0, 0, 1>>,            \* 5  22000001  = 2^248 (largest exponent Bitcoin Core accepts), ~256 tries
                <<31, 64, 0, 0>>,           \* 6  1f400000  = 2^246, ~1000 tries
                <<32, 0, 32, 0>>,           \* 7  20002000  = 2^245, ~2000 tries
                <<32, 15, 255, 255>>,       \* 8  200fffff  ~16 tries, regtest
                <<32, 4, 0, 0>> >>          \* 9  20040000  = 2^250, ~64 tries, the easiest kind that is NOT inferred as regtest

(* ---- one scenario: key = <<L, first height, pattern, mempool composition, bits index, clock mode>> ---- *)
NowOf(times, base, mode) ==
    LET mtp == MedianTimePast(times, base) IN
    IF mode = 1 THEN mtp - 50 ELSE IF mode = 2 THEN mtp ELSE IF mode = 3 THEN mtp + 1 ELSE MaxOf(times) + 1234
Scn(k) ==
    LET L == k[1]  first == k[2]  pat == k[3]  mp == k[4]  bi == k[5]  nm == k[6]
        times == BuildTimes(<<>>, 0, L, pat)
        nb == BitsTable[bi]
        h == Seeded(20, 30 + mp)
    IN [h0 |-> first, chain |-> BuildChain(<<>>, times, nb, 1), mempool |-> RawsOf(Comps[mp + 1]),
        now |-> NowOf(times, first, nm),
        sc |-> [id |-> k, spk |-> IF ((mp + L) % 2) = 0 THEN P2pkh(h) ELSE P2wpkh(h), regtest |-> InfersRegtest(nb),
                late |-> LateOf(Comps[mp + 1]), rivalHash |-> BlockId(255, L), free |-> FreeChoices]]

Shapes  == {<<1, 0>>, <<2, 0>>, <<3, 0>>, <<6, 0>>, <<11, 0>>, <<12, 0>>, <<13, 0>>, <<21, 0>>, <<12, 138>>, <<11, 117>>, <<12, 209988>>}
Pats    == {"steady", "tight", "loose"}
Mix(a, b, c, n) == ((a * 5) + (b * 3) + c + Seed) % n
PatOf(i) == IF i = 0 THEN "loose" ELSE IF i = 1 THEN "steady" ELSE "tight"

(* quick stage A: shapes x clock modes x three easy targets, pattern and mempool mixed in; plus mempools x targets *)
BiOf(i) == IF i = 0 THEN 1 ELSE IF i = 1 THEN 3 ELSE 8
KeysQS == {<<s[1], s[2], PatOf(Mix(s[1], nm, 0, 2)), Mix(s[1], nm, s[2], 7), BiOf(Mix(s[1], nm, 1, 3)), nm>> : s \in Shapes, nm \in 1..4}
KeysQ == KeysQS
         \cup {<<6, 0, "loose", mp, IF (mp % 2) = 0 THEN 1 ELSE 2, 1>> : mp \in 0..6}
         \cup {<<2, 0, "loose", 3, 9, 2>>, <<12, 209988, "loose", 4, 9, 4>>, <<13, 0, "steady", 0, 9, 1>>}
(* thorough stage A: the full product on the easy targets *)
KeysT == {<<s[1], s[2], p, mp, bi, nm>> : s \in Shapes, p \in Pats, mp \in 0..6, bi \in {1, 2, 3, 8}, nm \in 1..4}
         \cup {<<s[1], s[2], "loose", mp, 9, 2>> : s \in Shapes, mp \in {0, 3, 6}}
(* races (MaxEnv = 1): every interleaving point, few scenarios *)
KeysR == {<<s[1], s[2], "loose", mp, 1, Mix(s[1], mp, 0, 2) + 1>> : s \in {<<1, 0>>, <<6, 0>>, <<12, 138>>}, mp \in {0, 4}}
         \cup {<<3, 0, "loose", 1, 1, 1>>, <<12, 0, "loose", 5, 1, 4>>}
(* vacuity guards: a few scenarios in which the named deviations must show *)
KeysD == {<<s[1], s[2], "loose", mp, bi, nm>> : s \in {<<3, 0>>, <<5, 0>>, <<7, 0>>, <<11, 0>>}, mp \in {0, 3}, bi \in {1, 3}, nm \in {1, 2}}
KeysRT == {<<s[1], s[2], p, mp, 1, nm>> : s \in {<<1, 0>>, <<2, 0>>, <<6, 0>>, <<11, 0>>, <<12, 0>>, <<12, 138>>}, p \in {"loose", "steady"},
                                            mp \in {0, 1, 3, 4, 6}, nm \in {1, 4}}
(* generator (native): chain lengths 1 2 6 11 12 13 21 (heights 0 1 5 10 11 12 20) and halving / push boundaries *)
KeysG == {<<s[1], s[2], PatOf(Mix(s[1], nm, 0, 2)), Mix(s[1], nm, s[2], 7), IF nm = 4 THEN 1 ELSE 2, nm>> : s \in Shapes, nm \in 1..4}
         \cup {<<6, 0, "loose", mp, 1, 2>> : mp \in 0..6}
         \cup {<<s[1], s[2], "loose", Mix(s[1], bi, 0, 7), bi, Mix(bi, s[1], 1, 4) + 1>> : s \in {<<2, 0>>, <<11, 0>>, <<12, 0>>}, bi \in {3, 4, 5}}
         \cup {<<12, 0, "loose", 4, 6, 1>>, <<3, 0, "loose", 3, 7, 4>>}
KeysGT == {<<s[1], s[2], p, mp, IF (mp % 2) = 0 THEN 1 ELSE 2, nm>> : s \in Shapes, p \in Pats, mp \in 0..6, nm \in 1..4}
          \cup {<<s[1], s[2], "loose", Mix(s[1], bi, nm, 7), bi, nm>> : s \in Shapes, bi \in 3..7, nm \in {1, 4}}
KeysGR == KeysR
KeysOf(p) == CASE p = "q" -> KeysQ [] p = "qs" -> KeysQS [] p = "d" -> KeysD [] p = "t" -> KeysT [] p = "r" -> KeysR [] p = "rt" -> KeysRT
               [] p = "g" -> KeysG [] p = "gt" -> KeysGT [] p = "gr" -> KeysGR [] p = "grt" -> KeysRT
InPart(k) == ((k[1] + (k[2] % 7) + (k[4] * 3) + (k[5] * 5) + k[6] + (IF k[3] = "loose" THEN 1 ELSE 0)) % Parts) = Part
Keys == {k \in KeysOf(Profile) : InPart(k)}

Init == \E k \in Keys : LET s == Scn(k) IN
            /\ h0 = s.h0 /\ chain = s.chain /\ mempool = s.mempool /\ now = s.now /\ sc = s.sc
            /\ pc = "idle" /\ m = M0 /\ ev = NoEvent

(* ---- facts about the target forms and the comparison, on values that fit TLC integers ---- *)
SmallCompacts == {<<e, a, b, c>> : e \in 0..4, a \in {0, 1, 127}, b \in {0, 128, 255}, c \in {0, 1, 255}}
ASSUME \A nb \in SmallCompacts : Target(nb) = TargetArith(nb)
ASSUME \A nb \in SmallCompacts : BigToNat(Target(nb)) =
           (IF nb[1] >= 3 THEN ((nb[2] * 65536) + (nb[3] * 256) + nb[4]) * (IF nb[1] = 4 THEN 256 ELSE 1)
            ELSE IF nb[1] = 2 THEN (nb[2] * 256) + nb[3] ELSE IF nb[1] = 1 THEN nb[2] ELSE 0)
(* a mantissa with a leading zero byte is the same number one exponent lower *)
ASSUME \A e \in 1..34, b \in {1, 127}, c \in {0, 255} : Target(<<e, 0, b, c>>) = Target(<<e - 1, b, c, 0>>)
ASSUME Target(<<29, 0, 255, 255>>) = Diff1Target /\ Target(<<32, 127, 255, 255>>) = Diff1TargetRegtest
ASSUME Len(Target(<<32, 127, 255, 255>>)) = 32 /\ Len(Target(<<34, 0, 0, 1>>)) = 32 /\ Len(Target(<<34, 0, 1, 0>>)) = 33
ASSUME InfersRegtest(<<32, 127, 255, 255>>) /\ ~InfersRegtest(<<29, 0, 255, 255>>) /\ ~InfersRegtest(<<32, 0, 255, 255>>)
SmallBigs == {<<>>, <<1>>, <<255>>, <<1, 0>>, <<1, 1>>, <<2, 0>>, <<255, 255>>, <<1, 0, 0>>, <<127, 255, 255>>}
ASSUME \A a \in SmallBigs, b \in SmallBigs : BigLeq(a, b) = ~BigLt(b, a)
ASSUME MeetsTarget(<<255, 255, 0>>, <<255, 255>>) /\ ~MeetsTarget(<<0, 0, 1>>, <<255, 255>>) /\ MeetsTarget(Rep(0, 32), <<>>)
(* median-time-past: published behaviour of GetMedianTimePast on small chains *)
ASSUME MedianTimePast(<<5>>, 0) = 5 /\ MedianTimePast(<<5, 9>>, 0) = 9 /\ MedianTimePast(<<5, 9, 7>>, 0) = 7
ASSUME MedianTimePast(<<5, 9, 7, 8>>, 0) = 8 /\ MedianTimePast(<<1, 2, 3, 4, 5, 6, 7, 8, 9, 10, 11, 12>>, 0) = 7
ASSUME MedianTimePast(<<12, 11, 10, 9, 8, 7, 6, 5, 4, 3, 2>>, 7) = 7 /\ MedianTimePast(<<100, 1, 2, 3, 4, 5, 6, 7, 8, 9, 10, 11>>, 0) = 6
ASSUME SortAsc(<<3, 1, 2, 2, 9, 0>>) = <<0, 1, 2, 2, 3, 9>> /\ SortAsc(<<>>) = <<>> /\ LastN(<<1, 2, 3>>, 2) = <<2, 3>>
ASSUME MedianTimeCodeDeviation(<<5, 9, 13>>, 0) = 11 /\ MedianTimeCodeDeviation(<<5, 9>>, 0) = 9 /\ MedianTimeCodeDeviation(<<5>>, 0) = 5

(* ---- census of what the explored behaviours exercised (vacuity guard, counted by the harness) ---- *)
NonMonotone == \E i \in 2..Len(chain) : chain[i].time < chain[i - 1].time
Census == Terminal => PrintT(<<"B", pc, m.verdict, ev.kind, ev.at, m.commit, m.regtest, m.time > now,
                               IF m.nonce = 0 THEN 0 ELSE IF m.nonce < 10 THEN 1 ELSE 2, NonMonotone,
                               IF Len(chain) - (IF pc = "done" THEN 1 ELSE 0) - (IF ev.kind = "block" THEN 1 ELSE 0) < 12 THEN "short" ELSE "long",
                               (m.height + 1) \div Interval(m.regtest) > 0>>)

(* ---- generator rows ---- *)
EmitScenario == (pc = "idle" /\ ev.kind = "none") =>
    PrintT(<<"S", sc.id, h0, chain, mempool, now, sc.spk, sc.regtest, sc.late, sc.rivalHash>>)
EmitResult == Terminal =>
    PrintT(<<"R", sc.id, ev.kind, ev.at, pc, m.verdict, m.block, Len(chain), mempool, m.nonce, m.time, m.height>>)
=============================================================================
