\* small instance run with -coverage: every intended action must fire (vacuity guard)
CONSTANTS NPeers = 1  MaxMsgs = 1  Kinds = {"ping", "inv"}  Faults = TRUE
MaxStops = 1  MaxIbd = 1  DirectKinds = {"inv500", "feefilter"}  MaxDirect = 1  Devs = {}
SeedSet = {0, 1}  RpcSet = {TRUE}
SPECIFICATION Spec
INVARIANT TypeOK
INVARIANT Numbering
INVARIANT HelloFirst
INVARIANT CloseOnce
INVARIANT AfterStopBounded
INVARIANT Accounted
INVARIANT NoStrangers
INVARIANT StoppedMeans
INVARIANT ExitOnlyByStop
INVARIANT IbdOnce
PROPERTY QuietAfterExit
PROPERTY AppendOnly
CHECK_DEADLOCK FALSE
