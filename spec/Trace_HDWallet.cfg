CONSTANTS Big = TRUE
CP <- SecP  CB <- SecB  CN <- SecN  CGx <- SecGx  CGy <- SecGy
ClassLevelMnemonic = FALSE
INIT TInit
NEXT TNext
CHECK_DEADLOCK FALSE
