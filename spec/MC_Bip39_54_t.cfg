CONSTANTS W = 5  U = 4  ValidEnt = {8, 12}  Swap = FALSE
First3 = {0,1,2,3,4,5,6,7,8,9,10,11,12,13,14,15,16,17,18,19,20,21,22,23,24,25,26,27,28,29,30,31,32}
INIT Init
NEXT Next
INVARIANT RoundTrip
INVARIANT AcceptExactlyImage
INVARIANT ExactlyOneSibling
CHECK_DEADLOCK FALSE
