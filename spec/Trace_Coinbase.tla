--------------------------- MODULE Trace_Coinbase ---------------------------
(* Stage C (C15): recorded calls of bits.tx.coinbase_txin / coinbase_tx judged  *)
(* clause by clause (native = TRUE: amounts are real big naturals).             *)
(*   cbin  [extra, hasH, h, seq, ok, r]                                          *)
(*   cbtx  [extra, spk, hasH, h, regtest, hasR, reward, hasC, commitment, ok, r] *)
(*   push / sub  pre-recorded facts (spec self-test): r is the published value   *)
EXTENDS Coinbase, Json, IOUtils, TLC
Trace == JsonDeserialize(IOEnv.TRACE_FILE)
VARIABLE l

Interval(e) == IF e.regtest THEN RegtestInterval ELSE MainInterval

VerdictIn(e) ==
    LET exp == CoinbaseTxIn(e.hasH, e.h, e.extra, e.seq)
        s   == CoinbaseScript(e.hasH, e.h, e.extra) IN
    IF ~exp.ok THEN (IF e.ok THEN "cb-script-over-100-accepted" ELSE "ok")
    ELSE IF ~e.ok THEN "cbin-rejects-valid"
    ELSE IF Len(e.r) < 41 \/ Take(e.r, 36) # NullOutpoint THEN "cb-outpoint"
    ELSE LET sc == LRdBytes(e.r, 37) IN
         IF ~sc.ok \/ sc.v.p + 4 # Len(e.r) + 1 THEN "cb-unparseable"
         ELSE IF e.hasH /\ Take(sc.v.d, Len(HeightPush(e.h))) # HeightPush(e.h) THEN "cb-height-push"
         ELSE IF sc.v.d # s THEN "cb-script"
         ELSE IF e.r # exp.v THEN "cbin-layout"
         ELSE "ok"

VerdictTx(e) ==
    LET s  == CoinbaseScript(e.hasH, e.h, e.extra)
        cl == Claim(e.hasH, e.h, Interval(e), FiftyBtc, e.hasR, e.reward) IN
    IF ScriptTooLong(s) THEN (IF e.ok THEN "cb-script-over-100-accepted" ELSE "ok")
    ELSE IF ~cl.ok THEN (IF e.ok THEN "cb-reward-above-subsidy-accepted" ELSE "ok")
    ELSE IF ~e.ok THEN (IF Len(s) < 2 THEN "ok" ELSE "cb-rejects-valid")    \* < 2 bytes is consensus-invalid: either outcome
    ELSE LET p == LRdTx(e.r, 1) IN
         IF ~p.ok THEN "cb-unparseable"
         ELSE IF p.v.end # Len(e.r) + 1 THEN "cb-unparseable"
         ELSE IF Len(p.v.ins) # 1 THEN "cb-not-one-input"
         ELSE IF p.v.ins[1].prev # NullOutpoint THEN "cb-outpoint"
         ELSE IF e.hasH /\ Take(p.v.ins[1].script, Len(HeightPush(e.h))) # HeightPush(e.h) THEN "cb-height-push"
         ELSE IF p.v.ins[1].script # s THEN "cb-script"
         ELSE IF Len(p.v.outs) = 0 THEN "cb-no-output"
         ELSE IF p.v.outs[1].value # BigToLE(cl.v, 8) THEN
                  (IF e.hasR THEN "cb-explicit-reward-not-kept" ELSE "cb-default-reward-not-subsidy")
         ELSE IF p.v.outs[1].spk # e.spk THEN "cb-output-script"
         ELSE IF e.hasC /\ (Len(p.v.outs) # 2 \/ p.v.outs[Len(p.v.outs)] # [value |-> Rep(0, 8), spk |-> CommitmentSpk(e.commitment)])
              THEN "cb-commitment-output"
         ELSE IF e.hasC /\ ~(p.v.segwit /\ p.v.wits = << <<ReservedValue>> >>) THEN "cb-reserved-witness"
         ELSE IF ~e.hasC /\ Len(p.v.outs) # 1 THEN "cb-unexpected-output"
         ELSE IF ~e.hasC /\ p.v.segwit THEN "cb-unexpected-witness"
         ELSE IF Ok(e.r) # CoinbaseTx(p.v.version, p.v.ins[1].seq, p.v.locktime, e.hasH, e.h, e.extra, e.spk, Interval(e),
                                      e.hasR, e.reward, e.hasC, e.commitment) THEN "cb-layout"
         ELSE "ok"

Verdict(e) ==
    CASE e.op = "cbin" -> VerdictIn(e)
      [] e.op = "cbtx" -> VerdictTx(e)
      [] e.op = "push" -> IF HeightPush(e.h) = e.r THEN "ok" ELSE "fact-push"
      [] e.op = "sub"  -> IF Subsidy(e.h, Interval(e), FiftyBtc) = e.r THEN "ok" ELSE "fact-subsidy"
      [] OTHER -> "unknown-op"

Init == l = 1
Next == /\ l <= Len(Trace)
        /\ PrintT(<<"V", Trace[l].id, Verdict(Trace[l])>>)
        /\ l' = l + 1
=============================================================================
