\* vacuity guard: with the deviation StopAbortsRpcNotReady enabled TLC MUST report a violation
CONSTANTS NPeers = 1  MaxMsgs = 1  Kinds = {"ping", "inv"}  Faults = TRUE
MaxStops = 1  MaxIbd = 0  DirectKinds = {}  MaxDirect = 0  Devs = {"StopAbortsRpcNotReady"}
SeedSet = {0}  RpcSet = {TRUE}
SPECIFICATION Spec
INVARIANT StoppedMeans
CHECK_DEADLOCK FALSE
