CONSTANTS
Vers = {}
Lens = {}
InvVers = {}
InvLens = {}
SubKinds = {1}
EmitRows = FALSE
Deviation = "nochecksum"
INIT Init
NEXT Next
INVARIANT SubRejected
CHECK_DEADLOCK FALSE
