CONSTANTS Big = FALSE
INIT Init
NEXT Next
INVARIANT RoundTrip
INVARIANT Refuses
INVARIANT Canonical
INVARIANT Vectors
INVARIANT Minimal
INVARIANT Emit
CHECK_DEADLOCK FALSE
