------------------------------ MODULE MC_Block ------------------------------
(* Stage A (C15): the block deserialisation machine run as TLC actions on       *)
(* BlockSer(h, txs) for every header of a small set and every sequence of 1..3  *)
(* transactions over a bounded grammar (legacy / segwit, 1..2 inputs, 0..2      *)
(* outputs, empty and non-empty scripts and witness stacks), toy hash.  At Done *)
(* the header fields and the transactions are the ones serialised, every raw    *)
(* is TxSer(t), every txid is Txid(t).  WrongId = TRUE is the self-test          *)
(* deviation (id taken over the full raw bytes, i.e. the wtxid).                *)
EXTENDS Block, FiniteSets
CONSTANTS MaxTxs, WrongId
VARIABLES m, h, txs

V1 == <<1, 0, 0, 0>>
V2 == <<2, 0, 0, 0>>
Z4 == <<0, 0, 0, 0>>
F4 == <<255, 255, 255, 255>>
Id(x) == Rep(x, 32)
TxPool == <<
    MkTx(V1, <<TxIn(Id(0), F4, <<>>, F4)>>, <<TxOut(Rep(0, 8), <<81>>)>>, <<>>, Z4),
    MkTx(V2, <<TxIn(Id(1), Z4, <<1, 0>>, Z4), TxIn(Id(2), V1, <<>>, F4)>>,
         <<TxOut(<<1, 0, 0, 0, 0, 0, 0, 0>>, <<>>), TxOut(Rep(255, 8), <<0, 1, 0>>)>>, <<>>, F4),
    MkTx(V1, <<TxIn(Id(3), Z4, <<>>, F4)>>, <<>>, <<>>, Z4),
    MkTx(V2, <<TxIn(Id(4), Z4, <<>>, <<254, 255, 255, 255>>)>>, <<TxOut(Rep(7, 8), <<0, 20>>)>>, << <<<<5>>, <<>>, <<0, 1>>>> >>, Z4),
    MkTx(V1, <<TxIn(Id(5), V1, <<22>>, F4), TxIn(Id(0), Z4, <<>>, Z4)>>, <<TxOut(Rep(1, 8), <<0>>)>>,
         << <<>>, <<<<0>>>> >>, V1) >>
Headers == {Header(V1, Id(0), Id(9), Z4, <<255, 255, 0, 29>>, F4),
            Header(F4, Id(255), Id(0), <<41, 171, 95, 73>>, <<255, 255, 127, 32>>, Z4)}
RECURSIVE Seqs(_, _)
Seqs(S, n) == IF n = 0 THEN {<<>>} ELSE LET R == Seqs(S, n - 1) IN R \cup {Append(s, a) : s \in {t \in R : Len(t) = n - 1}, a \in S}
TxSeqs == {s \in Seqs(1..Len(TxPool), MaxTxs) : Len(s) >= 1}

Init == /\ h \in Headers
        /\ \E s \in TxSeqs : txs = [i \in 1..Len(s) |-> TxPool[s[i]]]
        /\ m = BdInit(BlockSer(h, txs))
StepHeader == m.pc = "Header" /\ m' = BdStepHeader(m) /\ UNCHANGED <<h, txs>>
StepCount  == m.pc = "Count"  /\ m' = BdStepCount(m) /\ UNCHANGED <<h, txs>>
Mangle(x) == IF WrongId THEN [x EXCEPT !.txs = [i \in 1..Len(x.txs) |-> [x.txs[i] EXCEPT !.txid = Hash256(x.txs[i].raw)]]] ELSE x
StepTx     == m.pc = "Tx"     /\ m' = Mangle(BdStepTx(m)) /\ UNCHANGED <<h, txs>>
Next == StepHeader \/ StepCount \/ StepTx

RoundTrip == m.pc = "Done" =>
    /\ m.hdr = h /\ Len(m.txs) = Len(txs) /\ m.pos = Len(m.b) + 1
    /\ \A i \in 1..Len(txs) : /\ m.txs[i].t = txs[i]
                              /\ m.txs[i].raw = TxSer(txs[i])
                              /\ m.txs[i].txid = Txid(txs[i])
                              /\ m.txs[i].wtxid = Wtxid(txs[i])
                              /\ HasWitness(txs[i]) => m.txs[i].txid # m.txs[i].wtxid
NeverFails == m.pc # "Fail"
OperatorForm == m.pc = "Header" =>
    /\ Len(HeaderSer(h)) = 80 /\ WellFormedHeader(h) /\ HeaderDeser(HeaderSer(h)) = Ok(h)
    /\ LET d == BlockDeser(m.b) IN d.ok /\ d.v.hdr = h /\ [i \in 1..Len(d.v.txs) |-> d.v.txs[i].t] = txs
    /\ ~BlockDeser(Front(m.b)).ok /\ ~BlockDeser(Append(m.b, 0)).ok
    /\ ~HeaderDeser(Front(HeaderSer(h))).ok
    /\ BlockSerRaw(HeaderSer(h), [i \in 1..Len(txs) |-> TxSer(txs[i])]) = m.b
Progress == m.pc = "Tx" => Len(m.txs) + m.left = Len(txs)
=============================================================================
