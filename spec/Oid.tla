--------------------------------- MODULE Oid ---------------------------------
(***************************************************************************)
(* Extension beyond C14's statement: the OBJECT IDENTIFIER content codec   *)
(* of bits.pem (encode_oid / parse_oid), X.690 section 8.19.               *)
(* An OID is a sequence of arcs <<a1, a2, a3, ...>> with a1 \in 0..2 and   *)
(* a2 < 40 unless a1 = 2.  Content octets: the subidentifiers              *)
(* 40 * a1 + a2, a3, a4, ... each in base 128, most significant group      *)
(* first, bit 8 set on every octet but the last, no leading 0x80 octet     *)
(* (minimal form).  Pem.tla uses the same B128 for the two OIDs inside the *)
(* key containers; this module specifies the codec for every OID.          *)
(***************************************************************************)
EXTENDS Prim

ValidArcs(a) == /\ Len(a) >= 2 /\ a[1] \in 0..2 /\ (a[1] < 2 => a[2] < 40)
                /\ \A i \in 1..Len(a) : a[i] >= 0
RECURSIVE B128(_, _)
B128(n, last) == (IF n >= 128 THEN B128(n \div 128, FALSE) ELSE <<>>) \o <<(n % 128) + (IF last THEN 0 ELSE 128)>>
RECURSIVE SubIds(_, _)
SubIds(a, i) == IF i > Len(a) THEN <<>> ELSE B128(a[i], TRUE) \o SubIds(a, i + 1)
Enc(a) == IF ~ValidArcs(a) THEN Fail ELSE Ok(B128(40 * a[1] + a[2], TRUE) \o SubIds(a, 3))

(* decoder: one subidentifier at a time;  -> sequence of values or Fail *)
Max31 == 2147483647
RECURSIVE Groups(_, _, _, _)
Groups(b, i, acc, fresh) ==       \* acc = value of the subidentifier being read, fresh = no octet of it read yet
    IF i > Len(b) THEN (IF fresh THEN Ok(<<>>) ELSE Fail)                       \* dangling continuation
    ELSE IF fresh /\ b[i] = 128 THEN Fail                                       \* leading 0x80: not minimal
    ELSE IF acc > (Max31 - (b[i] % 128)) \div 128 THEN Fail                     \* beyond the modelled range
    ELSE LET v == acc * 128 + (b[i] % 128) IN
         IF b[i] >= 128 THEN Groups(b, i + 1, v, FALSE)
         ELSE LET r == Groups(b, i + 1, 0, TRUE) IN IF r.ok THEN Ok(<<v>> \o r.v) ELSE Fail
Dec(b) == IF Len(b) = 0 THEN Fail
          ELSE LET g == Groups(b, 1, 0, TRUE) IN
               IF ~g.ok THEN Fail
               ELSE LET f == g.v[1]
                        a1 == IF f < 40 THEN 0 ELSE IF f < 80 THEN 1 ELSE 2
                    IN Ok(<<a1, f - 40 * a1>> \o Tail(g.v))

(* decimal text of an arc / dotted text of an OID, as byte sequences (ASCII) *)
RECURSIVE Dig(_)
Dig(n) == (IF n >= 10 THEN Dig(n \div 10) ELSE <<>>) \o <<48 + (n % 10)>>
RECURSIVE Dotted(_, _)
Dotted(a, i) == IF i > Len(a) THEN <<>> ELSE (IF i > 1 THEN <<46>> ELSE <<>>) \o Dig(a[i]) \o Dotted(a, i + 1)
Text(a) == Dotted(a, 1)
=============================================================================
