------------------------------ MODULE Schnorr ------------------------------
(***************************************************************************)
(* BIP340 Schnorr signatures (C12) over the curve of EC.tla, written from  *)
(* bip-0340.mediawiki ("Default Signing", "Verification").  All numbers go *)
(* through Num's two-mode arithmetic, so that this very text is model-     *)
(* checked on small curves with b = 7 (Big = FALSE) and evaluated at       *)
(* secp256k1 size on implementation traces (Big = TRUE).  Byte encodings   *)
(* are the BIP's 32-byte big-endian ones in both modes; the integer value  *)
(* of a 32-byte hash is only ever needed modulo CN and is reduced by a     *)
(* Horner loop, so that it never leaves TLC's integer range on a small     *)
(* curve.                                                                  *)
(***************************************************************************)
EXTENDS EC

(* ASCII of the three tags *)
TagAux       == <<66,73,80,48,51,52,48,47,97,117,120>>                          \* "BIP0340/aux"
TagNonce     == <<66,73,80,48,51,52,48,47,110,111,110,99,101>>                  \* "BIP0340/nonce"
TagChallenge == <<66,73,80,48,51,52,48,47,99,104,97,108,108,101,110,103,101>>   \* "BIP0340/challenge"

(* hash_tag(x) = SHA256(SHA256(tag) || SHA256(tag) || x) *)
TaggedHash(tag, msg) == LET th == Sha256(tag) IN Sha256(th \o th \o msg)

(* int(b) mod CN for a byte string b of any length (Horner, in the arithmetic of the mode) *)
RECURSIVE ModNAcc(_, _, _)
ModNAcc(b, i, acc) == IF i > Len(b) THEN acc
                      ELSE ModNAcc(b, i + 1, NMod(NAdd(NMul(acc, NLit(256)), NLit(b[i])), CN))
BytesModN(b) == ModNAcc(b, 1, NZero)

(* bytewise xor of two equally long byte strings *)
XorBytes(a, b) == [i \in 1..Len(a) |-> NatXor(a[i], b[i])]

Bytes32(a) == NToBE(a, 32)
EvenY(p)   == ~NOdd(p[2])

(* lift_x(x): the point with abscissa x and even ordinate, if x < p and x^3 + 7 is a square *)
LiftX(x) ==
    IF ~InField(x) THEN Fail
    ELSE LET c == Rhs(x)
             y == SqrtCand(c)
         IN IF FSq(y) # c THEN Fail
            ELSE Ok(<<x, IF NOdd(y) THEN NSub(CP, y) ELSE y>>)

(* x-only public key of a secret key: bytes(x(d'G)) *)
XOnlyPub(d) == Bytes32(PubOf(d)[1])

Challenge(rx, px, m) == BytesModN(TaggedHash(TagChallenge, Bytes32(rx) \o Bytes32(px) \o m))

(* --- default signing: secret key d' (a number), message m, 32-byte aux --- *)
Sign(dprime, m, aux) ==
    IF NIsZero(dprime) \/ ~NLt(dprime, CN) THEN Fail
    ELSE LET P    == PubOf(dprime)
             d    == IF EvenY(P) THEN dprime ELSE NSub(CN, dprime)
             t    == XorBytes(Bytes32(d), TaggedHash(TagAux, aux))
             rand == TaggedHash(TagNonce, t \o Bytes32(P[1]) \o m)
             kp   == BytesModN(rand)
         IN IF NIsZero(kp) THEN Fail
            ELSE LET R == ScalarMul(kp, G)
                     k == IF EvenY(R) THEN kp ELSE NSub(CN, kp)
                     e == Challenge(R[1], P[1], m)
                 IN Ok(Bytes32(R[1]) \o Bytes32(NAddMod(k, NMulMod(e, d, CN), CN)))

(* --- verification: pk, m, sig are byte strings of ANY length --- *)
Verify(pk, m, sig) ==
    /\ Len(pk) = 32
    /\ Len(sig) = 64
    /\ LET P == LiftX(NFromBE(pk))
           r == NFromBE(SubSeq(sig, 1, 32))
           s == NFromBE(SubSeq(sig, 33, 64))
       IN /\ P.ok
          /\ InField(r)
          /\ NLt(s, CN)
          /\ LET e == Challenge(r, P.v[1], m)
                 R == PointAdd(ScalarMul(s, G), Neg(ScalarMul(e, P.v)))
             IN ~IsInf(R) /\ EvenY(R) /\ R[1] = r

(* name of the first failing condition of the verification algorithm ("ok" if none) *)
VerifyWhy(pk, m, sig) ==
    IF Len(pk) # 32 THEN "pk-length"
    ELSE IF Len(sig) # 64 THEN "sig-length"
    ELSE LET P == LiftX(NFromBE(pk))
             r == NFromBE(SubSeq(sig, 1, 32))
             s == NFromBE(SubSeq(sig, 33, 64))
         IN IF ~P.ok THEN "pk-does-not-lift"
            ELSE IF ~InField(r) THEN "r-ge-p"
            ELSE IF ~NLt(s, CN) THEN "s-ge-n"
            ELSE LET e == Challenge(r, P.v[1], m)
                     R == PointAdd(ScalarMul(s, G), Neg(ScalarMul(e, P.v)))
                 IN IF IsInf(R) THEN "R-infinity"
                    ELSE IF ~EvenY(R) THEN "R-odd-y"
                    ELSE IF R[1] # r THEN "R-x-differs" ELSE "ok"
=============================================================================
