CONSTANTS Big = FALSE CP = 43 CB = 7 CN = 31 CGx = 2 CGy = 12
WifKeys = {}
WifSuffixLens = {}
LongSuffixLen = 0
LongEvery = 1
B64Bytes = {}
B64Chars = {}
B64MaxChars = 0
WrapLens = {}
EmitRows = FALSE
Dev = "sec1nolen"
INIT Init
NEXT Next
INVARIANT Sec1AcceptExact
INVARIANT Sec1RoundTrip
INVARIANT WifExact
INVARIANT WifAcceptIsImage
INVARIANT PemPrivExact
INVARIANT PemPubExact
INVARIANT B64RoundTrip
INVARIANT B64AcceptExact
INVARIANT WrapExact
INVARIANT Emit
CHECK_DEADLOCK FALSE
