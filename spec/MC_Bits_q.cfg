CONSTANTS Keys = {1, 2, 3} Reward = 100000 Fee = 1000 Dust = 1000 MaxBlocks = 2 MaxSends = 2
SPECIFICATION Spec
INVARIANT Conservation
INVARIANT NoDoubleSpend
INVARIANT StoreBehindChain
INVARIANT UniqueIds
CHECK_DEADLOCK FALSE
