CONSTANTS HashLen = 2  Big = FALSE
INIT Init
NEXT Next
INVARIANT RoundTrip
INVARIANT TightParse
CHECK_DEADLOCK FALSE
