CONSTANTS LensSmall = {1, 75, 76, 255, 256}  LensBig = {}  EveryLen = 80
MaxBytes = 2  ByteAlpha = {0, 1, 76, 118}
WitLens = {0, 1, 252, 253, 256}  WitLens3 = {}  MaxRedeem = 80  Deviation = "witness-one-byte"
INIT Init
NEXT Next
INVARIANT AsmThenDisasm
INVARIANT AsmIsMinimal
INVARIANT HeaderIsShortestValidForm
INVARIANT DisasmThenAsm
INVARIANT WitnessRoundTrip
INVARIANT WitnessUsesCompactSize
INVARIANT TemplateDisassemblesToIntent
INVARIANT TemplateBytePatterns
CHECK_DEADLOCK FALSE
