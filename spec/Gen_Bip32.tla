----------------------------- MODULE Gen_Bip32 -----------------------------
(***************************************************************************)
(* Stage B for C09 (secp256k1 size, real HMAC-SHA512 through the Native    *)
(* overrides): TLC enumerates derivation SCENARIOS and computes what BIP32 *)
(* says about each; the harness turns every row into calls of              *)
(* derive_from_path / get_xpub and compares.                               *)
(*   shape    sequence of index classes: ALL shapes up to length MaxFull   *)
(*            plus, for each length in LongLens and rotation in Rots, a    *)
(*            shape stepping through the classes with an odd stride        *)
(*            (hardened / non-hardened mixes)                              *)
(*   classes  0, 1, 2^31-1, 2^31, 2^31+1, 2^32-1, random normal, random    *)
(*            hardened (random = bytes of SHA-256(GSeed, scenario, pos))   *)
(*   network  alternates; seed length cycles through 16..64; the neuter    *)
(*            point j (where M/... derivation starts) cycles through 0..L  *)
(* Row: seed, net, path, j, root xprv, per node the xprv / xpub strings,   *)
(* and from node j on the result of PUBLIC derivation (undefined as soon   *)
(* as a hardened component is met).  Scenarios s with s % NSlices = Slice  *)
(* are evaluated (one JVM per slice).                                      *)
(***************************************************************************)
EXTENDS Bip32, Secp256k1, Json, IOUtils, TLC, FiniteSets, SequencesExt
CONSTANTS GSeed, MaxFull, LongLens, Rots, Slice, NSlices

NClasses == 8
RECURSIVE SeqsUpTo(_, _)
SeqsUpTo(S, n) == IF n = 0 THEN {<<>>}
                  ELSE LET T == SeqsUpTo(S, n - 1) IN T \cup {Append(t, a) : t \in {u \in T : Len(u) = n - 1}, a \in S}
Stepping(len, r) == [t \in 1..len |-> ((r + (t * (1 + (2 * (r % 4))))) % NClasses) + 1]
Shapes == SetToSeq(SeqsUpTo(1..NClasses, MaxFull) \cup {Stepping(len, r) : len \in LongLens, r \in Rots})

Rnd(s, t)  == Take(Sha256(BE(GSeed, 4) \o BE(s, 4) \o BE(t, 4)), 4)
IndexOfClass(cl, s, t) ==
    CASE cl = 1 -> <<0, 0, 0, 0>>
      [] cl = 2 -> <<0, 0, 0, 1>>
      [] cl = 3 -> <<127, 255, 255, 255>>
      [] cl = 4 -> <<128, 0, 0, 0>>
      [] cl = 5 -> <<128, 0, 0, 1>>
      [] cl = 6 -> <<255, 255, 255, 255>>
      [] cl = 7 -> LET r == Rnd(s, t) IN <<r[1] % 128, r[2], r[3], r[4]>>
      [] cl = 8 -> LET r == Rnd(s, t) IN <<128 + (r[1] % 128), r[2], r[3], r[4]>>
SeedOf(s)  == Take(Sha512(BE(GSeed, 4) \o BE(s, 4)), 16 + (((s * 7) + GSeed) % 49))

Str(r)     == IF r.ok THEN XKeyStr(r.v) ELSE <<>>
Row(s) ==
    LET shape == Shapes[s]
        path  == [t \in 1..Len(shape) |-> IndexOfClass(shape[t], s, t)]
        net   == IF s % 2 = 0 THEN "main" ELSE "test"
        seed  == SeedOf(s)
        j     == (s \div 2) % (Len(path) + 1)
        ns    == PathNodes(MasterX(seed, net), path)
        nj    == ns[j + 1]
        pubs  == IF nj.x.ok THEN PubPathNodes([nj.x.v EXCEPT !.prv = FALSE, !.key = nj.K], SubSeq(path, j + 1, Len(path)))
                 ELSE [t \in 1..(Len(path) - j + 1) |-> Fail]
    IN [s |-> s, shape |-> shape, seed |-> seed, net |-> net, path |-> path, j |-> j,
        root |-> Str(ns[1].x),
        nodes |-> [t \in 1..Len(ns) |->
                     [ok   |-> ns[t].x.ok,
                      xprv |-> Str(ns[t].x),
                      xpub |-> IF ns[t].x.ok THEN XKeyStr([ns[t].x.v EXCEPT !.prv = FALSE, !.key = ns[t].K]) ELSE <<>>,
                      pubdef |-> t > j /\ pubs[t - j].ok,
                      pubstr |-> IF t > j THEN Str(pubs[t - j]) ELSE <<>>]]]
Sel  == {s \in 1..Len(Shapes) : s % NSlices = Slice}
Rows == [i \in 1..Cardinality(Sel) |-> Row(SetToSeq(Sel)[i])]
ASSUME JsonSerialize(IOEnv.OUT_FILE, Rows)
ASSUME PrintT(<<"ROWS", Len(Rows), "SCENARIOS", Len(Shapes)>>)
=============================================================================
