CONSTANTS Magic <- MainMagic  SpinOnEOF = FALSE
PayLens = {0, 1, 2, 5}  MaxMsgs = 3  FewPrefixes = TRUE  GenOnly = FALSE
SPECIFICATION Spec
INVARIANT TypeOK
INVARIANT InScript
INVARIANT NoBleed
INVARIANT NoOverRead
INVARIANT Exact
INVARIANT CorruptionDetected
INVARIANT Complete
INVARIANT EOFOnlyWhenShort
CHECK_DEADLOCK FALSE
