CONSTANTS Big = FALSE CP = 43 CB = 7 CN = 31 CGx = 2 CGy = 12
Ds = {1,2,16,30}
Zs = {0,1,2,3,4,5,6,7,8,9,10,11,12,13,14,15,16,17,18,19,20,21,22,23,24,25,26,27,28,29,30,31,32,33}
VerifyDs = {}
VerifyZs = {}
DerVals = {1,2,127,128,129,255,256,257,32767,32768,32769,65535,65536,65537,8388607,8388608,16777215,16777216,2147483647}
EmitRows = TRUE
INIT Init
NEXT Next
INVARIANT SignSound
INVARIANT SignUsesFirstGoodDraw
INVARIANT DerRoundTrip
INVARIANT Emit
CHECK_DEADLOCK FALSE
