CONSTANTS
ByteAlpha = {0, 1, 10, 48, 127, 128, 255}
MaxBytes = 3
HexAlpha = {48, 49, 55, 56, 97, 102, 70}
MaxHex = 4
MaxBits = 11
ZeroDigit = FALSE
INIT Init
NEXT Next
INVARIANT RoundTrip
INVARIANT RawExact
INVARIANT SameAsSpec
INVARIANT Padding
INVARIANT Newlines
INVARIANT ConvertLossless
CHECK_DEADLOCK FALSE
