CONSTANTS HashLen = 1  Big = TRUE
INIT Init
NEXT Next
INVARIANT RoundTrip
INVARIANT TightParse
CHECK_DEADLOCK FALSE
