------------------------------- MODULE MC_Cli -------------------------------
(* Stage A (layering): every configuration of the finite product is an initial  *)
(* state; the four pipeline steps of main() are the actions; the property's     *)
(* policy is the invariant on the final state.  Dev = {} is the intended        *)
(* discipline; the self-test configs switch one named deviation on and TLC must *)
(* produce the counterexample (vacuity guard).                                  *)
EXTENDS Cli
CONSTANTS Cmds, Opts, TomlModes, Dev
VARIABLES c, pc, ns, cfg
vars == <<c, pc, ns, cfg>>

Init == /\ c \in Configs(Cmds, Opts, TomlModes)
        /\ pc = "start"
        /\ ns = EmptyNs
        /\ cfg = [o \in Options |-> ""]

ParseArgs == /\ pc = "start"
             /\ ns' = Parse(c, Dev)
             /\ pc' = "parsed"
             /\ UNCHANGED <<c, cfg>>

InitConfig == /\ pc = "parsed"
              /\ cfg' = InitCfg(ns)
              /\ pc' = "init"
              /\ UNCHANGED <<c, ns>>

LoadToml == /\ pc = "init" /\ Chosen(c) = "toml"
            /\ cfg' = Overlay(cfg, Dict(c.toml, c.opt, c.unknown))
            /\ pc' = "loaded"
            /\ UNCHANGED <<c, ns>>

LoadJson == /\ pc = "init" /\ Chosen(c) = "json"
            /\ cfg' = Overlay(cfg, Dict(c.json, c.opt, c.unknown))
            /\ pc' = "loaded"
            /\ UNCHANGED <<c, ns>>

LoadNone == /\ pc = "init" /\ Chosen(c) = "none"
            /\ pc' = "loaded"
            /\ UNCHANGED <<c, ns, cfg>>

ApplyExplicit == /\ pc = "loaded"
                 /\ cfg' = Explicit(cfg, ns)
                 /\ pc' = "done"
                 /\ UNCHANGED <<c, ns>>

Next == ParseArgs \/ InitConfig \/ LoadToml \/ LoadJson \/ LoadNone \/ ApplyExplicit

(* ---- the property ---- *)
PolicyHolds   == pc = "done" => cfg[c.opt] = Policy(c)
(* explicit values are already in force before the file is read and survive it *)
ExplicitKept  == (pc \in {"init", "done"} /\ c.pos # "none") => cfg[c.opt] = c.xv
(* nothing else moves: keys the tool does not define are ignored, other options keep their defaults *)
OthersDefault == pc \notin {"start", "parsed"} => (DOMAIN cfg = Options /\ \A o \in Options \ {c.opt} : cfg[o] = Default(o))
(* the operator form used by Gen_Cli agrees with the step-by-step pipeline *)
OperatorForm  == pc = "done" => cfg = Effective(c, Dev)
(* the chosen source is what the statement says *)
SourceSound   == pc = "done" =>
                   CASE Source(c) = "explicit" -> c.pos # "none"
                     [] Source(c) = "toml"     -> c.pos = "none" /\ c.tomlsup /\ c.toml.kind = "key"
                     [] Source(c) = "json"     -> c.pos = "none" /\ c.json.kind = "key" /\ (c.toml.kind = "absent" \/ ~c.tomlsup)
                     [] Source(c) = "default"  -> c.pos = "none"
=============================================================================
