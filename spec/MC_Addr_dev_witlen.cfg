CONSTANTS Big = FALSE CP = 43 CB = 7 CN = 31 CGx = 2 CGy = 12
WitVers = {1}
WitLens = {2,20}
B58Vers = {}
EmitRows = FALSE
Deviation = "witlen"
INIT Init
NEXT Next
INVARIANT RoundTrip
CHECK_DEADLOCK FALSE
