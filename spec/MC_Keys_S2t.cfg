CONSTANTS Big = FALSE CP = 67 CB = 7 CN = 79 CGx = 2 CGy = 22
WifKeys = {0,1,78,79,80}
WifSuffixLens = {0,1}
LongSuffixLen = 64
LongEvery = 1
B64Bytes = {0,255}
B64Chars = {65,61}
B64MaxChars = 4
WrapLens = {47,48,49}
EmitRows = TRUE
Dev = "none"
INIT Init
NEXT Next
INVARIANT Sec1AcceptExact
INVARIANT Sec1RoundTrip
INVARIANT WifExact
INVARIANT WifAcceptIsImage
INVARIANT PemPrivExact
INVARIANT PemPubExact
INVARIANT B64RoundTrip
INVARIANT B64AcceptExact
INVARIANT WrapExact
INVARIANT Emit
CHECK_DEADLOCK FALSE
