--------------------------- MODULE MC_CompactSize ---------------------------
(* Stage A for CompactSize (C05).                                            *)
(*  Mode "digits": every digit string of up to MaxDigits digits at radix R   *)
(*     is a value case (high zeros included: they must not matter), every    *)
(*     digit string of up to MaxBuf digits is a buffer case.                 *)
(*  Mode "real": R = 256, values 0..Upto and 2^k-2..2^k+2 for k = 1..72.      *)
(* Cases are successors of partition states (a 2-digit prefix / a residue)   *)
(* so that TLC's workers share the enumeration; every case state is checked  *)
(* by the invariants below.  Deviation = "none" in every real check; the     *)
(* self-test configs switch a named deviation on and TLC must object.        *)
EXTENDS CompactSize, FiniteSets
CONSTANTS R, MaxDigits, MaxBuf, TrailLen, Mode, Upto, Deviation
VARIABLE c

Digits == 0..(R - 1)
RECURSIVE StringsOfLen(_)
StringsOfLen(n) == IF n = 0 THEN {<<>>} ELSE {Append(s, a) : s \in StringsOfLen(n - 1), a \in Digits}
StringsUpTo(n) == UNION {StringsOfLen(k) : k \in 0..n}
Trail == StringsUpTo(TrailLen) \cup {Rep(R - 1, 9), Rep(R - 3, 3), <<R - 2, 0>>}

(* little-endian increment / decrement on digit strings *)
RECURSIVE LeInc(_)
LeInc(v) == IF v = <<>> THEN <<1>>
            ELSE IF v[1] < R - 1 THEN <<v[1] + 1>> \o Tail(v) ELSE <<0>> \o LeInc(Tail(v))
RECURSIVE LeDec(_)
LeDec(v) == IF v[1] > 0 THEN <<v[1] - 1>> \o Tail(v) ELSE <<R - 1>> \o LeDec(Tail(v))
RECURSIVE P2(_)
P2(i) == IF i = 0 THEN 1 ELSE 2 * P2(i - 1)
PowerOfTwo(k) == Rep(0, k \div 8) \o <<P2(k % 8)>>
Around(v) == {CsStrip(LeDec(LeDec(v))), CsStrip(LeDec(v)), v, LeInc(v), LeInc(LeInc(v))}

PL == 2     \* prefix length of a partition
Case(k, v) == [k |-> k, v |-> v]
Init == c = Case("root", <<>>)
Next ==
    \/ /\ c.k = "root"
       /\ c' \in IF Mode = "digits"
                 THEN {Case("part", s) : s \in StringsOfLen(PL)}
                      \cup {Case("val", s) : s \in StringsUpTo(PL - 1)} \cup {Case("buf", s) : s \in StringsUpTo(PL - 1)}
                 ELSE {Case("part", <<p>>) : p \in 0..63}
                      \cup {Case("val", v) : v \in UNION {Around(PowerOfTwo(k)) : k \in 1..72}}
    \/ /\ c.k = "part"
       /\ c' \in IF Mode = "digits"
                 THEN {Case("val", c.v \o s) : s \in StringsUpTo(MaxDigits - PL)}
                      \cup {Case("buf", c.v \o s) : s \in StringsUpTo(MaxBuf - PL)}
                 ELSE {Case("val", NatToLE(c.v[1] + 64 * j)) : j \in 0..((Upto - c.v[1]) \div 64)}

(* ---- the encoder under judgement (deviations only in self-test configs) ---- *)
Enc(v) == IF Deviation = "none-above-max" /\ Len(CsStrip(v)) > 8 THEN Ok(<<>>)          \* F10: no refusal
          ELSE IF Deviation = "threshold" /\ CsStrip(v) = <<R - 3>> THEN Ok(<<R - 3>>)     \* 253 as one byte
          ELSE CsEncR(v, R)
Dec(b) == CsDecR(b, R)

IsVal == c.k = "val"
IsBuf == c.k = "buf"
Sig   == CsStrip(c.v)

(* which of the four forms can hold the value: 0 = the digit itself *)
Fits(w) == IF w = 0 THEN Len(Sig) = 0 \/ (Len(Sig) = 1 /\ Sig[1] <= R - 4) ELSE Len(Sig) <= w
Forms == {0, 2, 4, 8}
Form(w) == IF w = 0 THEN (IF Sig = <<>> THEN <<0>> ELSE Sig)
           ELSE <<(IF w = 2 THEN R - 3 ELSE IF w = 4 THEN R - 2 ELSE R - 1)>> \o CsPad(Sig, w)

RefusedExactlyOutOfRange == IsVal => (Enc(c.v).ok <=> Len(Sig) <= 8)
RoundTripAnyTrailing ==
    IsVal /\ Enc(c.v).ok =>
        \A u \in Trail : Dec(Enc(c.v).v \o u) = Ok([v |-> Sig, n |-> Len(Enc(c.v).v), rest |-> u])
ShortestForm ==
    IsVal /\ Enc(c.v).ok =>
        /\ \E w \in Forms : Fits(w) /\ Enc(c.v).v = Form(w)
        /\ \A w \in Forms : Fits(w) => /\ Len(Enc(c.v).v) <= Len(Form(w))
                                       /\ CsDecAnyR(Form(w), R) = Ok([v |-> Sig, n |-> 1 + w, rest |-> <<>>])
                                       /\ (Dec(Form(w)).ok <=> Form(w) = Enc(c.v).v)
HighZerosIrrelevant == IsVal => Enc(c.v) = Enc(Sig) /\ Enc(c.v) = Enc(c.v \o <<0, 0>>)
DigitsInRange == IsVal /\ Enc(c.v).ok => \A i \in 1..Len(Enc(c.v).v) : Enc(c.v).v[i] \in Digits
(* arbitrary buffers: decode succeeds iff long enough and canonical; accepted prefix re-encodes to itself *)
DecodeOfBuffer ==
    IsBuf =>
        LET d == Dec(c.v)
            a == CsDecAnyR(c.v, R)
        IN /\ a.ok <=> (c.v # <<>> /\ Len(c.v) >= 1 + CsWidthR(c.v[1], R))
           /\ d.ok => /\ a = d
                      /\ Take(c.v, d.v.n) \o d.v.rest = c.v
                      /\ Enc(d.v.v) = Ok(Take(c.v, d.v.n))
           /\ (a.ok /\ ~d.ok) => Len(CsEncR(a.v.v, R).v) < a.v.n
=============================================================================
