CONSTANTS Big = FALSE CP = 43 CB = 7 CN = 31 CGx = 2 CGy = 12
ClassLevelMnemonic = FALSE
MaxWallets = 3
PassSel = {1, 2, 3}
Strengths = {8, 16, 12}
GivenSel = {1, 2, 3, 4}
PathIdxSel = {1, 4, 5}
MaxPathLen = 2
ChildIdxSel = {1, 2, 3, 4, 5, 6}
MaxDepth = 4
ScriptSel = {1, 2}
Interleave = TRUE
KeyStr <- MCKeyStr
KeyOf <- MCKeyOf
AddrStr <- MCAddrStr
INIT MCInit
NEXT SimNext
CHECK_DEADLOCK FALSE
