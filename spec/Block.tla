-------------------------------- MODULE Block --------------------------------
(***************************************************************************)
(* Block header and block (de)serialisation (C15) over Tx.tla.             *)
(*                                                                         *)
(*   header  [version 4, prev 32, merkle 32, time 4, bits 4, nonce 4]      *)
(*           byte sequences exactly as on the wire (little-endian numbers, *)
(*           hashes in internal order): 80 bytes                           *)
(*   block   header ++ CompactSize(#txs) ++ the transactions               *)
(*                                                                         *)
(* BlockDeser is a cursor machine (BdInit / BdStep): one step for the      *)
(* header, one for the count, ONE PER TRANSACTION (Tx!TxDeserAt); every    *)
(* parsed transaction is returned with its raw bytes (exactly the bytes    *)
(* consumed), its txid = HASH256(serialisation without witness) and its    *)
(* wtxid.  TxidOf is a parameter point for the self-test deviation.        *)
(***************************************************************************)
EXTENDS Tx

Header(version, prev, merkle, time, bits, nonce) ==
    [version |-> version, prev |-> prev, merkle |-> merkle, time |-> time, bits |-> bits, nonce |-> nonce]
WellFormedHeader(h) == /\ Len(h.version) = 4 /\ Len(h.prev) = 32 /\ Len(h.merkle) = 32
                       /\ Len(h.time) = 4 /\ Len(h.bits) = 4 /\ Len(h.nonce) = 4
HeaderSer(h) == h.version \o h.prev \o h.merkle \o h.time \o h.bits \o h.nonce
HeaderDeser(b) ==
    IF Len(b) # 80 THEN Fail
    ELSE Ok(Header(SubSeq(b, 1, 4), SubSeq(b, 5, 36), SubSeq(b, 37, 68), SubSeq(b, 69, 72), SubSeq(b, 73, 76),
                   SubSeq(b, 77, 80)))
BlockHash(h) == Hash256(HeaderSer(h))

BlockSerRaw(hdr80, raws) == hdr80 \o CsEncNat(Len(raws)) \o Concat(raws)
BlockSer(h, txs) == BlockSerRaw(HeaderSer(h), [i \in 1..Len(txs) |-> TxSer(txs[i])])

(* ---- the deserialisation machine ---- *)
BdInit(b) == [pc |-> "Header", b |-> b, pos |-> 1, left |-> 0, hdr |-> Header(<<>>, <<>>, <<>>, <<>>, <<>>, <<>>),
              txs |-> <<>>]
BdFailed(m) == [m EXCEPT !.pc = "Fail"]
BdDone(m) == m.pc \in {"Done", "Fail"}
BdStepHeader(m) ==
    IF Len(m.b) < 80 THEN BdFailed(m)
    ELSE [m EXCEPT !.hdr = HeaderDeser(SubSeq(m.b, 1, 80)).v, !.pos = 81, !.pc = "Count"]
BdAfterTx(m) == IF m.left > 0 THEN "Tx" ELSE IF m.pos = Len(m.b) + 1 THEN "Done" ELSE "Fail"   \* nothing may follow
BdStepCount(m) ==
    LET c == CsDecNatAt(m.b, m.pos) IN
    IF ~c.ok THEN BdFailed(m)
    ELSE LET m2 == [m EXCEPT !.left = c.v.v, !.pos = @ + c.v.n] IN [m2 EXCEPT !.pc = BdAfterTx(m2)]
BdEntry(b, from, r) ==
    [t |-> r.t, raw |-> SubSeq(b, from, r.pos - 1), txid |-> Txid(r.t), wtxid |-> Wtxid(r.t)]
BdStepTx(m) ==
    LET r == TxDeserAt(m.b, m.pos) IN
    IF ~r.ok THEN BdFailed(m)
    ELSE LET m2 == [m EXCEPT !.txs = Append(@, BdEntry(m.b, m.pos, r.v)), !.pos = r.v.pos, !.left = @ - 1]
         IN [m2 EXCEPT !.pc = BdAfterTx(m2)]
BdStep(m) == CASE m.pc = "Header" -> BdStepHeader(m)
               [] m.pc = "Count"  -> BdStepCount(m)
               [] m.pc = "Tx"     -> BdStepTx(m)
RECURSIVE BdRun(_)
BdRun(m) == IF BdDone(m) THEN m ELSE BdRun(BdStep(m))
BlockDeser(b) == LET m == BdRun(BdInit(b)) IN
                 IF m.pc = "Done" THEN Ok([hdr |-> m.hdr, txs |-> m.txs]) ELSE Fail
=============================================================================
