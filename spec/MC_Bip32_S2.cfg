CONSTANTS Big = FALSE CP = 67 CB = 7 CN = 79 CGx = 2 CGy = 22
CCs = {0, 1, 2}
NSeeds = 300
Dev = "none"
INIT Init
NEXT Next
INVARIANT Commute
INVARIANT HardenedFromPublicFails
INVARIANT FailsExactly
INVARIANT CkdRange
INVARIANT DataShape
INVARIANT MasterRule
INVARIANT Bookkeeping
INVARIANT XCommute
INVARIANT RoundTrip
INVARIANT RejectionTable
INVARIANT StrLevel
INVARIANT Census
CHECK_DEADLOCK FALSE
