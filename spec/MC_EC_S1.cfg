CONSTANTS EmitRows = TRUE Big = FALSE CP = 43 CB = 7 CN = 31 CGx = 2 CGy = 12
INIT Init
NEXT Next
INVARIANT Closure
INVARIANT Commut
INVARIANT Identity
INVARIANT Inverse
INVARIANT MulIsRepAdd
INVARIANT MulOrder
INVARIANT Distrib
INVARIANT MulLoopInv
INVARIANT KeyGenRange
INVARIANT Emit
CHECK_DEADLOCK FALSE
