---------------------------- MODULE Trace_P2PMore ----------------------------
(* Stage C of the P2PMore extension: one event per call of a real bits.p2p function,                       *)
(*   [id, k, v | b | cmd : the input (JSON shape = the case records of MC_P2PMore), got : [ok, v]]          *)
(* judged at the real sizes (HashLen 32, HdrLen 80).  Verdict: "ok" or the name of the failing clause.      *)
EXTENDS P2PMore, Json, IOUtils, TLC
Trace == JsonDeserialize(IOEnv.TRACE_FILE)
VARIABLE l

S(x) == [i \in 1..Len(x) |-> x[i]]
SS(x) == [i \in 1..Len(x) |-> S(x[i])]
ToCase(e) ==
    CASE e.k = "getblocks" -> [k |-> e.k, v |-> [pv |-> S(e.v.pv), hashes |-> SS(e.v.hashes)]]
      [] e.k = "headers" -> [k |-> e.k, v |-> [headers |-> SS(e.v.headers)]]
      [] e.k \in {"feefilter", "sendcmpct", "badinventory"} -> [k |-> e.k, b |-> S(e.b)]
      [] e.k = "inventory" -> [k |-> e.k, v |-> [type |-> e.v.type, hash |-> S(e.v.hash)]]
      [] e.k = "netaddr" -> [k |-> e.k, v |-> [time |-> S(e.v.time), services |-> S(e.v.services), ip |-> S(e.v.ip), port |-> e.v.port]]
      [] e.k = "dispatch" -> [k |-> e.k, cmd |-> e.cmd, b |-> S(e.b)]
(* the harness renders every result as a flat byte list (bytes built, or the parsed fields re-serialised in the wire order), *)
(* "none" as <<>> with none = TRUE *)
IsNoneCase(x) == x.k = "dispatch" /\ x.cmd \notin Parsed
Flat(x, r) ==
    IF ~r.ok THEN <<>>
    ELSE CASE x.k \in {"getblocks", "headers", "inventory", "netaddr"} -> r.v
           [] x.k = "feefilter" -> r.v.feerate
           [] x.k = "sendcmpct" -> <<r.v.announce>> \o r.v.version
           [] x.k = "badinventory" -> BuildInventory(r.v)
           [] x.k = "dispatch" -> IF IsNoneCase(x) THEN <<>> ELSE x.b      \* every parser is tight: the parsed value determines the bytes
Verdict(e) ==
    LET x == ToCase(e)
        want == Expected(x)
    IN  IF want.ok # e.got.ok THEN (IF want.ok THEN e.k \o "-refused" ELSE e.k \o "-accepted-malformed")
        ELSE IF ~want.ok THEN "ok"
        ELSE IF x.k = "dispatch" /\ IsNoneCase(x) # e.got.none THEN "dispatch-wrong-parser"
        ELSE IF S(e.got.v) # Flat(x, want) THEN e.k \o "-differs"
        ELSE "ok"
Init == l = 1
Next == /\ l <= Len(Trace)
        /\ PrintT(<<"V", Trace[l].id, Verdict(Trace[l])>>)
        /\ l' = l + 1
=============================================================================
