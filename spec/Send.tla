-------------------------------- MODULE Send --------------------------------
(***************************************************************************)
(* The send utility (C16): bits.tx.send_tx builds a transaction that moves *)
(* a fraction of the sender's reported unspent outputs to a recipient.     *)
(*                                                                         *)
(* Build machine (one action per step of the code): Scan -> Select* ->     *)
(* Outputs -> (Sign per input).  SendBuild is its functional form and      *)
(* gives the reference transaction skeleton; SendOk is the PROPERTY as a   *)
(* predicate of any returned transaction (inputs are reported outputs,     *)
(* exact values, recipient = requested - fee, change rule, conservation).  *)
(* Amounts are Num values (satoshis exceed 2^31).                          *)
(*   utxo = [txid (32 bytes, internal order), vout (4 bytes LE), sat,   *)
(*           script];  p = [num, den, fee, version (4 bytes), lock (4      *)
(*           bytes), recip, change (scripts)]                              *)
(***************************************************************************)
EXTENDS Spend

Dust == NLit(1000)
RECURSIVE SumFirst(_, _)
SumFirst(utxos, k) == IF k = 0 THEN NZero ELSE NAdd(SumFirst(utxos, k - 1), utxos[k].sat)
Total(utxos)       == SumFirst(utxos, Len(utxos))
Requested(utxos, p) == NDiv(NMul(Total(utxos), NLit(p.num)), NLit(p.den))          \* floor(fraction * total)
(* the property does not say how a fractional satoshi of "fraction x total" is rounded: floor and ceiling are both "the requested amount" *)
RequestedCeil(utxos, p) == LET f == Requested(utxos, p)
                           IN IF NMul(f, NLit(p.den)) = NMul(Total(utxos), NLit(p.num)) THEN f ELSE NAdd(f, NLit(1))

(* the selection loop: take outputs in the reported order until the running total covers the request *)
RECURSIVE SelectFrom(_, _, _)
SelectFrom(utxos, req, k) == IF k >= Len(utxos) \/ (k >= 1 /\ NLe(req, SumFirst(utxos, k))) THEN k
                             ELSE SelectFrom(utxos, req, k + 1)
SelectCount(utxos, p) == SelectFrom(utxos, Requested(utxos, p), 1)

Sat8(v) == Rev(NToBE(v, 8))                      \* 8-byte little-endian amount
ValOf(o) == NFromBE(Rev(o.value))

OutputsFor(inSum, req, p) ==
    <<TxOut(Sat8(NSub(req, p.fee)), p.recip)>>
    \o (IF NLe(Dust, NSub(inSum, req)) THEN <<TxOut(Sat8(NSub(inSum, req)), p.change)>> ELSE <<>>)

SendBuild(utxos, p) ==
    LET k == SelectCount(utxos, p)  req == Requested(utxos, p)
    IN MkTx(p.version, [j \in 1..k |-> TxIn(utxos[j].txid, utxos[j].vout, <<>>, <<255, 255, 255, 255>>)],
            OutputsFor(SumFirst(utxos, k), req, p), <<>>, p.lock)

(* ----- the property, for an arbitrary returned transaction t ----- *)
UtxoOf(utxos, inp) == {j \in 1..Len(utxos) : utxos[j].txid = inp.txid /\ utxos[j].vout = inp.vout}
InputsReported(t, utxos) ==
    /\ \A i \in 1..Len(t.ins) : UtxoOf(utxos, t.ins[i]) # {}
    /\ \A i, j \in 1..Len(t.ins) : i # j => <<t.ins[i].txid, t.ins[i].vout>> # <<t.ins[j].txid, t.ins[j].vout>>
UtxoIdx(utxos, inp) == CHOOSE j \in UtxoOf(utxos, inp) : TRUE
RECURSIVE InSum(_, _, _)
InSum(t, utxos, i) == IF i = 0 THEN NZero ELSE NAdd(InSum(t, utxos, i - 1), utxos[UtxoIdx(utxos, t.ins[i])].sat)
RECURSIVE OutSum(_, _)
OutSum(t, i) == IF i = 0 THEN NZero ELSE NAdd(OutSum(t, i - 1), ValOf(t.outs[i]))

(* returns "ok" or the name of the first clause of the property that fails *)
SendClause(t, utxos, p) ==
    IF ~InputsReported(t, utxos) THEN "spends-unreported-or-duplicate-output"
    ELSE IF Len(t.outs) < 1 \/ t.outs[1].script # p.recip THEN "recipient-output-wrong"
    ELSE LET inSum == InSum(t, utxos, Len(t.ins))
             req   == NAdd(ValOf(t.outs[1]), p.fee) IN          \* the amount the transaction treats as requested
      IF t.version # p.version \/ t.locktime # p.lock THEN "version-or-locktime-not-as-requested"
      ELSE IF req # Requested(utxos, p) /\ req # RequestedCeil(utxos, p) THEN "recipient-output-wrong"
      ELSE IF NLt(inSum, req) THEN "inputs-do-not-cover-requested-amount"
      ELSE IF NLe(Dust, NSub(inSum, req)) /\ (Len(t.outs) # 2 \/ t.outs[2] # TxOut(Sat8(NSub(inSum, req)), p.change))
           THEN "change-output-wrong"
      ELSE IF NLt(NSub(inSum, req), Dust) /\ Len(t.outs) # 1 THEN "unexpected-extra-output"
      ELSE IF NAdd(NAdd(OutSum(t, Len(t.outs)), p.fee), IF NLt(NSub(inSum, req), Dust) THEN NSub(inSum, req) ELSE NZero) # inSum
           THEN "value-not-conserved"
      ELSE "ok"
=============================================================================
