CONSTANTS Seed = 0  Profile = "g"  Part = 0  Parts = 1
          MaxEnv = 0  MaxNonce = 6000  DevMedianTime = FALSE  DevSkipNonceZero = FALSE
          SubsidyBase <- BaseReal
INIT Init
NEXT Next
INVARIANT EmitScenario
INVARIANT EmitResult
CHECK_DEADLOCK FALSE
