\* vacuity guard: with the deviation IbdAppendsAgain enabled TLC MUST report a violation
CONSTANTS NPeers = 1  MaxMsgs = 1  Kinds = {"ping", "inv"}  Faults = TRUE
MaxStops = 1  MaxIbd = 2  DirectKinds = {}  MaxDirect = 0  Devs = {"IbdAppendsAgain"}
SeedSet = {1}  RpcSet = {FALSE}
SPECIFICATION Spec
INVARIANT IbdOnce
CHECK_DEADLOCK FALSE
