CONSTANTS MaxH = 70000  Chunk = 1000  MinimalBug = TRUE
INIT Init
NEXT Next
INVARIANT HeightPushCorrect
INVARIANT MinimalityDiscriminates
INVARIANT SubsidyCorrect
INVARIANT SchedulesDiffer
INVARIANT ClaimCorrect
INVARIANT LayoutCorrect
CHECK_DEADLOCK FALSE
