\* serve_rpc=True: the XML-RPC thread races with stop(); ibd twice; direct handler calls
CONSTANTS NPeers = 1  MaxMsgs = 1  Kinds = {"ping", "inv"}  Faults = TRUE
MaxStops = 2  MaxIbd = 2  DirectKinds = {"inv500", "feefilter"}  MaxDirect = 1  Devs = {}
SeedSet = {0, 1}  RpcSet = {TRUE}
SPECIFICATION Spec
INVARIANT TypeOK
INVARIANT Numbering
INVARIANT HelloFirst
INVARIANT CloseOnce
INVARIANT AfterStopBounded
INVARIANT Accounted
INVARIANT NoStrangers
INVARIANT StoppedMeans
INVARIANT ExitOnlyByStop
INVARIANT IbdOnce
PROPERTY QuietAfterExit
PROPERTY AppendOnly
PROPERTY StopTerminates
PROPERTY StopReturns
PROPERTY RpcTerminates
CHECK_DEADLOCK FALSE
