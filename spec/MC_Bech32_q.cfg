CONSTANTS
Vers = {0,1,2,3,4,5,6,7,8,9,10,11,12,13,14,15,16}
Lens = {2,3,5,6,20,32,40}
InvVers = {0,1,16,17,31}
InvLens = {0,1,2,20,21,32,40,41}
SubKinds = {0,1}
EmitRows = TRUE
Deviation = "none"
INIT Init
NEXT Next
INVARIANT RoundTrip
INVARIANT UpperAccepted
INVARIANT MixedRejected
INVARIANT SwapRejected
INVARIANT PadRejected
INVARIANT ExtraSymbolCanonical
INVARIANT InvalidRejected
INVARIANT SubRejected
INVARIANT Emit
CHECK_DEADLOCK FALSE
