CONSTANTS Big = FALSE CP = 79 CB = 6 CN = 67 CGx = 5 CGy = 17
INIT Init
NEXT Next
INVARIANT Assoc
CHECK_DEADLOCK FALSE
