CONSTANTS Big = FALSE CP = 67 CB = 7 CN = 79 CGx = 2 CGy = 22
Ds = {}
Zs = {}
VerifyDs = {1,78}
VerifyZs = {0,1,79,80}
DerVals = {}
EmitRows = TRUE
INIT Init
NEXT Next
INVARIANT VerifyExact
INVARIANT OffCurveRejected
INVARIANT Emit
CHECK_DEADLOCK FALSE
