---------------------------- MODULE MC_BlockStore ----------------------------
(* Stage A for C19: bounded histories of write batches over a scaled file limit. *)
EXTENDS BlockStore
CONSTANTS Sizes,        \* block-size alphabet (record = size + OVERHEAD)
          MaxBatches,   \* calls per history
          MaxPerBatch,  \* blocks per call
          InitDirs,     \* pre-populated directories (sequences of files, each a sequence of block sizes)
          WithCrash     \* BOOLEAN: the Crash action is part of the model

Full(n)   == [i \in 1..n |-> <<MAX - OVERHEAD>>]        \* n files holding one record that fills them exactly
(* empty; one partly filled file; one exactly full file; a non-full file followed by another one;  *)
(* 11 files (blk00000..blk00010: names beyond blk00009) with room in the last; 12 full files        *)
DirsSmall == {<<>>, <<<<4>>>>, <<<<MAX - OVERHEAD>>>>, <<<<8>>, <<0, 0>>>>}
DirsMany  == {Full(10) \o <<<<4>>>>, Full(12)}
DirsAll   == DirsSmall \cup DirsMany
DirsOne   == {<<>>}

Batches == UNION {[1..n -> Sizes] : n \in 0..MaxPerBatch}
Init == \E d \in InitDirs : InitWith(d)
BeginAny == nbatch < MaxBatches /\ \E ss \in Batches : Begin(ss)
FlushAny == \E k \in FlushPoints : FlushSome(k)
CrashAny == WithCrash /\ Crash
Next == BeginAny \/ Open \/ Write \/ RollClose \/ RollOpen \/ RollRaise \/ Close \/ FlushAny \/ CrashAny
Spec == Init /\ [][Next]_vars
=============================================================================
