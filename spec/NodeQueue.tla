------------------------------ MODULE NodeQueue ------------------------------
(***************************************************************************)
(* C18 - the node's per-peer receive threads and the shared message queue. *)
(*                                                                         *)
(* One action per critical section of Node.recv_loop.  Intended discipline *)
(* (Racy = FALSE):   Recv -> Test -> Enqueue | Handle                      *)
(* Named deviation (Racy = TRUE; the pinned code before the fix, kept so   *)
(* that traces of such code are explainable and the race is demonstrated   *)
(* at the design level):  Recv -> RAppend -> RTest -> RPop -> Handle       *)
(***************************************************************************)
EXTENDS Naturals, Sequences, FiniteSets, SequencesExt

CONSTANTS Peers,          \* set of peer numbers
          Racy,           \* BOOLEAN: allow the enqueue-then-pop deviation
          Connect         \* BOOLEAN: peers are attached through Node.connect_peer, which sends our version message
                          \*          to the peer before its receive thread starts (the handshake's first half)

Kinds      == {"ping", "version", "verack", "inv", "addr", "unknown"}
Registered == {"version", "verack", "ping"}

VARIABLES script,   \* script[p] : sequence of [k : kind, n : tag] the peer sends
          pc,       \* pc[p]     : control state of p's receive thread
          idx,      \* idx[p]    : number of the message being processed (0 = none yet)
          queue,    \* the shared queue: sequence of <<peer, kind, tag>>
          sent,     \* sent[p]   : replies written to p's socket: sequence of <<kind, tag>>
          vdata     \* vdata[p]  : tag of the stored version payload (0 = none)
vars == <<script, pc, idx, queue, sent, vdata>>

Cur(p)  == script[p][idx[p]]
Msg(p)  == <<p, Cur(p).k, Cur(p).n>>
Reply(m) == IF m.k = "ping" THEN <<<<"pong", m.n>>>>
            ELSE IF m.k = "version" THEN <<<<"verack", 0>>>> ELSE <<>>

TypeOK == /\ pc \in [Peers -> {"recv", "got", "enq", "handle", "rtest", "rpop", "done"}]
          /\ idx \in [Peers -> Nat]

Hello == IF Connect THEN <<<<"version", 0>>>> ELSE <<>>
InitWith(s) == /\ script = s
               /\ pc = [p \in Peers |-> "recv"]
               /\ idx = [p \in Peers |-> 0]
               /\ queue = <<>>
               /\ sent = [p \in Peers |-> Hello]
               /\ vdata = [p \in Peers |-> 0]

(* ---- receive: take the next message of p's stream, or finish at end of stream ---- *)
Recv(p) == /\ pc[p] = "recv"
           /\ idx[p] < Len(script[p])
           /\ idx' = [idx EXCEPT ![p] = @ + 1]
           /\ pc' = [pc EXCEPT ![p] = "got"]
           /\ UNCHANGED <<script, queue, sent, vdata>>
Finish(p) == /\ pc[p] = "recv"
             /\ idx[p] = Len(script[p])
             /\ pc' = [pc EXCEPT ![p] = "done"]
             /\ UNCHANGED <<script, idx, queue, sent, vdata>>

(* ---- intended discipline ---- *)
Test(p) == /\ pc[p] = "got"
           /\ pc' = [pc EXCEPT ![p] = IF Cur(p).k \in Registered THEN "handle" ELSE "enq"]
           /\ UNCHANGED <<script, idx, queue, sent, vdata>>
Enqueue(p) == /\ pc[p] = "enq"
              /\ queue' = Append(queue, Msg(p))
              /\ pc' = [pc EXCEPT ![p] = "recv"]
              /\ UNCHANGED <<script, idx, sent, vdata>>
(* the handler: reply to the SAME peer, remember a version payload *)
Handle(p) == /\ pc[p] = "handle"
             /\ sent' = [sent EXCEPT ![p] = @ \o Reply(Cur(p))]
             /\ vdata' = [vdata EXCEPT ![p] = IF Cur(p).k = "version" THEN Cur(p).n ELSE @]
             /\ pc' = [pc EXCEPT ![p] = "recv"]
             /\ UNCHANGED <<script, idx, queue>>

(* ---- named deviation: append first, test, pop the LAST element, handle ---- *)
RAppend(p) == /\ Racy /\ pc[p] = "got"
              /\ queue' = Append(queue, Msg(p))
              /\ pc' = [pc EXCEPT ![p] = "rtest"]
              /\ UNCHANGED <<script, idx, sent, vdata>>
RTest(p) == /\ Racy /\ pc[p] = "rtest"
            /\ pc' = [pc EXCEPT ![p] = IF Cur(p).k \in Registered THEN "rpop" ELSE "recv"]
            /\ UNCHANGED <<script, idx, queue, sent, vdata>>
RPop(p) == /\ Racy /\ pc[p] = "rpop"
           /\ queue # <<>>
           /\ queue' = SubSeq(queue, 1, Len(queue) - 1)
           /\ pc' = [pc EXCEPT ![p] = "handle"]
           /\ UNCHANGED <<script, idx, sent, vdata>>

Step(p) == Recv(p) \/ Finish(p) \/ Test(p) \/ Enqueue(p) \/ Handle(p) \/ RAppend(p) \/ RTest(p) \/ RPop(p)
Next == \E p \in Peers : Step(p)

(* ------------------------------ properties ------------------------------ *)
Quiescent == \A p \in Peers : pc[p] = "done"
ProjOf(q, p) == SelectSeq(q, LAMBDA m : m[1] = p)
Proj(p)   == ProjOf(queue, p)
RECURSIVE UnregFrom(_, _, _)
UnregFrom(p, s, i) == IF i > Len(s) THEN <<>>
                      ELSE (IF s[i].k \in Registered THEN <<>> ELSE <<<<p, s[i].k, s[i].n>>>>) \o UnregFrom(p, s, i + 1)
Unreg(p)  == UnregFrom(p, script[p], 1)
RECURSIVE RepliesFrom(_, _)
RepliesFrom(s, i) == IF i > Len(s) THEN <<>> ELSE Reply(s[i]) \o RepliesFrom(s, i + 1)
Replies(p) == Hello \o RepliesFrom(script[p], 1)

RECURSIVE LastVersion(_, _)
LastVersion(s, i) == IF i = 0 THEN 0 ELSE IF s[i].k = "version" THEN s[i].n ELSE LastVersion(s, i - 1)
(* the same properties as predicates of an observed (queue, sent, vdata), used by the trace validator *)
ExactlyOnceOf(q)   == \A p \in Peers : ProjOf(q, p) = Unreg(p)
NoStrangersOf(q)   == \A i \in 1..Len(q) : q[i][1] \in Peers
RepliesExactOf(s)  == \A p \in Peers : s[p] = Replies(p)
RepliesPrefixOf(s) == \A p \in Peers : IsPrefix(s[p], Replies(p))
VersionStoredOf(v) == \A p \in Peers : v[p] = LastVersion(script[p], Len(script[p]))
NeverRemovedStep(q, q2) == \A i \in 1..Len(q) : q[i][2] \notin Registered => \E j \in 1..Len(q2) : q2[j] = q[i]

(* every unhandled message is queued exactly once, attributed, in per-peer order; nothing else is queued *)
ExactlyOnce   == Quiescent => ExactlyOnceOf(queue)
NoStrangers   == Quiescent => NoStrangersOf(queue)
(* every handled message is answered exactly once, to its sender, in order *)
RepliesExact  == Quiescent => RepliesExactOf(sent)
RepliesPrefix == RepliesPrefixOf(sent)
VersionStored == Quiescent => VersionStoredOf(vdata)
(* an unregistered message, once queued, is never removed *)
NeverRemoved  == [][NeverRemovedStep(queue, queue')]_vars
=============================================================================
