CONSTANTS Big = FALSE CP = 79 CB = 6 CN = 67 CGx = 5 CGy = 17
Ds = {}
Zs = {}
VerifyDs = {1,2,3,33,65,66}
VerifyZs = {0,1,2,66,67,68,69}
DerVals = {}
EmitRows = TRUE
INIT Init
NEXT Next
INVARIANT VerifyExact
INVARIANT OffCurveRejected
INVARIANT Emit
CHECK_DEADLOCK FALSE
