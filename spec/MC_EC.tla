-------------------------------- MODULE MC_EC --------------------------------
(* Stage A for C03: the group law on ALL points of a small curve.            *)
EXTENDS EC, FiniteSets, TLC
CONSTANT EmitRows
VARIABLE c
F == 0..(CP - 1)
Pts == {Inf} \cup {<<x, y>> \in F \X F : OnCurve(x, y)}
KMax == CN + 3
(* one "group" state per point; its successors are the cases about that point (parallel evaluation) *)
CasesOf(p) == [k : {"pair"}, p : {p}, q : Pts]
         \cup [k : {"mul"}, p : {p}, q : {Inf}, n : 0..KMax]
         \cup [k : {"dist"}, p : {p}, q : {Inf}, a : {0, 1, 2, CN - 1, CN, CN + 1, 7}, b : {0, 1, 2, 3, 5, 11, CN - 2, CN - 1, CN, CN + 1}]
Init == c \in [k : {"group"}, p : Pts]
Next == c.k = "group" /\ c' \in CasesOf(c.p)

RECURSIVE RepAdd(_, _)
RepAdd(n, p) == IF n = 0 THEN Inf ELSE PointAdd(RepAdd(n - 1, p), p)

ASSUME Cardinality(Pts) = CN
Closure    == c.k = "pair" => IsPoint(PointAdd(c.p, c.q))
Commut     == c.k = "pair" => PointAdd(c.p, c.q) = PointAdd(c.q, c.p)
Identity   == c.k = "pair" => PointAdd(c.p, Inf) = c.p /\ PointAdd(Inf, c.p) = c.p
Inverse    == c.k = "pair" => PointAdd(c.p, Neg(c.p)) = Inf /\ IsPoint(Neg(c.p))
MulIsRepAdd == c.k = "mul" => ScalarMul(c.n, c.p) = RepAdd(c.n, c.p)
MulOrder   == c.k = "mul" => ScalarMul(CN, c.p) = Inf /\ ScalarMul(c.n, c.p) = ScalarMul(c.n % CN, c.p)
Distrib    == c.k = "dist" => /\ ScalarMul(c.a + c.b, c.p) = PointAdd(ScalarMul(c.a, c.p), ScalarMul(c.b, c.p))
                              /\ ScalarMul(c.a, ScalarMul(c.b, c.p)) = ScalarMul(c.a * c.b, c.p)
(* loop invariant of the double-and-add machine: after processing bits above `bit`, acc = (k >> (bit+1)) P *)
RECURSIVE LoopInv(_, _, _, _)
LoopInv(acc, k, bit, p) == /\ acc = RepAdd(k \div Pow2(bit + 1), p)
                           /\ (bit >= 0 => LoopInv(MulStep(acc, k, bit, p), k, bit - 1, p))
MulLoopInv == c.k = "mul" => LoopInv(Inf, c.n, NBitLen(c.n) - 1, c.p)
KeyGenRange == c.k = "mul" /\ c.n < CN => (ValidPriv(c.n) <=> c.n \in 1..(CN - 1))
Row == CASE c.k = "pair" -> <<"R", "padd", c.p, c.q, PointAdd(c.p, c.q)>>
         [] c.k = "mul"  -> <<"R", "smul", c.n, c.p, ScalarMul(c.n, c.p)>>
         [] OTHER -> <<"R", "none">>
Emit == (EmitRows /\ c.k \in {"pair", "mul"}) => PrintT(Row)
=============================================================================
