CONSTANTS Big = FALSE CP = 43 CB = 7 CN = 31 CGx = 2 CGy = 12
WifKeys = {0,1,30,31,1000,1001}
WifSuffixLens = {0,1,2}
LongSuffixLen = 120
LongEvery = 5
B64Bytes = {0,1,127,128,255}
B64Chars = {65,66,81,119,47,61,10}
B64MaxChars = 4
WrapLens = {0,1,2,3,46,47,48,49,50,95,96,97,98,100}
EmitRows = TRUE
Dev = "none"
INIT Init
NEXT Next
INVARIANT Sec1AcceptExact
INVARIANT Sec1RoundTrip
INVARIANT WifExact
INVARIANT WifAcceptIsImage
INVARIANT PemPrivExact
INVARIANT PemPubExact
INVARIANT B64RoundTrip
INVARIANT B64AcceptExact
INVARIANT WrapExact
INVARIANT Emit
CHECK_DEADLOCK FALSE
