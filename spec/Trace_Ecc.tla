------------------------------ MODULE Trace_Ecc ------------------------------
(***************************************************************************)
(* Stage C for C01, C02, C03 (and the SEC1 part of C14): calls recorded    *)
(* from bits.ecmath / bits.utils / bits.keys at secp256k1 size (cfg Big =  *)
(* TRUE) or on a retargeted small curve (Big = FALSE) are judged by the    *)
(* specification.  Verdicts are at the granularity of the properties.      *)
(***************************************************************************)
EXTENDS Ecdsa, Secp256k1, Json, IOUtils, TLC
Trace == JsonDeserialize(IOEnv.TRACE_FILE)
VARIABLE l

Pt(j)    == IF Len(j) = 0 THEN Inf ELSE <<j[1], j[2]>>
Num2(a)  == a                      \* numbers arrive in the representation of the mode

SigClauses(e, d, z) ==            \* e.r, e.s : produced signature
    IF ~(InRange(e.r) /\ InRange(e.s)) THEN "sig-out-of-range"
    ELSE IF ~LowS(e.s) THEN "sig-high-s"
    ELSE IF ~Verify(e.r, e.s, PubOf(d), z) THEN "sig-does-not-verify"
    ELSE "ok"

Verdict(e) ==
    CASE e.op = "padd" ->
           IF ~e.ok THEN "padd-raised"
           ELSE IF Pt(e.res) # PointAdd(Pt(e.p), Pt(e.q)) THEN "padd-wrong" ELSE "ok"
      [] e.op = "smul" ->
           IF ~e.ok THEN "smul-raised"
           ELSE IF Pt(e.res) # ScalarMul(e.k, Pt(e.p)) THEN "smul-wrong" ELSE "ok"
      [] e.op = "neg" ->
           IF ~e.ok THEN "neg-raised" ELSE IF Pt(e.res) # Neg(Pt(e.p)) THEN "neg-wrong" ELSE "ok"
      [] e.op = "oncurve" ->
           IF ~e.ok THEN (IF InField(e.x) /\ InField(e.y) THEN "oncurve-raised" ELSE "ok")
           ELSE IF e.res # OnCurve(e.x, e.y) THEN "oncurve-wrong" ELSE "ok"
      [] e.op = "pubof" ->       \* compute_point / keys.pub on 32-byte strings
           LET d == PrivFromBytes(e.key) IN
           IF e.ok # d.ok THEN (IF d.ok THEN "valid-privkey-refused" ELSE "invalid-privkey-accepted")
           ELSE IF d.ok /\ Pt(e.res) # PubOf(d.v) THEN "pubkey-wrong" ELSE "ok"
      [] e.op = "keygen" ->      \* bits.keys.key() with a scripted draw
           IF ~e.ok THEN "keygen-raised"
           ELSE IF Len(e.res) # 32 \/ ~KeyGenOk(NFromBE(e.res)) THEN "keygen-out-of-range" ELSE "ok"
      [] e.op = "sign" ->
           IF ~e.ok THEN "sign-raised"
           ELSE LET v == SigClauses(e, e.d, e.z) IN
                IF v # "ok" THEN v
                ELSE IF ~e.selfok THEN "own-verifier-rejects-own-signature"
                ELSE IF "openssl" \in DOMAIN e /\ ~e.openssl THEN "openssl-rejects-signature" ELSE "ok"
      [] e.op = "signpair" ->    \* two signatures differing in key or message, made from fresh (distinct) draws
           IF e.r1 = e.r2 THEN "nonce-reused-across-signatures" ELSE "ok"
      [] e.op = "verify" ->
           LET want == Verify(e.r, e.s, Pt(e.q), e.z) IN
           IF e.accept # want THEN (IF want THEN "verify-rejects-valid" ELSE "verify-accepts-invalid") ELSE "ok"
      [] e.op = "derenc" ->
           IF ~e.ok THEN "derenc-raised"
           ELSE IF e.res # DerEnc(e.r, e.s) THEN "der-not-strict-or-wrong"
           ELSE IF DerDec(e.res) # Ok(<<e.r, e.s>>) THEN "der-does-not-decode-back" ELSE "ok"
      [] e.op = "derdec" ->      \* strict inputs only are constrained
           LET d == DerDec(e.der) IN
           IF ~d.ok THEN "ok"
           ELSE IF ~e.ok THEN "derdec-rejects-strict"
           ELSE IF <<e.r, e.s>> # d.v THEN "derdec-wrong" ELSE "ok"
      [] e.op = "sig" ->         \* bits.sig(key, msg, flag, preimage) with scripted draws
           IF ~e.ok THEN "sig-raised"
           ELSE IF Len(e.res) < 9 \/ Last(e.res) # e.flag THEN "sig-flag-byte-wrong"
           ELSE LET der == Front(e.res)  dd == DerDec(der) IN
                IF ~dd.ok THEN "sig-der-not-strict"
                ELSE LET v == SigClauses([r |-> dd.v[1], s |-> dd.v[2]], NFromBE(e.key), SigDigest(e.msg, e.flag, e.pre)) IN
                     IF v # "ok" THEN v
                     ELSE IF ~SigVerify(e.res, Sec1Enc(PubOf(NFromBE(e.key)), TRUE), e.msg, e.pre) THEN "sig-not-valid-compressed-key"
                     ELSE IF ~SigVerify(e.res, Sec1Enc(PubOf(NFromBE(e.key)), FALSE), e.msg, e.pre) THEN "sig-not-valid-uncompressed-key"
                     ELSE IF ~e.selfok THEN "own-verifier-rejects-own-signature"
                     ELSE IF ~e.openssl THEN "openssl-rejects-signature" ELSE "ok"
      [] e.op = "sigverify" ->   \* bits.sig_verify: accept = returned "OK"
           LET der == IF Len(e.sig) >= 1 THEN Front(e.sig) ELSE <<>>
               strict == Len(e.sig) >= 1 /\ IsStrictDER(der) IN
           IF strict THEN
               LET want == SigVerify(e.sig, e.pk, e.msg, e.pre) IN
               IF e.accept # want THEN (IF want THEN "sigverify-rejects-valid" ELSE "sigverify-accepts-invalid") ELSE "ok"
           ELSE \* non-strict DER: acceptance must be backed by the equation for the integers the code decoded
               IF ~e.accept THEN "ok"
               ELSE IF ~e.decok THEN "sigverify-accepts-undecodable"
               ELSE LET q == Sec1Dec(e.pk) IN
                    IF q.ok /\ Verify(e.dr, e.ds, q.v, SigDigest(e.msg, Last(e.sig), e.pre)) THEN "ok" ELSE "sigverify-accepts-invalid"
      [] e.op = "lows" ->
           LET w == EnsureLowS(e.der) IN
           IF ~w.ok THEN "ok"
           ELSE IF ~e.ok THEN "lows-raised"
           ELSE IF e.res # w.v THEN "lows-not-strict-or-wrong" ELSE "ok"
      [] e.op = "sec1enc" ->
           IF ~e.ok THEN "sec1enc-raised"
           ELSE IF e.res # Sec1Enc(Pt(e.p), e.comp) THEN "sec1enc-wrong" ELSE "ok"
      [] e.op = "sec1dec" ->
           LET d == Sec1Dec(e.b) IN
           IF e.ok # d.ok THEN (IF d.ok THEN "sec1dec-rejects-valid" ELSE "sec1dec-accepts-invalid")
           ELSE IF d.ok /\ Pt(e.res) # d.v THEN "sec1dec-wrong" ELSE "ok"
      [] e.op = "ispoint" ->
           IF ~e.ok THEN "ispoint-raised"
           ELSE IF e.res # Sec1Dec(e.b).ok THEN "ispoint-wrong" ELSE "ok"
      [] OTHER -> "unknown-op"

Init == l = 1
Next == /\ l <= Len(Trace)
        /\ PrintT(<<"V", Trace[l].id, Verdict(Trace[l])>>)
        /\ l' = l + 1
=============================================================================
