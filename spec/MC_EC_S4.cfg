CONSTANTS EmitRows = TRUE Big = FALSE CP = 103 CB = 5 CN = 97 CGx = 2 CGy = 42
INIT Init
NEXT Next
INVARIANT Closure
INVARIANT Commut
INVARIANT Identity
INVARIANT Inverse
INVARIANT MulIsRepAdd
INVARIANT MulOrder
INVARIANT Distrib
INVARIANT MulLoopInv
INVARIANT KeyGenRange
INVARIANT Emit
CHECK_DEADLOCK FALSE
