CONSTANTS Big = FALSE CP = 43 CB = 7 CN = 31 CGx = 2 CGy = 12
WifKeys = {0,1,2,30,31,32,1000,1001}
WifSuffixLens = {0,1,2,33}
LongSuffixLen = 120
LongEvery = 1
B64Bytes = {0,1,2,63,64,127,128,254,255}
B64Chars = {65,66,81,103,119,120,43,47,61,10,32}
B64MaxChars = 4
WrapLens = {0,1,2,3,4,5,6,45,46,47,48,49,50,51,94,95,96,97,98,99,100,143,144,145,191,192,193,200}
EmitRows = TRUE
Dev = "none"
INIT Init
NEXT Next
INVARIANT Sec1AcceptExact
INVARIANT Sec1RoundTrip
INVARIANT WifExact
INVARIANT WifAcceptIsImage
INVARIANT PemPrivExact
INVARIANT PemPubExact
INVARIANT B64RoundTrip
INVARIANT B64AcceptExact
INVARIANT WrapExact
INVARIANT Emit
CHECK_DEADLOCK FALSE
