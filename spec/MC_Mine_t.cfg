CONSTANTS Seed = 0  Profile = "t"  Part = 0  Parts = 1
          MaxEnv = 0  MaxNonce = 100000  DevMedianTime = FALSE  DevSkipNonceZero = FALSE
          SubsidyBase <- BaseScaled
INIT Init
NEXT Next
INVARIANT PrevIsTip
INVARIANT BitsInherited
INVARIANT TimeRule
INVARIANT PowRule
INVARIANT FirstNonce
INVARIANT PowProgress
INVARIANT CoinbaseHeight
INVARIANT CoinbasePays
INVARIANT CommitmentRule
INVARIANT TxListRule
INVARIANT TxListIsMempool
INVARIANT MerkleRule
INVARIANT NodeAccepts
INVARIANT NeverFailsEarly
INVARIANT ChainGrows
INVARIANT Drained
INVARIANT InferenceSound
INVARIANT ChainValid
INVARIANT Census
CHECK_DEADLOCK FALSE
