CONSTANTS Big = FALSE CP = 103 CB = 5 CN = 97 CGx = 2 CGy = 42
CCs = {0, 1, 2}
NSeeds = 300
Dev = "none"
INIT Init
NEXT Next
INVARIANT Commute
INVARIANT HardenedFromPublicFails
INVARIANT FailsExactly
INVARIANT CkdRange
INVARIANT DataShape
INVARIANT MasterRule
INVARIANT Bookkeeping
INVARIANT XCommute
INVARIANT RoundTrip
INVARIANT RejectionTable
INVARIANT StrLevel
INVARIANT Census
CHECK_DEADLOCK FALSE
