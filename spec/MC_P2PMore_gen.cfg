CONSTANTS HashLen = 32  HdrLen = 80  Counts = {0, 1, 2, 253}
INIT Init
NEXT Next
INVARIANT GetBlocksTheorem
INVARIANT HeadersTheorem
INVARIANT FeeTheorem
INVARIANT CmpctTheorem
INVARIANT ElementTheorem
INVARIANT DispatchTheorem
INVARIANT Emit
CHECK_DEADLOCK FALSE
