---------------------------- MODULE Trace_Schnorr ----------------------------
(***************************************************************************)
(* Stage C for C12: calls recorded from bits.bips.bip340 (sign / verify /  *)
(* pubkey) at secp256k1 size (cfg Big = TRUE) are judged by Schnorr.tla.   *)
(* The published BIP340 vectors go through the same operators ("vector").  *)
(* Byte strings arrive as arrays of 0..255.                                *)
(***************************************************************************)
EXTENDS Schnorr, Secp256k1, Json, IOUtils, TLC
Trace == JsonDeserialize(IOEnv.TRACE_FILE)
VARIABLE l

Verdict(e) ==
    CASE e.op = "sign" ->        \* bip340.sign(key, msg, aux); key is a 32-byte string; aux = the 32 bytes used
           LET want == Sign(NFromBE(e.key), e.msg, e.aux) IN
           IF ~e.auxknown /\ PrivFromBytes(e.key).ok /\ ~e.ok THEN "ok"   \* k' = 0 for an aux nobody recorded cannot be excluded
           ELSE IF ~want.ok /\ (e.auxknown \/ ~PrivFromBytes(e.key).ok) THEN (IF e.ok THEN "sign-accepts-where-bip340-refuses" ELSE "ok")
           ELSE IF ~e.ok THEN "sign-raised"
           ELSE IF e.auxknown /\ e.res # want.v THEN "signature-differs-from-bip340-default-signing"
           \* aux omitted and drawn from a source the harness does not script: any valid BIP340 signature for the key
           ELSE IF (e.chk \/ ~e.auxknown) /\ ~Verify(XOnlyPub(NFromBE(e.key)), e.msg, e.res) THEN "signature-not-accepted-under-xonly-key"
           ELSE IF ~e.selfok THEN "own-verifier-rejects-own-signature" ELSE "ok"
      [] e.op = "pub" ->         \* bip340.pubkey(compute_point(key)) for a valid secret key
           LET d == PrivFromBytes(e.key) IN
           IF ~d.ok THEN "ok"
           ELSE IF ~e.ok THEN "pubkey-raised"
           ELSE IF e.res # XOnlyPub(d.v) THEN "pubkey-wrong" ELSE "ok"
      [] e.op = "verify" ->      \* accept = returned "OK"; anything else (exception included) = reject
           LET want == Verify(e.pk, e.msg, e.sig) IN
           IF e.accept = want THEN "ok"
           ELSE IF want THEN "verify-rejects-valid"
           ELSE "verify-accepts-invalid-" \o VerifyWhy(e.pk, e.msg, e.sig)
      [] e.op = "vector" ->      \* published test vector: the SPECIFICATION must reproduce it
           IF Verify(e.pk, e.msg, e.sig) # e.result THEN "vector-verify-mismatch"
           ELSE IF e.key # <<>> /\ Sign(NFromBE(e.key), e.msg, e.aux) # Ok(e.sig) THEN "vector-sign-mismatch"
           ELSE IF e.key # <<>> /\ XOnlyPub(NFromBE(e.key)) # e.pk THEN "vector-pubkey-mismatch"
           ELSE "ok"
      [] OTHER -> "unknown-op"

Init == l = 1
Next == /\ l <= Len(Trace)
        /\ PrintT(<<"V", Trace[l].id, Verdict(Trace[l])>>)
        /\ l' = l + 1
=============================================================================
