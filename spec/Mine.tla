--------------------------------- MODULE Mine ---------------------------------
(***************************************************************************)
(* Extension beyond the listed properties: the mining integration          *)
(* (bits.integrations.mine_block / median_time, bits.blockchain.           *)
(* target_threshold / difficulty).                                         *)
(*                                                                         *)
(* Two processes share the state:                                          *)
(*                                                                         *)
(*   the NODE (the RPC peer)  h0, chain, mempool, now                      *)
(*       chain   = the most recent blocks, oldest first, each              *)
(*                 [hash (32 bytes, internal order), time, bits (compact   *)
(*                 nBits, 4 bytes in display order <<exponent, m1, m2,     *)
(*                 m3>>)]; chain[1] has height h0 (h0 = 0: chain[1] is     *)
(*                 the genesis block; h0 > 0: a window of >= 11 blocks)    *)
(*       mempool = [txid, raw] in the order getrawmempool lists them       *)
(*       env actions (bounded by MaxEnv): CompetingBlock (somebody else    *)
(*                 extends the tip), TxArrives (a transaction enters the   *)
(*                 mempool)                                                *)
(*   the MINER (mine_block)   pc, m: ONE ACTION PER STEP THE CODE TAKES    *)
(*       QueryDifficulty  regtest is inferred: difficulty < 10^-8          *)
(*       GetCount, GetHash, GetBlock    the tip (height, hash, bits)       *)
(*       ComputeTarget    target from the tip's compact nBits              *)
(*       ListMempool, FetchTx (one per transaction)                        *)
(*       DecideCommit     BIP141: commit iff some wtxid # txid;            *)
(*                        commitment = HASH256(witness root ++ reserved)   *)
(*       BuildCoinbase    BIP34 height tip+1, subsidy of that height       *)
(*       MerkleRoot       over the txids, coinbase first                   *)
(*       ChooseTime       max(now, median-time-past + 1)                   *)
(*       TryNonce         the proof-of-work loop, ONE ACTION PER NONCE     *)
(*                        TRY (NonceFails / NonceFound), stopping at the   *)
(*                        FIRST nonce whose header hash, read as a little- *)
(*                        endian integer, is <= target                     *)
(*       Submit           the node validates (NodeVerdict, written         *)
(*                        independently of the miner): accepted => the     *)
(*                        chain grows by one and the block's transactions  *)
(*                        leave the mempool; refused => the miner fails    *)
(*                                                                         *)
(* Not modelled: retargeting (the new block inherits the tip's nBits, as   *)
(* on regtest), transactions leaving the mempool while the miner works,    *)
(* reorganisations, roll-over of the 32-bit nonce space.                   *)
(*                                                                         *)
(* Numbers: times, heights and nonces are TLC integers (< 2^31); targets   *)
(* are big naturals in the Native representation (big-endian bytes without *)
(* leading zeros, zero = <<>>) and are defined on BYTE SEQUENCES, so the   *)
(* same operators run with toy hashes (stage A) and with real SHA-256.     *)
(***************************************************************************)
EXTENDS Block

CONSTANTS SubsidyBase,        \* 50 BTC as a big natural (Coinbase!FiftyBtc; stage A: the scaled base)
          MaxEnv,             \* number of environment events allowed in one run
          MaxNonce,           \* the model gives up beyond this nonce (the code: 2^32 - 1)
          DevMedianTime,      \* NAMED DEVIATION (what the pinned code does, see MedianTimeCodeDeviation)
          DevSkipNonceZero    \* NAMED DEVIATION (vacuity guard only): the search starts at nonce 1

VARIABLES h0, chain, mempool, now,      \* the node
          sc,                           \* constants of the scenario: [id, spk, regtest, late, rivalHash, free]
          pc, m,                        \* the miner
          ev                            \* the environment event of this run: [kind, at] (kind "none" | "block" | "tx")
vars == <<h0, chain, mempool, now, sc, pc, m, ev>>

RealH(a, b) == Hash256(a \o b)
MK == INSTANCE Merkle WITH H <- RealH, row <- <<>>, lvl <- 0
CB == INSTANCE Coinbase

(* ------------------------------------------------------------------------- *)
(* compact nBits -> target                                                   *)
(*   nb = <<e, m1, m2, m3>>: target = mantissa * 256^(e-3); for e < 3 the    *)
(*   low 3-e bytes of the mantissa fall off (Bitcoin Core arith_uint256::    *)
(*   SetCompact: nWord >> 8*(3-nSize)).  The sign bit (m1 >= 128) marks a    *)
(*   negative number: outside the domain.                                    *)
(* ------------------------------------------------------------------------- *)
CompactWellFormed(nb) == Len(nb) = 4 /\ IsBytes(nb) /\ nb[2] < 128
Mantissa(nb) == SubSeq(nb, 2, 4)
(* on byte sequences: shifting by whole bytes is appending / dropping bytes *)
Target(nb) ==
    LET e == nb[1]
        mant == Mantissa(nb)
    IN IF e >= 3 THEN (IF StripZeros(mant) = <<>> THEN <<>> ELSE StripZeros(mant) \o Rep(0, e - 3))
       ELSE StripZeros(Take(mant, e))
(* the same value arithmetically (big naturals) *)
Pow256(k) == <<1>> \o Rep(0, k)
TargetArith(nb) ==
    LET e == nb[1]
        mant == BigFromBE(Mantissa(nb))
    IN IF e >= 3 THEN BigMul(mant, Pow256(e - 3)) ELSE BigShr(mant, 8 * (3 - e))

(* a <= b on canonical big naturals, by length then lexicographically (no arithmetic) *)
RECURSIVE LexLeq(_, _, _)
LexLeq(a, b, i) == IF i > Len(a) THEN TRUE
                   ELSE IF a[i] # b[i] THEN a[i] < b[i]
                   ELSE LexLeq(a, b, i + 1)
BigLeq(a, b) == IF Len(a) # Len(b) THEN Len(a) < Len(b) ELSE LexLeq(a, b, 1)
(* proof of work: the header hash read as a little-endian number does not exceed the target *)
MeetsTarget(hash32, target) == BigLeq(BigFromLE(hash32), target)

(* difficulty as the node reports it: difficulty-1 target (0x1d00ffff) / target; regtest is inferred *)
(* from difficulty < 10^-8, i.e. target > 10^8 * 0xFFFF * 256^26 (compared exactly)                   *)
Diff1Target        == <<255, 255>> \o Rep(0, 26)
Diff1TargetRegtest == <<127, 255, 255>> \o Rep(0, 29)
TenToThe8          == <<5, 245, 225, 0>>
RegtestLimit       == <<5, 245, 219, 10, 31, 0>> \o Rep(0, 26)       \* 10^8 * 0xFFFF * 256^26  (10^8 * 0xFFFF = 0x05F5DB0A1F00)
InfersRegtest(nb)  == ~BigLeq(Target(nb), RegtestLimit)

(* ------------------------------------------------------------------------- *)
(* median-time-past: Bitcoin Core CBlockIndex::GetMedianTimePast - the times *)
(* of the last 11 blocks ending at the tip (fewer if the chain is shorter,   *)
(* the genesis block counts), sorted; element [n / 2] (0-based).             *)
(* ------------------------------------------------------------------------- *)
RECURSIVE Insert(_, _)
Insert(s, x) == IF s = <<>> THEN <<x>>
                ELSE IF x <= Head(s) THEN <<x>> \o s
                ELSE <<Head(s)>> \o Insert(Tail(s), x)
RECURSIVE SortAsc(_)
SortAsc(s) == IF s = <<>> THEN <<>> ELSE Insert(SortAsc(Tail(s)), Head(s))
LastN(s, n) == SubSeq(s, Len(s) - n + 1, Len(s))
MedianSpan == 11
(* times = the block times from the oldest known block to the tip; base = height of the first one *)
MedianTimePast(times, base) ==
    LET n == Min(MedianSpan, base + Len(times))
        s == SortAsc(LastN(times, n))
    IN s[(n \div 2) + 1]
(* NAMED DEVIATION (bits.integrations.median_time as pinned): the window is min(height, 11) blocks -  *)
(* one short while the chain is shorter than 12 blocks, the genesis block is left out - and for an   *)
(* even count the two middle elements are averaged.                                                   *)
MedianTimeCodeDeviation(times, base) ==
    LET height == base + Len(times) - 1 IN
    IF height = 0 THEN Last(times)
    ELSE LET n == Min(MedianSpan, height)
             s == SortAsc(LastN(times, n))
         IN IF (n % 2) = 1 THEN s[(n \div 2) + 1]
            ELSE s[n \div 2] + ((s[(n \div 2) + 1] - s[n \div 2]) \div 2)
MTP(times, base) == IF DevMedianTime THEN MedianTimeCodeDeviation(times, base) ELSE MedianTimePast(times, base)

(* ------------------------------------------------------------------------- *)
(* the node's view                                                           *)
(* ------------------------------------------------------------------------- *)
TipHeight      == h0 + Len(chain) - 1
BlockAt(h)     == chain[h - h0 + 1]
Known(h)       == h >= h0 /\ h <= TipHeight
TimesUpTo(h)   == [i \in 1..(h - h0 + 1) |-> chain[i].time]
HeaderBits(nb) == Rev(nb)                             \* the header carries nBits little-endian
Interval(regtest) == IF regtest THEN CB!RegtestInterval ELSE CB!MainInterval

(* free choices of the miner that no rule fixes: sc.free; FreeChoices are the values the pinned code uses *)
(* (a trace is judged with the choices found in the recorded block)                                      *)
FreeChoices == [blockVersion |-> <<4, 0, 0, 0>>, cbVersion |-> <<1, 0, 0, 0>>, cbSequence |-> <<255, 255, 255, 255>>,
                cbLocktime |-> <<0, 0, 0, 0>>, tag |-> <<98, 105, 116, 115>>]                  \* tag = "bits"

(* a raw transaction with its ids (Tx.tla) *)
Entry(raw) == LET d == TxDeser(raw) IN
              IF d.ok /\ d.v.rest = <<>> THEN Ok([raw |-> raw, txid |-> Txid(d.v.t), wtxid |-> Wtxid(d.v.t), t |-> d.v.t])
              ELSE Fail
TxidOfRaw(raw) == Entry(raw).v.txid

(* BIP141 commitment over the block's wtxids, the coinbase counting as 32 zero bytes *)
WitnessRoot(entries) == MK!Reduce(<<Rep(0, 32)>> \o [i \in 1..Len(entries) |-> entries[i].wtxid])
Commitment(entries)  == Hash256(WitnessRoot(entries) \o CB!ReservedValue)
MustCommit(entries)  == \E i \in 1..Len(entries) : entries[i].wtxid # entries[i].txid

CoinbaseFor(height, spk, regtest, commit, commitment) ==
    CB!CoinbaseTxB(SubsidyBase, sc.free.cbVersion, sc.free.cbSequence, sc.free.cbLocktime, TRUE, height, sc.free.tag, spk, Interval(regtest),
                   FALSE, <<>>, commit, commitment)

Header76(prev, merkle, time, nb) == sc.free.blockVersion \o prev \o merkle \o LE(time, 4) \o HeaderBits(nb)
HeaderAt(h76, nonce) == h76 \o LE(nonce, 4)
HashAt(h76, nonce)   == Hash256(HeaderAt(h76, nonce))

(* ------------------------------------------------------------------------- *)
(* the node's validation of a submitted block, written from the consensus    *)
(* rules on the block BYTES (independently of how the miner built it)        *)
(* ------------------------------------------------------------------------- *)
IsCoinbaseIn(i)  == i.txid = Rep(0, 32) /\ i.vout = Rep(255, 4)
CommitmentOuts(t) == {k \in 1..Len(t.outs) : Len(t.outs[k].script) >= 38 /\ Take(t.outs[k].script, 6) = <<106, 36, 170, 33, 169, 237>>}
NodeVerdict(b) ==
    LET d == BlockDeser(b) IN
    IF ~d.ok THEN "unparseable"
    ELSE LET hdr  == d.v.hdr
             txs  == d.v.txs
             tip  == chain[Len(chain)]
             hgt  == TipHeight + 1
             time == FromLE(Take(hdr.time, 3)) + (16777216 * hdr.time[4])
         IN IF hdr.prev # tip.hash THEN "stale"
            ELSE IF hdr.bits # HeaderBits(tip.bits) THEN "bad-diffbits"
            ELSE IF ~MeetsTarget(BlockHash(hdr), Target(tip.bits)) THEN "high-hash"
            ELSE IF hdr.time[4] >= 128 THEN "time-too-new"
            ELSE IF time <= MedianTimePast(TimesUpTo(TipHeight), h0) THEN "time-too-old"
            ELSE IF time > now + 7200 THEN "time-too-new"
            ELSE IF Len(txs) = 0 THEN "bad-cb-missing"
            ELSE IF hdr.merkle # MK!MerkleRec([i \in 1..Len(txs) |-> txs[i].txid]) THEN "bad-txnmrklroot"
            ELSE LET cb == txs[1].t IN
                 IF Len(cb.ins) # 1 \/ ~IsCoinbaseIn(cb.ins[1]) THEN "bad-cb-missing"
                 ELSE IF \E i \in 2..Len(txs) : \E j \in 1..Len(txs[i].t.ins) : IsCoinbaseIn(txs[i].t.ins[j]) THEN "bad-cb-multiple"
                 ELSE IF Len(cb.ins[1].script) < 2 \/ Len(cb.ins[1].script) > 100 THEN "bad-cb-length"
                 ELSE IF Take(cb.ins[1].script, Len(CB!HeightPush(hgt))) # CB!HeightPush(hgt) THEN "bad-cb-height"
                 ELSE IF Len(cb.outs) = 0 \/ BigLt(CB!Subsidy(hgt, Interval(sc.regtest), SubsidyBase), BigFromLE(cb.outs[1].value))
                      THEN "bad-cb-amount"
                 ELSE LET anyWit == \E i \in 2..Len(txs) : HasWitness(txs[i].t)
                          cos    == CommitmentOuts(cb)
                      IN IF cos = {} THEN (IF anyWit \/ HasWitness(cb) THEN "unexpected-witness" ELSE "ok")
                         ELSE LET k    == CHOOSE x \in cos : \A y \in cos : y <= x
                                  root == MK!MerkleRec([i \in 1..Len(txs) |-> IF i = 1 THEN Rep(0, 32) ELSE txs[i].wtxid])
                              IN IF cb.wit # << <<CB!ReservedValue>> >> THEN "bad-witness-nonce-size"
                                 ELSE IF SubSeq(cb.outs[k].script, 7, 38) # Hash256(root \o CB!ReservedValue)
                                 THEN "bad-witness-merkle-match"
                                 ELSE "ok"

(* ------------------------------------------------------------------------- *)
(* the miner                                                                 *)
(* ------------------------------------------------------------------------- *)
M0 == [regtest |-> FALSE, height |-> 0, tipHash |-> <<>>, tipBits |-> <<>>, target |-> <<>>, ids |-> <<>>, txs |-> <<>>,
       commit |-> FALSE, commitment |-> <<>>, coinbase |-> <<>>, merkle |-> <<>>, time |-> 0, nonce |-> 0, h76 |-> <<>>,
       block |-> <<>>, verdict |-> ""]
NoEvent == [kind |-> "none", at |-> ""]

QueryDifficulty ==
    /\ pc = "idle"
    /\ m' = [m EXCEPT !.regtest = InfersRegtest(chain[Len(chain)].bits)]
    /\ pc' = "count" /\ UNCHANGED <<h0, chain, mempool, now, sc, ev>>
GetCount ==
    /\ pc = "count"
    /\ m' = [m EXCEPT !.height = TipHeight]
    /\ pc' = "hash" /\ UNCHANGED <<h0, chain, mempool, now, sc, ev>>
GetHash ==
    /\ pc = "hash"
    /\ m' = [m EXCEPT !.tipHash = BlockAt(m.height).hash]
    /\ pc' = "block" /\ UNCHANGED <<h0, chain, mempool, now, sc, ev>>
GetBlock ==
    /\ pc = "block"
    /\ m' = [m EXCEPT !.tipBits = BlockAt(m.height).bits]
    /\ pc' = "target" /\ UNCHANGED <<h0, chain, mempool, now, sc, ev>>
ComputeTarget ==
    /\ pc = "target"
    /\ m' = [m EXCEPT !.target = Target(m.tipBits)]
    /\ pc' = "mempool" /\ UNCHANGED <<h0, chain, mempool, now, sc, ev>>
ListMempool ==
    /\ pc = "mempool"
    /\ m' = [m EXCEPT !.ids = [i \in 1..Len(mempool) |-> mempool[i].txid]]
    /\ pc' = (IF mempool = <<>> THEN "commit" ELSE "fetch")
    /\ UNCHANGED <<h0, chain, mempool, now, sc, ev>>
(* getrawtransaction for the next listed id (transactions never leave the mempool in this model) *)
FetchTx ==
    /\ pc = "fetch"
    /\ LET want == m.ids[Len(m.txs) + 1]
           raw  == mempool[CHOOSE i \in 1..Len(mempool) : mempool[i].txid = want].raw
       IN m' = [m EXCEPT !.txs = Append(@, Entry(raw).v)]
    /\ pc' = (IF Len(m.txs) + 1 = Len(m.ids) THEN "commit" ELSE "fetch")
    /\ UNCHANGED <<h0, chain, mempool, now, sc, ev>>
DecideCommit ==
    /\ pc = "commit"
    /\ m' = [m EXCEPT !.commit = MustCommit(m.txs),
                      !.commitment = IF MustCommit(m.txs) THEN Commitment(m.txs) ELSE <<>>]
    /\ pc' = "coinbase" /\ UNCHANGED <<h0, chain, mempool, now, sc, ev>>
BuildCoinbase ==
    /\ pc = "coinbase"
    /\ LET cb == CoinbaseFor(m.height + 1, sc.spk, m.regtest, m.commit, m.commitment)
       IN IF cb.ok THEN m' = [m EXCEPT !.coinbase = cb.v] /\ pc' = "merkle"
          ELSE m' = [m EXCEPT !.verdict = "no-coinbase"] /\ pc' = "error"
    /\ UNCHANGED <<h0, chain, mempool, now, sc, ev>>
MerkleRoot ==
    /\ pc = "merkle"
    /\ m' = [m EXCEPT !.merkle = MK!Reduce(<<TxidOfRaw(m.coinbase)>> \o [i \in 1..Len(m.txs) |-> m.txs[i].txid])]
    /\ pc' = "time" /\ UNCHANGED <<h0, chain, mempool, now, sc, ev>>
(* the median is taken over the ancestors of the block being built (the chain up to m.height) *)
ChooseTime ==
    /\ pc = "time"
    /\ LET t == Max(now, MTP(TimesUpTo(m.height), h0) + 1)
       IN m' = [m EXCEPT !.time = t, !.nonce = IF DevSkipNonceZero THEN 1 ELSE 0,
                         !.h76 = Header76(m.tipHash, m.merkle, t, m.tipBits)]
    /\ pc' = "pow" /\ UNCHANGED <<h0, chain, mempool, now, sc, ev>>
(* one try of the proof-of-work loop: the header with the current nonce is hashed once *)
NonceFails ==
    IF m.nonce < MaxNonce THEN m' = [m EXCEPT !.nonce = @ + 1] /\ pc' = "pow"
    ELSE m' = [m EXCEPT !.verdict = "nonce-space-exhausted"] /\ pc' = "exhausted"
NonceFound ==
    /\ m' = [m EXCEPT !.block = BlockSerRaw(HeaderAt(m.h76, m.nonce), <<m.coinbase>> \o [i \in 1..Len(m.txs) |-> m.txs[i].raw])]
    /\ pc' = "submit"
TryNonce ==
    /\ pc = "pow"
    /\ LET hit == MeetsTarget(HashAt(m.h76, m.nonce), m.target) IN (hit /\ NonceFound) \/ (~hit /\ NonceFails)
    /\ UNCHANGED <<h0, chain, mempool, now, sc, ev>>
(* submitblock: the node judges the bytes; accepted blocks extend the chain and their transactions leave the mempool *)
InBlock(raw) == \E i \in 1..Len(m.txs) : m.txs[i].raw = raw
Submit ==
    /\ pc = "submit"
    /\ LET v == NodeVerdict(m.block) IN
       IF v = "ok"
       THEN /\ chain' = Append(chain, [hash |-> Hash256(Take(m.block, 80)), time |-> m.time, bits |-> m.tipBits])
            /\ mempool' = SelectSeq(mempool, LAMBDA e : ~InBlock(e.raw))
            /\ m' = [m EXCEPT !.verdict = v] /\ pc' = "done"
       ELSE /\ m' = [m EXCEPT !.verdict = v] /\ pc' = "error"
            /\ UNCHANGED <<chain, mempool>>
    /\ UNCHANGED <<h0, now, sc, ev>>

MinerStep == \/ QueryDifficulty \/ GetCount \/ GetHash \/ GetBlock \/ ComputeTarget \/ ListMempool \/ FetchTx
             \/ DecideCommit \/ BuildCoinbase \/ MerkleRoot \/ ChooseTime \/ TryNonce \/ Submit

(* ---- the environment: only at the points where the miner is about to talk to the node ---- *)
EnvPoints == {"idle", "count", "hash", "block", "mempool", "fetch", "time", "submit"}
EnvEnabled == ev.kind = "none" /\ MaxEnv > 0 /\ pc \in EnvPoints /\ (pc = "fetch" => m.txs = <<>>)
(* somebody else's (empty) block extends the tip; it follows the same rules *)
CompetingBlock ==
    /\ EnvEnabled
    /\ chain' = Append(chain, [hash |-> sc.rivalHash, time |-> Max(now, MedianTimePast(TimesUpTo(TipHeight), h0) + 1),
                               bits |-> chain[Len(chain)].bits])
    /\ ev' = [kind |-> "block", at |-> pc]
    /\ UNCHANGED <<h0, mempool, now, sc, pc, m>>
TxArrives ==
    /\ EnvEnabled /\ sc.late # <<>>
    /\ mempool' = Append(mempool, [txid |-> TxidOfRaw(sc.late), raw |-> sc.late])
    /\ ev' = [kind |-> "tx", at |-> pc]
    /\ UNCHANGED <<h0, chain, now, sc, pc, m>>

Next == MinerStep \/ CompetingBlock \/ TxArrives
Terminal == pc \in {"done", "error", "exhausted"}

(* ------------------------------------------------------------------------- *)
(* properties of the abstract state                                          *)
(* ------------------------------------------------------------------------- *)
Built == pc = "submit"                                  \* a block has been built and is about to be handed to the node
Hdr   == HeaderDeser(Take(m.block, 80)).v
HdrTime == FromLE(Hdr.time)
(* the miner was not overtaken: the block it built on is still (or, once accepted, was) the tip *)
Raced == ev.kind = "block" /\ ev.at \notin {"idle", "count"}
ParentHeight == m.height

PrevIsTip       == Built => Hdr.prev = BlockAt(ParentHeight).hash /\ (~Raced => Hdr.prev = chain[Len(chain)].hash)
BitsInherited   == Built => Hdr.bits = HeaderBits(BlockAt(ParentHeight).bits)
TimeRule        == Built => LET mtp == MedianTimePast(TimesUpTo(ParentHeight), h0) IN
                            /\ HdrTime > mtp
                            /\ HdrTime = Max(now, mtp + 1)
PowRule         == Built => MeetsTarget(BlockHash(Hdr), Target(BlockAt(ParentHeight).bits))
FirstNonce      == Built => \A n \in 0..(m.nonce - 1) : ~MeetsTarget(HashAt(Take(m.block, 76), n), Target(BlockAt(ParentHeight).bits))
PowProgress     == pc = "pow" /\ m.nonce > 0 => ~MeetsTarget(HashAt(m.h76, m.nonce - 1), m.target)
ParsedBlock     == BlockDeser(m.block)
CoinbaseHeight  == Built => LET d == ParsedBlock
                                s == d.v.txs[1].t.ins[1].script
                                f == CB!DecodeFirst(s)
                            IN d.ok /\ f.ok /\ f.v.h = ParentHeight + 1 /\ f.v.minimal /\ ~f.v.neg /\ f.v.rest = sc.free.tag
CoinbasePays    == Built => LET cb == ParsedBlock.v.txs[1].t IN
                            /\ cb.outs[1].script = sc.spk
                            /\ BigFromLE(cb.outs[1].value) = CB!Subsidy(ParentHeight + 1, Interval(sc.regtest), SubsidyBase)
CommitmentRule  == Built => LET d == ParsedBlock
                                cb == d.v.txs[1].t
                                need == \E i \in 2..Len(d.v.txs) : HasWitness(d.v.txs[i].t)
                                root == MK!MerkleRec([i \in 1..Len(d.v.txs) |-> IF i = 1 THEN Rep(0, 32) ELSE d.v.txs[i].wtxid])
                            IN /\ need = m.commit
                               /\ need => /\ Len(cb.outs) = 2
                                          /\ cb.outs[2] = TxOut(Rep(0, 8), CB!CommitmentSpk(Hash256(root \o CB!ReservedValue)))
                                          /\ cb.wit = << <<CB!ReservedValue>> >>
                               /\ ~need => Len(cb.outs) = 1 /\ ~HasWitness(cb)
TxListRule      == Built => LET d == ParsedBlock IN
                            /\ Len(d.v.txs) = 1 + Len(m.txs)
                            /\ \A i \in 1..Len(m.txs) : d.v.txs[i + 1].raw = m.txs[i].raw
(* the block carries exactly what the mempool listed when it was gathered, in that order *)
TxListIsMempool == Built /\ (ev.kind # "tx" \/ ev.at \in {"idle", "count", "hash", "block", "mempool"})
                   => [i \in 1..Len(m.txs) |-> m.txs[i].raw] = [i \in 1..Len(mempool) |-> mempool[i].raw]
MerkleRule      == Built => LET d == ParsedBlock IN
                            d.v.hdr.merkle = MK!MerkleRec([i \in 1..Len(d.v.txs) |-> d.v.txs[i].txid])
(* the node accepts what the miner builds unless the miner was overtaken; then the block is merely stale *)
NodeAccepts     == pc \in {"done", "error"} /\ m.block # <<>> => m.verdict = (IF Raced THEN "stale" ELSE "ok")
NeverFailsEarly == pc = "error" => m.block # <<>>
ChainGrows      == pc = "done" => /\ chain[Len(chain)].hash = Hash256(Take(m.block, 80))
                                  /\ chain[Len(chain)].time = m.time /\ chain[Len(chain)].bits = m.tipBits
                                  /\ TipHeight = ParentHeight + 1
Drained         == pc = "done" => /\ \A i \in 1..Len(mempool) : ~InBlock(mempool[i].raw)
                                  /\ (ev.kind # "tx" \/ ev.at \in {"idle", "count", "hash", "block", "mempool"}) => mempool = <<>>
                                  /\ (ev.kind = "tx" /\ ev.at \in {"fetch", "time", "submit"}) => (Len(mempool) = 1 /\ mempool[1].raw = sc.late)
InferenceSound  == pc # "idle" => m.regtest = sc.regtest
(* every block of the chain that has its full history in view respects the median-time rule *)
ChainValid      == \A i \in 2..Len(chain) : (h0 = 0 \/ i > MedianSpan) =>
                       chain[i].time > MedianTimePast([k \in 1..(i - 1) |-> chain[k].time], h0)
=============================================================================
