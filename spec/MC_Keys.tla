------------------------------- MODULE MC_Keys -------------------------------
(***************************************************************************)
(* Stage A for C14 on a small curve with b = 7 (Big = FALSE), and - via    *)
(* Emit - the stage-B table for bits.point / is_point / compressed_pubkey  *)
(* / pubkey, wif_encode / wif_decode, pem_encode_key / pem_decode_key and  *)
(* bits.pem.encode_pem / decode_pem.                                       *)
(*   sec1   EVERY byte string prefix . X . [Y] with prefix in              *)
(*          {00,02,03,04,05,06,07}, X, Y the 32-byte encodings of 0..p+2,  *)
(*          in the length variants 32,33,34 / 64,65,66: exact accept set   *)
(*   wif    3 networks x 8 types x keys (valid and invalid) x suffixes     *)
(*   wifx   crafted Base58Check payloads (unknown versions, short, bad key)*)
(*          and single-character corruptions: accept set = image of WifEnc *)
(*   pem    every key 0..n+1 / every public key in both forms              *)
(*   b64b / b64s / wrap   Base64 on all short strings; 64-column wrapping  *)
(* Cases are successors of "group" states (parallel evaluation).           *)
(* Dev # "none" swaps in a named deviation (vacuity guard).                *)
(***************************************************************************)
EXTENDS Pem, Wif, TLC, FiniteSets
CONSTANTS WifKeys, WifSuffixLens, LongSuffixLen, LongEvery, B64Bytes, B64Chars, B64MaxChars, WrapLens, EmitRows, Dev
VARIABLE c

F == 0..(CP - 1)
XMax == CP + 2
Prefixes == {0, 2, 3, 4, 5, 6, 7}
B32(v) == NToBE(v, 32)
Combo(i) == [net |-> CASE i \div 8 = 0 -> "mainnet" [] i \div 8 = 1 -> "testnet" [] OTHER -> "regtest", type |-> WifTypes[(i % 8) + 1]]
Suffix(n) == [j \in 1..n |-> IF n = 1 THEN 1 ELSE (j * 29 + n) % 256]
Pattern(n) == [j \in 1..n |-> (j * 37 + n) % 256]
KeyBytes(v) == CASE v = 1000 -> NToBE(1, 31) [] v = 1001 -> NToBE(1, 33) [] OTHER -> B32(v)   \* 1000 / 1001: wrong lengths

RECURSIVE Strings(_, _)
Strings(alpha, n) == IF n = 0 THEN {<<>>}
                     ELSE LET S == Strings(alpha, n - 1)
                          IN S \cup {Append(s, a) : s \in {t \in S : Len(t) = n - 1}, a \in alpha}

(* the byte string of a sec1 case: lv in 32,33,34 (prefix . X), 64,65,66 (prefix . X . Y) *)
Sec1Bytes(pre, x, y, lv) ==
    LET full == IF lv < 60 THEN <<pre>> \o B32(x) ELSE <<pre>> \o B32(x) \o B32(y) IN
    CASE lv \in {33, 65} -> full
      [] lv \in {32, 64} -> Front(full)
      [] lv \in {34, 66} -> full \o <<0>>

Sec1Cases(g) == IF g > XMax THEN {} ELSE
       [k : {"sec1"}, pre : Prefixes, x : {g}, y : {0}, lv : {32, 33, 34}]
  \cup [k : {"sec1"}, pre : Prefixes, x : {g}, y : 0..XMax, lv : {65}]
  \cup [k : {"sec1"}, pre : Prefixes, x : {g}, y : {0, 1, CP - 1}, lv : {64, 66}]
WifCases(g) == IF g > 23 THEN {} ELSE
       [k : {"wif"}, i : {g}, key : WifKeys, sl : WifSuffixLens]
  \cup [k : {"wif"}, i : {g} \cap {j \in 0..23 : (j % LongEvery) = 0}, key : {1}, sl : {LongSuffixLen}]
  \cup [k : {"wifx"}, i : {g}, v : 1..6]
PemCases(g) == IF g > CN + 1 THEN {} ELSE [k : {"pem"}, d : {g}]
B64Cases(g) == IF g # 0 THEN {} ELSE
       [k : {"b64b"}, b : Strings(B64Bytes, 3)]
  \cup [k : {"b64s"}, s : Strings(B64Chars, B64MaxChars)]
  \cup [k : {"wrap"}, n : WrapLens]
GMax == IF XMax > CN + 1 THEN (IF XMax > 23 THEN XMax ELSE 23) ELSE (IF CN + 1 > 23 THEN CN + 1 ELSE 23)
Init == c \in [k : {"group"}, g : 0..GMax]
Next == /\ c.k = "group"
        /\ c' \in Sec1Cases(c.g) \cup WifCases(c.g) \cup PemCases(c.g) \cup B64Cases(c.g)

(* ------------------------------ SEC1 ------------------------------ *)
Sec1DecNoLen(b) ==        \* deviation: prefix dispatch without the length-per-prefix rule (defect F4 of the library)
    IF Len(b) \in {33, 65} /\ b[1] \in {2, 3} THEN Sec1Dec(SubSeq(b, 1, 33))
    ELSE Sec1Dec(b)
D(b) == IF Dev = "sec1nolen" THEN Sec1DecNoLen(b) ELSE Sec1Dec(b)
SB == Sec1Bytes(c.pre, c.x, c.y, c.lv)
(* independent characterisation: brute-force search for the ordinate over the whole field *)
Sq(x, y) == ((y * y) % CP) = ((x * x * x + CB) % CP)
Sec1Valid(pre, x, y, lv) ==
    \/ lv = 33 /\ pre \in {2, 3} /\ x < CP /\ \E yy \in F : Sq(x, yy)
    \/ lv = 65 /\ pre = 4 /\ x < CP /\ y < CP /\ Sq(x, y)
Sec1AcceptExact == c.k = "sec1" => D(SB).ok = Sec1Valid(c.pre, c.x, c.y, c.lv)
Sec1RoundTrip == c.k = "sec1" /\ D(SB).ok =>
    LET P == D(SB).v IN
    /\ P[1] = c.x /\ P[1] \in F /\ P[2] \in F /\ Sq(P[1], P[2])
    /\ (c.lv = 33 => (P[2] % 2) = (c.pre % 2))
    /\ (c.lv = 65 => P[2] = c.y)
    /\ Sec1Enc(P, c.lv = 33) = SB
    /\ Sec1Dec(Sec1Enc(P, TRUE)) = Ok(P) /\ Sec1Dec(Sec1Enc(P, FALSE)) = Ok(P)
    /\ Len(Sec1Enc(P, TRUE)) = 33 /\ Len(Sec1Enc(P, FALSE)) = 65

(* ------------------------------ WIF ------------------------------ *)
WK == KeyBytes(c.key)
WS == Suffix(c.sl)
WE == WifEnc(Combo(c.i).net, Combo(c.i).type, WK, WS)
(* one invariant per case kind so that the (long) Base58 conversions are evaluated once per case *)
WifExact == c.k = "wif" =>
    LET we == WE IN
    /\ we.ok <=> (c.key \in 1..(CN - 1))                                   \* keys 0, >= n and of the wrong length are refused
    /\ KnownVersion(WifVersion(Combo(c.i).net, Combo(c.i).type))
    /\ (we.ok => WifDec(we.v) = Ok([key |-> WK, type |-> Combo(c.i).type, net |-> NetClass(Combo(c.i).net), suffix |-> WS,
                                     version |-> WifVersion(Combo(c.i).net, Combo(c.i).type)]))
    /\ (EmitRows => PrintT(<<"R", "wif", Combo(c.i).net, Combo(c.i).type, WK, WS, we.ok, we.v>>))
(* version byte determines (network class, type) and vice versa *)
ASSUME \A i, j \in 0..23 :
    (WifVersion(Combo(i).net, Combo(i).type) = WifVersion(Combo(j).net, Combo(j).type))
      <=> (NetClass(Combo(i).net) = NetClass(Combo(j).net) /\ Combo(i).type = Combo(j).type)
ASSUME \A v \in 0..255 : KnownVersion(v) <=> \E i \in 0..23 : WifVersion(Combo(i).net, Combo(i).type) = v
(* crafted strings *)
UnknownVersions == <<0, 127, 136, 238, 247, 255>>
NextChar(ch) == LET i == B58!IndexOf(ch) IN B58!Alphabet[((i + 1) % 58) + 1]
WifX ==
    LET cm == Combo(c.i)
        good == WifEnc(cm.net, cm.type, B32((c.i % (CN - 1)) + 1), Suffix(c.i % 3)).v
    IN CASE c.v = 1 -> B58!EncCheck(<<UnknownVersions[(c.i % 6) + 1]>> \o B32(1) \o Suffix(c.i % 3))   \* unknown version, valid checksum
         [] c.v = 2 -> B58!EncCheck(SubSeq(<<WifVersion(cm.net, cm.type)>> \o B32(1), 1, c.i + 1))      \* known version, short payload
         [] c.v = 3 -> B58!EncCheck(<<WifVersion(cm.net, cm.type)>> \o B32(IF c.i % 2 = 0 THEN 0 ELSE CN + (c.i % 3)))  \* key out of range
         [] c.v = 4 -> [j \in 1..Len(good) |-> IF j = (c.i % Len(good)) + 1 THEN NextChar(good[j]) ELSE good[j]]  \* one character changed
         [] c.v = 5 -> SubSeq(good, 1, Len(good) - 1 - (c.i % 3))                                       \* truncated
         [] c.v = 6 -> IF c.i = 0 THEN <<>> ELSE IF c.i = 1 THEN B58!EncCheck(<<>>) ELSE good \o <<48 + (c.i % 2)>>  \* empty / empty payload / '0','1' appended
WifAcceptIsImage == c.k = "wifx" =>
    LET s == WifX  d == WifDec(s)  must == WifMustReject(s) IN
    /\ (c.v \in {1, 2, 3} => ~d.ok)
    /\ (c.v = 1 => must)
    /\ (must => ~d.ok)
    /\ (d.ok => \E net \in {"mainnet", "testnet"} : WifEnc(net, d.v.type, d.v.key, d.v.suffix) = Ok(s) /\ NetClass(net) = d.v.net)
    /\ (EmitRows => PrintT(<<"R", "wifx", c.v, s, d.ok, must, IF d.ok THEN <<d.v.key, d.v.type, d.v.net, d.v.suffix>> ELSE <<>> >>))

(* ------------------------------ PEM ------------------------------ *)
PemEncPrivDev(key) ==     \* deviation: private key written as a minimal integer (leading zero bytes dropped)
    IF PrivFromBytes(key).ok
    THEN Ok(Armor(LabelPriv, ECPrivateKeyDer(StripZeros(key), Sec1Enc(PubOf(NFromBE(key)), FALSE))))
    ELSE Fail
EP(key) == IF Dev = "pemstrip" THEN PemEncPrivDev(key) ELSE PemEncPriv(key)
PK == B32(c.d)
PemPrivExact == c.k = "pem" =>
    /\ EP(PK).ok <=> (c.d \in 1..(CN - 1))
    /\ (EP(PK).ok =>
          LET doc == EP(PK).v  P == PubOf(c.d) IN
          /\ PemDec(doc) = Ok([kind |-> "priv", priv |-> PK, pub |-> Sec1Enc(P, FALSE)])
          /\ ~PemDecPub(doc).ok
          /\ Dearmor(LabelPriv, doc).ok /\ Len(Dearmor(LabelPriv, doc).v) = 118
          /\ \A i \in 1..Len(doc) : doc[i] = LF \/ doc[i] \in 32..126)
PemPubExact == c.k = "pem" /\ c.d \in 1..(CN - 1) =>
    \A comp \in BOOLEAN :
        LET pk == Sec1Enc(PubOf(c.d), comp)  e == PemEncPub(pk) IN
        /\ e.ok
        /\ PemDec(e.v) = Ok([kind |-> "pub", priv |-> <<>>, pub |-> pk])
        /\ ~PemDecPriv(e.v).ok
        /\ Len(Dearmor(LabelPub, e.v).v) = (IF comp THEN 56 ELSE 88)
(* the DER layouts, byte by byte, for one key (RFC 5915 / RFC 5480 written out) *)
ASSUME DerOid(OidSecp256k1) = <<6, 5, 43, 129, 4, 0, 10>>
ASSUME DerOid(OidEcPublicKey) = <<6, 7, 42, 134, 72, 206, 61, 2, 1>>
ASSUME LET k == B32(1)  p == Sec1Enc(G, FALSE) IN
       ECPrivateKeyDer(k, p) = <<48, 116, 2, 1, 1, 4, 32>> \o k \o <<160, 7, 6, 5, 43, 129, 4, 0, 10, 161, 68, 3, 66, 0>> \o p
ASSUME LET p == Sec1Enc(G, FALSE) IN
       SpkiDer(p) = <<48, 86, 48, 16, 6, 7, 42, 134, 72, 206, 61, 2, 1, 6, 5, 43, 129, 4, 0, 10, 3, 66, 0>> \o p
ASSUME LET p == Sec1Enc(G, TRUE) IN
       SpkiDer(p) = <<48, 54, 48, 16, 6, 7, 42, 134, 72, 206, 61, 2, 1, 6, 5, 43, 129, 4, 0, 10, 3, 34, 0>> \o p
ASSUME DerLen(127) = <<127>> /\ DerLen(128) = <<129, 128>> /\ DerLen(255) = <<129, 255>> /\ DerLen(256) = <<130, 1, 0>>

(* ------------------------------ Base64 / wrapping ------------------------------ *)
(* RFC 4648 validity written independently of B64Dec *)
B64Valid(s) ==
    LET n == Len(s) IN
    /\ (n % 4) = 0
    /\ \A i \in 1..n : InB64(s[i]) \/ (s[i] = B64Pad /\ i >= n - 1)
    /\ (n > 0 /\ s[n - 1] = B64Pad => s[n] = B64Pad)
    /\ (n > 0 /\ s[n] = B64Pad /\ s[n - 1] # B64Pad => (B64Idx(s[n - 1]) % 4) = 0)
    /\ (n > 0 /\ s[n] = B64Pad /\ s[n - 1] = B64Pad => (B64Idx(s[n - 2]) % 16) = 0)
B64RoundTrip == c.k = "b64b" =>
    /\ B64Dec(B64Enc(c.b)) = Ok(c.b)
    /\ Len(B64Enc(c.b)) = 4 * ((Len(c.b) + 2) \div 3)
    /\ B64Valid(B64Enc(c.b))
B64AcceptExact == c.k = "b64s" =>
    /\ B64Dec(c.s).ok = B64Valid(c.s)
    /\ (B64Dec(c.s).ok => B64Enc(B64Dec(c.s).v) = c.s)
RECURSIVE LineLens(_, _, _)
LineLens(t, i, cur) == IF i > Len(t) THEN (IF cur = 0 THEN <<>> ELSE <<999>>)     \* 999: last line not terminated
                       ELSE IF t[i] = LF THEN <<cur>> \o LineLens(t, i + 1, 0)
                       ELSE LineLens(t, i + 1, cur + 1)
WrapExact == c.k = "wrap" =>
    LET der == Pattern(c.n)  doc == Armor(LabelPriv, der)  ll == LineLens(doc, 1, 0)
        nb == (4 * ((c.n + 2) \div 3) + 63) \div 64 IN
    /\ Dearmor(LabelPriv, doc) = Ok(der)
    /\ ~Dearmor(LabelPub, doc).ok
    /\ Len(ll) = nb + 2 /\ ll[1] = 30 /\ ll[Len(ll)] = 28
    /\ \A i \in 2..(Len(ll) - 1) : IF i < Len(ll) - 1 THEN ll[i] = 64 ELSE ll[i] \in 1..64
    /\ (c.n > 0 => ~Dearmor(LabelPriv, SubSeq(doc, 1, Len(doc) - 1)).ok)              \* final LF missing
    /\ (c.n > 48 => ~Dearmor(LabelPriv, SubSeq(doc, 1, 50) \o <<LF>> \o SubSeq(doc, 51, Len(doc))).ok)   \* line broken early

(* ------------------------------ stage-B rows ------------------------------ *)
Row == CASE c.k = "sec1" -> <<"R", "sec1", c.pre, c.x, c.y, c.lv, Sec1Dec(SB).ok, Sec1Dec(SB).v,
                                   IF Sec1Dec(SB).ok THEN Sec1Enc(Sec1Dec(SB).v, TRUE) ELSE <<>> >>
         [] c.k = "pem"  -> IF c.d \in 1..(CN - 1)
                            THEN <<"R", "pem", PK, PemEncPriv(PK).v, Sec1Enc(PubOf(c.d), TRUE), PemEncPub(Sec1Enc(PubOf(c.d), TRUE)).v,
                                   Sec1Enc(PubOf(c.d), FALSE), PemEncPub(Sec1Enc(PubOf(c.d), FALSE)).v>>
                            ELSE <<"R", "pembad", PK>>
         [] c.k = "wrap" -> <<"R", "wrap", Pattern(c.n), Armor(LabelPriv, Pattern(c.n))>>
         [] OTHER -> <<"R", "none">>
Emit == (EmitRows /\ c.k \in {"sec1", "pem", "wrap"}) => PrintT(Row)
=============================================================================
