CONSTANTS Big = FALSE CP = 43 CB = 7 CN = 31 CGx = 2 CGy = 12
SignMsgs = {}
SignAuxs = {}
VerMsgs = {2}
CountPks = {}
LenDs = {}
EmitRows = FALSE
Dev = "noparity"
INIT Init
NEXT Next
INVARIANT SignDomain
INVARIANT SignSound
INVARIANT VerifyExact
INVARIANT WhyConsistent
INVARIANT LiftExact
INVARIANT OneSPerR
INVARIANT LenStrict
INVARIANT Emit
CHECK_DEADLOCK FALSE
