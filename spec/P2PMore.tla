------------------------------ MODULE P2PMore ------------------------------
(***************************************************************************)
(* Extension beyond C17's statement: the payload functions of bits.p2p     *)
(* that exist in ONE direction only (C17 lists the five that exist in      *)
(* both), the stand-alone element codecs, and the parser dispatch.         *)
(*                                                                         *)
(*   getblocks_payload(hashes, pv)   build only.  On the wire a getblocks  *)
(*       payload has the shape of a getheaders payload, so the composition *)
(*       theorem is  ParseGetHeaders(BuildGetBlocks(v)) = Ok(v + zero stop)*)
(*   headers_payload(count, headers) build only: CompactSize count, then   *)
(*       per header HdrLen (80) bytes followed by a zero transaction count.*)
(*       The specification supplies the missing parser.                    *)
(*   parse_feefilter_payload         parse only: exactly 8 bytes, LE.      *)
(*   parse_sendcmpct_payload         parse only: exactly 9 bytes: announce *)
(*       flag byte, then an 8-byte LE version.                             *)
(*   inventory / parse_inventory, network_ip_addr / parse_network_ip_addr  *)
(*       the element codecs of inv and addr, called directly.              *)
(*   parse_payload(command, payload) dispatch: the parser of that command  *)
(*       when one exists, no result (None) otherwise.                      *)
(* P2PCodec.tla is reused unchanged (CS, CSDec, Join, Split, the parsers). *)
(***************************************************************************)
EXTENDS P2PCodec
CONSTANT HdrLen        \* 80 on the wire

Zeros(n) == [i \in 1..n |-> 0]

(* -------------------------------- getblocks ------------------------------- *)
(* v = [pv : 4 bytes LE, hashes : Seq(HashLen bytes)] ; the stop hash is all zero ("as many as you have") *)
BuildGetBlocks(v) == v.pv \o CS(Len(v.hashes)) \o Join(v.hashes, HashLen) \o Zeros(HashLen)
GetBlocksIsGetHeaders(v) ==
    ParseGetHeaders(BuildGetBlocks(v)) = Ok([pv |-> v.pv, hashes |-> v.hashes, stop |-> Zeros(HashLen)])

(* --------------------------------- headers -------------------------------- *)
(* v = [headers : Seq(HdrLen bytes)] *)
BuildHeaders(v) == CS(Len(v.headers)) \o Join([i \in 1..Len(v.headers) |-> v.headers[i] \o <<0>>], HdrLen + 1)
ParseHeaders(b) ==
    LET c == CSDec(b) IN
    IF ~c.ok \/ Len(b) # c.n + c.v * (HdrLen + 1) THEN Fail
    ELSE IF \E i \in 1..c.v : b[c.n + i * (HdrLen + 1)] # 0 THEN Fail          \* a header message carries no transactions
    ELSE Ok([headers |-> [i \in 1..c.v |-> SubSeq(b, c.n + (i - 1) * (HdrLen + 1) + 1, c.n + i * (HdrLen + 1) - 1)]])
HeadersRoundTrip(v) == ParseHeaders(BuildHeaders(v)) = Ok(v)
HeadersTight(v) == LET b == BuildHeaders(v) IN ~ParseHeaders(b \o <<0>>).ok /\ ~ParseHeaders(SubSeq(b, 1, Len(b) - 1)).ok

(* -------------------------- feefilter / sendcmpct ------------------------- *)
BuildFeeFilter(v) == v.feerate                                         \* 8 bytes LE
ParseFeeFilter(b) == IF Len(b) = 8 THEN Ok([feerate |-> b]) ELSE Fail
BuildSendCmpct(v) == <<v.announce>> \o v.version                       \* announce : 0..255 (0/1 in practice), version : 8 bytes LE
ParseSendCmpct(b) == IF Len(b) = 9 THEN Ok([announce |-> b[1], version |-> SubSeq(b, 2, 9)]) ELSE Fail

(* --------------------------------- dispatch ------------------------------- *)
(* commands for which bits.p2p has a parser; every other command yields no result *)
Parsed == {"version", "ping", "getheaders", "feefilter", "sendcmpct", "inv", "addr"}
None == [ok |-> TRUE, v |-> "none"]
Dispatch(cmd, b) ==
    IF cmd \notin Parsed THEN None
    ELSE CASE cmd \in {"version", "ping", "getheaders", "inv", "addr"} -> Parse(cmd, b)
           [] cmd = "feefilter" -> ParseFeeFilter(b)
           [] cmd = "sendcmpct" -> ParseSendCmpct(b)

(* what the code is expected to return / build for a case *)
Expected(x) ==
    CASE x.k = "getblocks" -> Ok(BuildGetBlocks(x.v))
      [] x.k = "headers" -> Ok(BuildHeaders(x.v))
      [] x.k = "feefilter" -> ParseFeeFilter(x.b)
      [] x.k = "sendcmpct" -> ParseSendCmpct(x.b)
      [] x.k = "inventory" -> Ok(BuildInventory(x.v))
      [] x.k = "badinventory" -> ParseInventory(x.b)
      [] x.k = "netaddr" -> Ok(BuildNetAddr(x.v))
      [] x.k = "dispatch" -> Dispatch(x.cmd, x.b)
=============================================================================
