---------------------------- MODULE Trace_Script ----------------------------
(* Stage C for C13: recorded calls of bits.script are judged by Script.tla.    *)
(* Script items in events are [k |-> "op"|"data", n |-> opcode name, d |-> bytes] *)
(* (the code's own textual form parsed by the harness); aliases are compared   *)
(* through the opcode table, i.e. by byte.                                     *)
(*   asm     [items, ok, r, back_ok, back]   script(items); decode_script(r)    *)
(*   disasm  [a, ok, items, re_ok, re]       decode_script(a); script(items)    *)
(*   asmw    [stack, ok, r]                  script(stack, witness=True)        *)
(*   disasmw [a, ok, stack, rest]            decode_script(a, witness=True)     *)
(*   tmpl    [t, m, v, keys, sigs, data, ok, r]   the template builders         *)
(*   vector  [a, items]                      published script + its disassembly *)
(* Inputs outside the property's quantifier (non-minimal or unparsable scripts  *)
(* given to decode_script, push-opcode names given to script) get "ok".         *)
EXTENDS Script, Json, IOUtils, TLC
Trace == JsonDeserialize(IOEnv.TRACE_FILE)
VARIABLE l

VAsm(e) ==
    LET p == FromNamed(e.items) IN
    IF ~p.ok THEN "ok"
    ELSE IF ~e.ok THEN "asm-raised"
    ELSE IF e.r # Asm(p.v) THEN
            (IF Disasm(e.r) = Ok(p.v) THEN "asm-nonminimal-push" ELSE "asm-wrong")
    ELSE IF ~e.back_ok THEN "asm-disasm-raised"
    ELSE LET q == FromNamed(e.back) IN
         IF ~q.ok \/ q.v # p.v THEN "asm-disasm-differs" ELSE "ok"

VDisasm(e) ==
    IF ~MinimalPushes(e.a) THEN "ok"
    ELSE IF ~e.ok THEN "disasm-raised"
    ELSE LET q == FromNamed(e.items) IN
         IF ~q.ok THEN "disasm-unknown-name"
         ELSE IF q.v # Disasm(e.a).v THEN "disasm-wrong"
         ELSE IF ~e.re_ok THEN "disasm-asm-raised"
         ELSE IF e.re # e.a THEN "disasm-asm-differs" ELSE "ok"

VAsmW(e) ==
    IF ~e.ok THEN "witness-asm-raised"
    ELSE IF e.r # AsmWitness(e.stack) THEN "witness-asm-wrong" ELSE "ok"

VDisasmW(e) ==
    LET d == DisasmWitness(e.a) IN
    IF ~d.ok THEN "ok"
    ELSE IF ~e.ok THEN "witness-disasm-raised"
    ELSE IF e.stack # d.v.stack THEN "witness-disasm-wrong"
    ELSE IF e.rest # d.v.rest THEN "witness-disasm-leftover" ELSE "ok"

Expected(e) ==
    CASE e.t = "p2pk"            -> {P2PK(e.keys[1])}
      [] e.t = "p2pksig"         -> {P2PKSig(e.sigs[1])}
      [] e.t = "p2pkh"           -> {P2PKH(e.data)}
      [] e.t = "p2pkhsig"        -> {P2PKHSig(e.sigs[1], e.keys[1])}
      [] e.t = "p2sh"            -> {P2SH(e.data)}
      [] e.t = "p2shsig"         -> {P2SHSig(e.sigs, e.data)}
      [] e.t = "multisig"        -> {Multisig(e.m, e.keys)}
      [] e.t = "multisigsig"     -> {MultisigSig(e.sigs)}
      [] e.t = "p2shmultisig"    -> {P2SHMultisig(e.m, e.keys)}
      [] e.t = "p2shmultisigsig" -> {P2SHMultisigSig(e.sigs, e.data)}
      [] e.t = "nulldata"        -> IF e.data = <<>> THEN {NullData(<<>>), <<106>>} ELSE {NullData(e.data)}
      [] e.t = "witprog"         -> {WitnessProgram(e.v, e.data)}
      [] e.t = "p2wpkh"          -> {P2WPKH(e.data)}
      [] e.t = "p2wsh"           -> {P2WSH(e.data)}
      [] e.t = "emptysig"        -> {<<>>}
      [] e.t = "p2sh_p2wpkh"     -> {P2SH_P2WPKH(e.data)}
      [] e.t = "p2sh_p2wsh"      -> {P2SH_P2WSH(e.data)}
      [] e.t = "redeempush"      -> {RedeemPush(e.data)}
KnownTemplates == {"p2pk", "p2pksig", "p2pkh", "p2pkhsig", "p2sh", "p2shsig", "multisig", "multisigsig",
                   "p2shmultisig", "p2shmultisigsig", "nulldata", "witprog", "p2wpkh", "p2wsh", "emptysig",
                   "p2sh_p2wpkh", "p2sh_p2wsh", "redeempush"}
VTmpl(e) ==
    IF e.t \notin KnownTemplates THEN "unknown-template"
    ELSE IF ~e.ok THEN "template-raised"
    ELSE IF e.r \notin Expected(e) THEN "template-wrong" ELSE "ok"

VVector(e) ==
    LET q == FromNamed(e.items) IN
    IF ~q.ok THEN "vector-names"
    ELSE IF Asm(q.v) # e.a THEN "vector-asm"
    ELSE IF Disasm(e.a) # Ok(q.v) THEN "vector-disasm"
    ELSE IF ~MinimalPushes(e.a) THEN "vector-minimal" ELSE "ok"

Verdict(e) ==
    CASE e.op = "asm"     -> VAsm(e)
      [] e.op = "disasm"  -> VDisasm(e)
      [] e.op = "asmw"    -> VAsmW(e)
      [] e.op = "disasmw" -> VDisasmW(e)
      [] e.op = "tmpl"    -> VTmpl(e)
      [] e.op = "vector"  -> VVector(e)
      [] OTHER -> "unknown-op"

Init == l = 1
Next == /\ l <= Len(Trace)
        /\ PrintT(<<"V", Trace[l].id, Verdict(Trace[l])>>)
        /\ l' = l + 1
=============================================================================
