--------------------------- MODULE Gen_CompactSize ---------------------------
(* Stage B for C05: TLC enumerates CompactSize values (0..Upto exhaustively,   *)
(* 2^k-2..2^k+2 for k = 1..72) with the encoding the specification demands     *)
(* (or the refusal), and for every accepted value the expected decode of the   *)
(* encoding followed by trailing data.                                         *)
EXTENDS CompactSize, Json, IOUtils, TLC, SequencesExt
CONSTANTS Upto
RECURSIVE LeInc(_)
LeInc(v) == IF v = <<>> THEN <<1>>
            ELSE IF v[1] < 255 THEN <<v[1] + 1>> \o Tail(v) ELSE <<0>> \o LeInc(Tail(v))
RECURSIVE LeDec(_)
LeDec(v) == IF v[1] > 0 THEN <<v[1] - 1>> \o Tail(v) ELSE <<255>> \o LeDec(Tail(v))
RECURSIVE P2(_)
P2(i) == IF i = 0 THEN 1 ELSE 2 * P2(i - 1)
PowerOfTwo(k) == Rep(0, k \div 8) \o <<P2(k % 8)>>
Around(v) == {CsStrip(LeDec(LeDec(v))), CsStrip(LeDec(v)), v, LeInc(v), LeInc(LeInc(v))}
Values == {NatToLE(n) : n \in 0..Upto} \cup UNION {Around(PowerOfTwo(k)) : k \in 1..72}
Trailing(v) == <<253, Len(v), 0>>
Row(v) == LET e == CsEnc(v)
              d == CsDec(e.v \o Trailing(v))
          IN [a |-> v, ok |-> e.ok, r |-> e.v, trail |-> Trailing(v),
              dv |-> IF e.ok THEN d.v.v ELSE <<>>, drest |-> IF e.ok THEN d.v.rest ELSE <<>>]
Rows == SetToSeq({Row(v) : v \in Values})
ASSUME JsonSerialize(IOEnv.OUT_FILE, Rows)
ASSUME PrintT(<<"ROWS", Len(Rows)>>)
=============================================================================
