-------------------------------- MODULE Addr --------------------------------
(***************************************************************************)
(* Addresses and the scriptPubKey they stand for (C08).                    *)
(*   AddrEncode      hash / witness program  ->  address string            *)
(*   ScriptPubKeyOf  public key or address   ->  the standard script       *)
(* Composes Base58Check (Base58.tla), segwit addresses (Bech32.tla) and    *)
(* SEC1 public-key validity (Ecdsa!Sec1Dec over the curve of EC.tla).      *)
(* The six fixed byte templates are defined here (no script interpreter is *)
(* needed): P2PK, P2PKH, P2SH and the witness program OP_n <push program>  *)
(* (BIP141: OP_0 = 0x00, OP_1..OP_16 = 0x51..0x60), which covers P2WPKH,   *)
(* P2WSH and every version-n program.                                      *)
(***************************************************************************)
EXTENDS Bech32, Base58, Ecdsa

(* ---- script templates ---- *)
Push(b)   == <<Len(b)>> \o b                       \* direct push, 1..75 bytes
OP_DUP == 118  OP_HASH160 == 169  OP_EQUALVERIFY == 136  OP_EQUAL == 135  OP_CHECKSIG == 172
OpN(n)    == IF n = 0 THEN 0 ELSE 80 + n           \* OP_0, OP_1 .. OP_16
P2PK(pk)  == Push(pk) \o <<OP_CHECKSIG>>
P2PKH(h)  == <<OP_DUP, OP_HASH160>> \o Push(h) \o <<OP_EQUALVERIFY, OP_CHECKSIG>>
P2SH(h)   == <<OP_HASH160>> \o Push(h) \o <<OP_EQUAL>>
WitnessProgram(ver, prog) == <<OpN(ver)>> \o Push(prog)

(* kind is "p2pkh", "p2sh" or "wit"; ver is only meaningful for "wit" *)
Template(kind, ver, payload) ==
    CASE kind = "p2pkh" -> P2PKH(payload)
      [] kind = "p2sh"  -> P2SH(payload)
      [] kind = "wit"   -> WitnessProgram(ver, payload)

(* ---- address encoding ---- *)
P2pkhVersions == {0, 111}                          \* mainnet, testnet/regtest
P2shVersions  == {5, 196}
B58Version(kind, net) ==
    IF kind = "p2pkh" THEN (IF net = "mainnet" THEN 0 ELSE 111) ELSE (IF net = "mainnet" THEN 5 ELSE 196)

AddrEncode(kind, ver, net, payload) ==
    IF net \notin Nets THEN Fail
    ELSE IF kind \in {"p2pkh", "p2sh"}
         THEN (IF Len(payload) = 20 THEN Ok(EncCheck(<<B58Version(kind, net)>> \o payload)) ELSE Fail)
    ELSE IF kind = "wit" THEN SegwitEncode(net, ver, payload)
    ELSE Fail

(* ---- the dispatcher ---- *)
IsPubKey(b) == Sec1Dec(b).ok
ScriptPubKeyOf(input) ==
    IF IsPubKey(input) THEN Ok(P2PK(input))
    ELSE LET b == DecCheck(input) IN
         IF b.ok THEN
              IF Len(b.v) >= 1 /\ b.v[1] \in P2pkhVersions THEN Ok(P2PKH(Tail(b.v)))
              ELSE IF Len(b.v) >= 1 /\ b.v[1] \in P2shVersions THEN Ok(P2SH(Tail(b.v)))
              ELSE Fail                            \* unknown version byte
         ELSE LET s == SegwitDecode(input) IN
              IF s.ok THEN Ok(WitnessProgram(s.v.ver, s.v.prog)) ELSE Fail

(* The property speaks about 20-byte hashes behind Base58Check addresses.  A checksum-valid string with a   *)
(* known version byte but another payload length is outside its quantifier: either outcome is allowed.      *)
Unconstrained(input) ==
    ~IsPubKey(input) /\ LET b == DecCheck(input) IN
                        b.ok /\ Len(b.v) >= 1 /\ b.v[1] \in (P2pkhVersions \cup P2shVersions) /\ Len(b.v) # 21

(* which of the three valid input kinds (for clause names) *)
InputClass(input) ==
    IF IsPubKey(input) THEN "pubkey"
    ELSE IF IsCheck(input) THEN "base58check"
    ELSE IF Classify(input) THEN "segwit"
    ELSE "none"
=============================================================================
