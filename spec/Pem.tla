--------------------------------- MODULE Pem ---------------------------------
(***************************************************************************)
(* PEM containers of secp256k1 keys (C14), as byte layouts:                *)
(*   RFC 5915  ECPrivateKey ::= SEQUENCE { version INTEGER 1,              *)
(*       privateKey OCTET STRING (32 bytes, leading zeros kept),           *)
(*       [0] parameters  namedCurve OID 1.3.132.0.10,                      *)
(*       [1] publicKey   BIT STRING (uncompressed SEC1 point) }            *)
(*   RFC 5480  SubjectPublicKeyInfo ::= SEQUENCE { SEQUENCE {              *)
(*       OID 1.2.840.10045.2.1 (id-ecPublicKey), OID 1.3.132.0.10 },       *)
(*       BIT STRING (SEC1 point, compressed or uncompressed) }             *)
(*   RFC 7468  textual encoding: BEGIN line, Base64 (RFC 4648) in lines of *)
(*       64 characters, END line; every line ends with LF.                 *)
(* Texts are ASCII code tuples.  Decoders are "exact": they accept the     *)
(* image of the encoders (decode = locate the fields, re-encode, compare). *)
(***************************************************************************)
EXTENDS Ecdsa

(* ---------------- DER ---------------- *)
DerLen(n) == IF n < 128 THEN <<n>>
             ELSE IF n < 256 THEN <<129, n>>
             ELSE <<130, n \div 256, n % 256>>
TLV(tag, content) == <<tag>> \o DerLen(Len(content)) \o content
(* base-128 digits of an OID arc, continuation bit on all but the last *)
RECURSIVE B128(_, _)
B128(n, last) == (IF n >= 128 THEN B128(n \div 128, FALSE) ELSE <<>>) \o <<(n % 128) + (IF last THEN 0 ELSE 128)>>
RECURSIVE ArcsFrom(_, _)
ArcsFrom(arcs, i) == IF i > Len(arcs) THEN <<>> ELSE B128(arcs[i], TRUE) \o ArcsFrom(arcs, i + 1)
DerOid(arcs) == TLV(6, <<40 * arcs[1] + arcs[2]>> \o ArcsFrom(arcs, 3))
OidSecp256k1   == <<1, 3, 132, 0, 10>>
OidEcPublicKey == <<1, 2, 840, 10045, 2, 1>>

ECPrivateKeyDer(key, pub) ==
    TLV(48, TLV(2, <<1>>) \o TLV(4, key) \o TLV(160, DerOid(OidSecp256k1)) \o TLV(161, TLV(3, <<0>> \o pub)))
SpkiDer(pub) ==
    TLV(48, TLV(48, DerOid(OidEcPublicKey) \o DerOid(OidSecp256k1)) \o TLV(3, <<0>> \o pub))

(* ---------------- Base64 (RFC 4648, canonical) ---------------- *)
B64Alphabet == <<65,66,67,68,69,70,71,72,73,74,75,76,77,78,79,80,81,82,83,84,85,86,87,88,89,90,
                 97,98,99,100,101,102,103,104,105,106,107,108,109,110,111,112,113,114,115,116,117,118,119,120,121,122,
                 48,49,50,51,52,53,54,55,56,57,43,47>>
B64Pad == 61
Pow64(k) == CASE k = 0 -> 1 [] k = 1 -> 64 [] k = 2 -> 4096 [] k = 3 -> 262144
Pow256(k) == CASE k = 0 -> 1 [] k = 1 -> 256 [] k = 2 -> 65536
B64Enc(b) ==
    LET n == Len(b)
        at(i) == IF i <= n THEN b[i] ELSE 0
        ch(j) == LET g == (j - 1) \div 4
                     k == (j - 1) % 4
                     v == (at(3 * g + 1) * 65536) + (at(3 * g + 2) * 256) + at(3 * g + 3)
                 IN IF (k = 2 /\ 3 * g + 2 > n) \/ (k = 3 /\ 3 * g + 3 > n) THEN B64Pad
                    ELSE B64Alphabet[((v \div Pow64(3 - k)) % 64) + 1]
    IN [j \in 1..(4 * ((n + 2) \div 3)) |-> ch(j)]
InB64(c)  == \E i \in 1..64 : B64Alphabet[i] = c
B64Idx(c) == IF c = B64Pad THEN 0 ELSE (CHOOSE i \in 1..64 : B64Alphabet[i] = c) - 1
B64Dec(s) ==
    LET n == Len(s) IN
    IF (n % 4) # 0 THEN Fail
    ELSE IF n = 0 THEN Ok(<<>>)
    ELSE LET pad == IF s[n] # B64Pad THEN 0 ELSE IF s[n - 1] # B64Pad THEN 1 ELSE 2 IN
         IF \E i \in 1..(n - pad) : ~InB64(s[i]) THEN Fail
         ELSE LET by(j) == LET g == (j - 1) \div 3
                               k == (j - 1) % 3
                               v == (B64Idx(s[4 * g + 1]) * 262144) + (B64Idx(s[4 * g + 2]) * 4096)
                                    + (B64Idx(s[4 * g + 3]) * 64) + B64Idx(s[4 * g + 4])
                           IN (v \div Pow256(2 - k)) % 256
                  out == [j \in 1..(3 * (n \div 4) - pad) |-> by(j)]
              IN IF B64Enc(out) = s THEN Ok(out) ELSE Fail       \* canonical: unused bits zero, padding only where due

(* ---------------- RFC 7468 armour ---------------- *)
LF == 10
(* lines of 64 characters, each (also the last, possibly shorter one) terminated by LF *)
Wrap64(chars) ==
    LET n  == Len(chars)
        nl == (n + 63) \div 64
    IN [i \in 1..(n + nl) |-> IF ((i - 1) % 65) = 64 \/ i = n + nl THEN LF
                              ELSE chars[(((i - 1) \div 65) * 64) + ((i - 1) % 65) + 1]]
Dashes     == <<45, 45, 45, 45, 45>>
LabelPriv  == <<69,67,32,80,82,73,86,65,84,69,32,75,69,89>>        \* "EC PRIVATE KEY"
LabelPub   == <<80,85,66,76,73,67,32,75,69,89>>                    \* "PUBLIC KEY"
BeginLine(label) == Dashes \o <<66,69,71,73,78,32>> \o label \o Dashes \o <<LF>>     \* "-----BEGIN " label "-----" LF
EndLine(label)   == Dashes \o <<69,78,68,32>> \o label \o Dashes \o <<LF>>           \* "-----END " label "-----" LF
Armor(label, der) == BeginLine(label) \o Wrap64(B64Enc(der)) \o EndLine(label)
NotLF(c) == c # LF
Dearmor(label, doc) ==
    LET b == BeginLine(label)  e == EndLine(label) IN
    IF Len(doc) < Len(b) + Len(e) \/ SubSeq(doc, 1, Len(b)) # b \/ SubSeq(doc, Len(doc) - Len(e) + 1, Len(doc)) # e THEN Fail
    ELSE LET body  == SubSeq(doc, Len(b) + 1, Len(doc) - Len(e))
             chars == SelectSeq(body, NotLF)
         IN IF Wrap64(chars) # body THEN Fail ELSE B64Dec(chars)

(* ---------------- keys ---------------- *)
PemEncPriv(key) ==
    IF PrivFromBytes(key).ok
    THEN Ok(Armor(LabelPriv, ECPrivateKeyDer(key, Sec1Enc(PubOf(NFromBE(key)), FALSE))))
    ELSE Fail
PemEncPub(pub) == IF Sec1Dec(pub).ok THEN Ok(Armor(LabelPub, SpkiDer(pub))) ELSE Fail

(* decoders: locate the fields at their fixed offsets, require the document to be the encoding of them *)
PemDecPriv(doc) ==
    LET d == Dearmor(LabelPriv, doc) IN
    IF ~d.ok \/ Len(d.v) # 118 THEN Fail
    ELSE LET key == SubSeq(d.v, 8, 39)  pub == SubSeq(d.v, 54, 118) IN
         IF d.v = ECPrivateKeyDer(key, pub) /\ PrivFromBytes(key).ok /\ Sec1Dec(pub).ok
         THEN Ok([kind |-> "priv", priv |-> key, pub |-> pub]) ELSE Fail
PemDecPub(doc) ==
    LET d == Dearmor(LabelPub, doc) IN
    IF ~d.ok \/ Len(d.v) \notin {56, 88} THEN Fail
    ELSE LET pub == SubSeq(d.v, 24, Len(d.v)) IN
         IF d.v = SpkiDer(pub) /\ Sec1Dec(pub).ok
         THEN Ok([kind |-> "pub", priv |-> <<>>, pub |-> pub]) ELSE Fail
PemDec(doc) == LET a == PemDecPriv(doc) IN IF a.ok THEN a ELSE PemDecPub(doc)
=============================================================================
