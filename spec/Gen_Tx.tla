------------------------------- MODULE Gen_Tx -------------------------------
(* Stage B for C05 / C04: TLC enumerates the bounded transaction grammar and   *)
(* writes, for every case, the bytes and identifiers the specification demands *)
(* (real SHA-256 through the Native override); the harness replays every row   *)
(* into bits.tx.tx / tx_deser.                                                 *)
EXTENDS TxGrammar, Json, IOUtils, TLC, SequencesExt
(* defined here, not in the grammar module: TLC evaluates zero-arity constants eagerly *)
AllCases == UNION {CasesWithFirst(i) : i \in Ins}
Row(x) == [t |-> x.t, u |-> x.u, ser |-> TxSer(x.t), txid |-> Txid(x.t), wtxid |-> Wtxid(x.t),
           segwit |-> HasWitness(x.t)]
Rows == SetToSeq({Row(x) : x \in AllCases})
ASSUME JsonSerialize(IOEnv.OUT_FILE, Rows)
ASSUME PrintT(<<"ROWS", Len(Rows)>>)
=============================================================================
