CONSTANTS Peers = {1, 2, 3}  Racy = TRUE
INIT TInit
NEXT TNext
CHECK_DEADLOCK FALSE
