CONSTANTS Peers = {1, 2, 3}  Racy = TRUE  Connect = FALSE
INIT TInit
NEXT TNext
CHECK_DEADLOCK FALSE
