\* start() with 0 or 1 seeds, further peers attached with connect_peer, ibd, stop() twice
CONSTANTS NPeers = 2  MaxMsgs = 1  Kinds = {"ping", "inv"}  Faults = TRUE
MaxStops = 2  MaxIbd = 1  DirectKinds = {}  MaxDirect = 0  Devs = {}
SeedSet = {0, 1}  RpcSet = {FALSE}
SPECIFICATION Spec
INVARIANT TypeOK
INVARIANT Numbering
INVARIANT HelloFirst
INVARIANT CloseOnce
INVARIANT AfterStopBounded
INVARIANT Accounted
INVARIANT NoStrangers
INVARIANT StoppedMeans
INVARIANT ExitOnlyByStop
INVARIANT IbdOnce
PROPERTY QuietAfterExit
PROPERTY AppendOnly
PROPERTY StopTerminates
PROPERTY StopReturns
PROPERTY RpcTerminates
CHECK_DEADLOCK FALSE
