CONSTANTS MaxN = 8  NoBound = TRUE
INIT Init
NEXT Next
INVARIANT RulesAgree
INVARIANT SingleOutOfRangeZero
INVARIANT TableAsStated
INVARIANT LayoutCorrect
CHECK_DEADLOCK FALSE
