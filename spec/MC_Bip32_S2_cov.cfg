CONSTANTS Big = FALSE CP = 67 CB = 7 CN = 79 CGx = 2 CGy = 22
CCs = {0, 1, 2}
NSeeds = 300
Dev = "none"
INIT Init
NEXT Next
CHECK_DEADLOCK FALSE
