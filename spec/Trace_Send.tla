----------------------------- MODULE Trace_Send -----------------------------
(***************************************************************************)
(* Stage C for C16: every transaction returned by bits.tx.send_tx (driven  *)
(* with a scripted UTXO source) is parsed with Tx!TxDeser and judged with  *)
(* Send!SendClause (inputs reported, exact values, recipient, change,      *)
(* conservation) and, when signing keys were supplied, Spend!InputValid    *)
(* for every input (real SHA-256 / RIPEMD-160, secp256k1).                 *)
(***************************************************************************)
EXTENDS Send, Secp256k1, Json, IOUtils, TLC
Trace == JsonDeserialize(IOEnv.TRACE_FILE)
VARIABLE l

Utx(e) == [j \in 1..Len(e.utxos) |-> [txid |-> e.utxos[j].txid, vout |-> e.utxos[j].vout, sat |-> e.utxos[j].sat,
                                        script |-> e.utxos[j].script]]
Par(e) == [num |-> e.num, den |-> e.den, fee |-> e.fee, version |-> e.version, lock |-> e.lock,
           recip |-> e.recip, change |-> e.change]

FirstBadInput(t, u, i) ==   \* 0 if inputs i..n are all valid, else the (1-based) number of the first invalid one
    LET RECURSIVE F(_)
        F(k) == IF k > Len(t.ins) THEN 0
                ELSE LET x == u[UtxoIdx(u, t.ins[k])] IN
                     IF InputValid(x.script, Sat8(x.sat), t, k - 1) THEN F(k + 1) ELSE k
    IN F(i)

Verdict(e) ==
    IF ~e.ok THEN "send-raised"
    ELSE LET d == TxDeser(e.raw) IN
      IF ~d.ok \/ d.v.rest # <<>> THEN "returned-bytes-not-a-transaction"
      ELSE LET t == d.v.t  c == SendClause(t, Utx(e), Par(e)) IN
        IF c # "ok" THEN c
        ELSE IF e.signed /\ FirstBadInput(t, Utx(e), 1) # 0 THEN "input-not-validly-signed"
        ELSE "ok"

Init == l = 1
Next == /\ l <= Len(Trace)
        /\ PrintT(<<"V", Trace[l].id, Verdict(Trace[l])>>)
        /\ l' = l + 1
=============================================================================
