---------------------------- MODULE Trace_Mine ----------------------------
(* Stage C of the mining extension: events recorded from the real code, judged  *)
(* by Mine.tla with native hashes (real SHA-256, big naturals).                  *)
(*   target     [nb, ok, frac, r]         bits.blockchain.target_threshold       *)
(*   mtp        [h0, times, ok, r]        bits.integrations.median_time on a     *)
(*                                        scripted chain with these block times  *)
(*   difficulty [target, net, ok, num, den]  bits.blockchain.difficulty (a float *)
(*                                        as an exact fraction)                  *)
(*   mine       [h0, chain, mempool, now, spk, late, rival, envkind, envat,      *)
(*               ok, nsub, block, node, flen, fmem]   one call of mine_block     *)
(*              against the scripted node: the node state before the call, the   *)
(*              environment event injected while it ran, and what came out (the  *)
(*              block handed to submitblock, whether the call returned, the      *)
(*              node's chain length and mempool afterwards).  The miner machine  *)
(*              of Mine.tla is RUN on the recorded node state - one TLC step per *)
(*              miner action, one per nonce try, the environment event fired at  *)
(*              the recorded point - with the free choices (versions, sequence,  *)
(*              locktime, coinbase tag) read from the recorded block; the block  *)
(*              the machine builds must be the recorded block byte for byte.     *)
(*   funded     [count, compressed, version, tipHash, tipHeight, ok, yielded,    *)
(*               blocks]                  generate_funded_keys                   *)
(*   pow        [hdr, nb, meets]          published fact (specification self-    *)
(*                                        test): this header meets this target   *)
(* DevMedianTime = TRUE (Trace_Mine_devmediantime.cfg) judges the same events    *)
(* with the NAMED deviation of the pinned median_time, so that everything else   *)
(* is still checked where the deviation shows.                                   *)
EXTENDS Mine, Json, IOUtils, TLC
Trace == JsonDeserialize(IOEnv.TRACE_FILE)
VARIABLE l
BaseReal == CB!FiftyBtc
B58 == INSTANCE Base58

IsMine(i) == i <= Len(Trace) /\ Trace[i].op = "mine"

(* the free choices found in the recorded block (FreeChoices when there is none) *)
FreeOf(e) ==
    LET d == BlockDeser(e.block) IN
    IF e.nsub = 0 \/ ~d.ok \/ Len(d.v.txs) = 0 \/ Len(d.v.txs[1].t.ins) = 0 THEN FreeChoices
    ELSE LET cb == d.v.txs[1].t
             f  == CB!DecodeFirst(cb.ins[1].script)
         IN [blockVersion |-> d.v.hdr.version, cbVersion |-> cb.version, cbSequence |-> cb.ins[1].seq,
             cbLocktime |-> cb.locktime, tag |-> IF f.ok THEN f.v.rest ELSE FreeChoices.tag]

Idle == [h0 |-> 0, chain |-> <<>>, mempool |-> <<>>, now |-> 0, pc |-> "na",
         sc |-> [id |-> 0, spk |-> <<>>, regtest |-> FALSE, late |-> <<>>, rivalHash |-> <<>>, free |-> FreeChoices]]
ScnOf(i) ==
    IF ~IsMine(i) THEN Idle
    ELSE LET e == Trace[i] IN
         [h0 |-> e.h0, chain |-> e.chain, mempool |-> e.mempool, now |-> e.now, pc |-> "idle",
          sc |-> [id |-> e.id, spk |-> e.spk, regtest |-> InfersRegtest(e.chain[Len(e.chain)].bits), late |-> e.late,
                  rivalHash |-> e.rival, free |-> FreeOf(e)]]

(* ---------------------------------------------------------------- verdicts *)
Abs(a, b) == IF BigLt(a, b) THEN BigSub(b, a) ELSE BigSub(a, b)

VerdictTarget(e) ==
    IF ~CompactWellFormed(e.nb) THEN "ok"                                  \* negative / malformed: outside the domain
    ELSE IF Target(e.nb) # TargetArith(e.nb) THEN "spec-target-forms-disagree"
    ELSE IF ~e.ok THEN "target-raised"
    ELSE IF e.frac THEN "target-not-an-integer"
    ELSE IF e.r # Target(e.nb) THEN "target-wrong"
    ELSE "ok"

VerdictMtp(e) ==
    IF ~e.ok THEN "mtp-raised"
    ELSE IF e.r # MTP(e.times, e.h0) THEN "mtp-wrong"
    ELSE "ok"

(* a float result num/den must be the correctly rounded quotient: |r - d1/t| <= 2^-52 * d1/t *)
VerdictDifficulty(e) ==
    LET known == e.net \in {"mainnet", "testnet", "regtest"}
        d1    == IF e.net = "regtest" THEN Diff1TargetRegtest ELSE Diff1Target
    IN IF ~known THEN (IF e.ok THEN "difficulty-unknown-network-accepted" ELSE "ok")
       ELSE IF e.target = <<>> THEN "ok"                                   \* division by zero: outside the domain
       ELSE IF ~e.ok THEN "difficulty-raised"
       ELSE IF e.den = <<>> THEN "difficulty-not-a-number"
       ELSE LET lhs == BigShl(Abs(BigMul(e.num, e.target), BigMul(d1, e.den)), 52)
                rhs == BigMul(d1, e.den)
            IN IF BigLt(rhs, lhs) THEN "difficulty-wrong" ELSE "ok"

(* first difference between the recorded block and the block the specification builds, named by cause *)
BlockDiff(got, exp, lenient) ==
    IF got = exp THEN "ok"
    ELSE LET g == BlockDeser(got)
             x == BlockDeser(exp)
         IN IF ~g.ok THEN "block-unparseable"
            ELSE LET gt == g.v.txs  xt == x.v.txs IN
                 IF Len(gt) # Len(xt) \/ \E i \in 2..Len(gt) : gt[i].raw # xt[i].raw THEN "tx-list-not-coinbase-then-mempool"
                 ELSE IF gt[1].raw # xt[1].raw THEN
                      LET gc == gt[1].t  xc == xt[1].t IN
                      IF Len(gc.ins) # 1 \/ ~IsCoinbaseIn(gc.ins[1]) THEN "coinbase-outpoint"
                      ELSE IF gc.ins[1].script # xc.ins[1].script THEN "coinbase-height"
                      ELSE IF Len(gc.outs) = 0 \/ gc.outs[1].script # xc.outs[1].script THEN "coinbase-output-script"
                      ELSE IF gc.outs[1].value # xc.outs[1].value THEN "coinbase-reward-not-subsidy"
                      ELSE IF Len(gc.outs) < Len(xc.outs) THEN "commitment-missing"
                      ELSE IF Len(gc.outs) > Len(xc.outs) THEN "commitment-unexpected"
                      ELSE IF gc.outs # xc.outs THEN "commitment-wrong"
                      ELSE IF gc.wit # xc.wit THEN "commitment-reserved-witness"
                      ELSE "coinbase-differs"
                 ELSE IF g.v.hdr.merkle # x.v.hdr.merkle THEN "merkle-root"
                 ELSE IF g.v.hdr.prev # x.v.hdr.prev THEN "prev-hash-not-tip"
                 ELSE IF g.v.hdr.bits # x.v.hdr.bits THEN "bits-not-inherited"
                 ELSE IF lenient THEN "ok"
                 ELSE IF g.v.hdr.time # x.v.hdr.time THEN "time-not-max-now-mtp+1"
                 ELSE IF g.v.hdr.nonce # x.v.hdr.nonce THEN
                      (IF MeetsTarget(BlockHash(g.v.hdr), m.target) THEN "nonce-not-first" ELSE "pow-not-satisfied")
                 ELSE "block-bytes-differ"

VerdictMine(e) ==
    IF pc = "exhausted" THEN "spec-nonce-exhausted"
    ELSE IF m.block = <<>> THEN (IF m.verdict = "no-coinbase" THEN "coinbase-script-over-100" ELSE "spec-no-block")
    ELSE IF e.nsub = 0 THEN "nothing-submitted"
    ELSE IF e.nsub > 1 THEN "submitted-more-than-once"
    ELSE LET bd == BlockDiff(e.block, m.block, Raced /\ ev.at # "submit") IN
         IF bd # "ok" THEN bd
         ELSE IF e.block = m.block /\ (m.verdict = "ok") # (e.node = "") THEN "rig-node-disagrees"
         ELSE IF (pc = "done") # e.ok THEN (IF e.ok THEN "refusal-not-raised" ELSE "raised-although-accepted")
         ELSE IF e.flen # Len(chain) THEN "chain-after"
         ELSE IF e.fmem # [i \in 1..Len(mempool) |-> mempool[i].raw] THEN "mempool-after"
         ELSE "ok"

(* generate_funded_keys: count blocks, each on top of the previous one, each paying the yielded key's P2PKH address *)
VerdictFunded(e) ==
    IF ~e.ok THEN "funded-raised"
    ELSE IF Len(e.yielded) # e.count THEN "funded-key-count"
    ELSE IF Len(e.blocks) # e.count THEN "funded-block-count"
    ELSE LET Bad(i) ==
                 LET d == BlockDeser(e.blocks[i])
                     a == B58!DecCheck(e.yielded[i].addr)
                     w == B58!DecCheck(e.yielded[i].wif)
                 IN IF ~d.ok \/ Len(d.v.txs) = 0 \/ Len(d.v.txs[1].t.outs) = 0 \/ Len(d.v.txs[1].t.ins) = 0 THEN "funded-block-unparseable"
                    ELSE IF ~a.ok \/ Len(a.v) # 21 \/ a.v[1] # e.version THEN "funded-address-form"
                    ELSE IF d.v.txs[1].t.outs[1].script # <<118, 169, 20>> \o Drop(a.v, 1) \o <<136, 172>> THEN "funded-coinbase-not-to-yielded-address"
                    ELSE IF ~w.ok \/ Len(w.v) # (IF e.compressed THEN 34 ELSE 33) \/ (e.compressed /\ w.v[Len(w.v)] # 1)
                            \/ w.v[1] # (IF e.version = 0 THEN 128 ELSE 239) THEN "funded-wif-form"
                    ELSE IF SubSeq(w.v, 2, 33) # e.yielded[i].key THEN "funded-rig-key"
                    ELSE IF Len(e.yielded[i].pub) # (IF e.compressed THEN 33 ELSE 65) \/ Hash160(e.yielded[i].pub) # Drop(a.v, 1)
                         THEN "funded-key-address-mismatch"
                    ELSE IF d.v.hdr.prev # (IF i = 1 THEN e.tipHash ELSE Hash256(Take(e.blocks[i - 1], 80))) THEN "funded-chain-linkage"
                    ELSE LET f == CB!DecodeFirst(d.v.txs[1].t.ins[1].script) IN
                         IF ~f.ok \/ f.v.h # e.tipHeight + i THEN "funded-heights" ELSE "ok"
             bad == {i \in 1..e.count : Bad(i) # "ok"}
         IN IF bad = {} THEN "ok" ELSE Bad(CHOOSE i \in bad : \A j \in bad : i <= j)

Verdict(e) ==
    CASE e.op = "target"     -> VerdictTarget(e)
      [] e.op = "mtp"        -> VerdictMtp(e)
      [] e.op = "difficulty" -> VerdictDifficulty(e)
      [] e.op = "mine"       -> VerdictMine(e)
      [] e.op = "funded"     -> VerdictFunded(e)
      [] e.op = "pow"        -> LET h == BigFromLE(Hash256(e.hdr))  t == Target(e.nb) IN      \* pre-recorded fact (self-test)
                                IF BigLeq(h, t) # ~BigLt(t, h) THEN "spec-bigleq-disagrees"
                                ELSE IF MeetsTarget(Hash256(e.hdr), t) = e.meets THEN "ok" ELSE "pow-fact"
      [] OTHER -> "unknown-op"

(* ---------------------------------------------------------------- the run *)
Init == /\ l = 1
        /\ LET s == ScnOf(1) IN
           /\ h0 = s.h0 /\ chain = s.chain /\ mempool = s.mempool /\ now = s.now /\ sc = s.sc /\ pc = s.pc
           /\ m = M0 /\ ev = NoEvent
EnvDue(e) == e.envkind # "none" /\ ev.kind = "none" /\ pc = e.envat /\ (pc = "fetch" => m.txs = <<>>)
Step == /\ l <= Len(Trace) /\ pc # "na" /\ ~Terminal
        /\ LET e == Trace[l] IN
           IF EnvDue(e) THEN (IF e.envkind = "block" THEN CompetingBlock ELSE TxArrives) ELSE MinerStep
        /\ UNCHANGED l
Judge == /\ l <= Len(Trace) /\ (pc = "na" \/ Terminal)
         /\ PrintT(<<"V", Trace[l].id, Verdict(Trace[l])>>)
         /\ l' = l + 1
         /\ LET s == ScnOf(l + 1) IN
            /\ h0' = s.h0 /\ chain' = s.chain /\ mempool' = s.mempool /\ now' = s.now /\ sc' = s.sc /\ pc' = s.pc
            /\ m' = M0 /\ ev' = NoEvent
TraceNext == Step \/ Judge

(* arithmetic facts at full size (native big naturals); a failure is a specification bug *)
ASSUME RegtestLimit = BigMul(BigMul(TenToThe8, <<255, 255>>), Pow256(26))
ASSUME Target(<<29, 0, 255, 255>>) = Diff1Target /\ TargetArith(<<32, 127, 255, 255>>) = Diff1TargetRegtest
ASSUME TargetArith(<<34, 0, 1, 0>>) = Pow256(32) /\ Target(<<1, 127, 255, 255>>) = <<127>> /\ Target(<<0, 127, 255, 255>>) = <<>>
=============================================================================
