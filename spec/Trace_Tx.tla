------------------------------ MODULE Trace_Tx ------------------------------
(* Stage C for C05 / C04 / (block users): recorded calls of the real code are  *)
(* judged by the specification.  Byte strings are int arrays; a transaction is  *)
(* the Tx.tla record.  CompactSize values are little-endian byte arrays.        *)
(*   csenc   [neg, a (magnitude LE), ok, r]          compact_size_uint          *)
(*   csdec   [a, ok, v (LE stripped), rest]          parse_compact_size_uint    *)
(*   txser   [t, ok, r]                              tx()/txin()/txout()/script(witness=True) *)
(*   txdeser [a, ok, t, rest, reser_ok, reser]       tx_deser + re-serialisation *)
(*   txids   [a, ok, txid, wtxid, raw, hasrest, rest]  tx_deser ids (alone / with *)
(*                                                   trailing data / inside block_deser) *)
(*   vector  [a, nin, nout, segwit, version, locktime, seqs, witlens, txid]      *)
(*           published transaction: judged WITHOUT any implementation value      *)
(* Inputs on which the specification's parser fails are outside the properties'  *)
(* quantifiers: verdict "ok" whatever the code did.                              *)
EXTENDS Tx, Json, IOUtils, TLC
Trace == JsonDeserialize(IOEnv.TRACE_FILE)
VARIABLE l

VCsEnc(e) ==
    LET s == CsEncInt(e.neg, e.a) IN
    IF s.ok /\ ~e.ok THEN "csenc-rejects-valid"
    ELSE IF ~s.ok /\ e.ok THEN "csenc-accepts-out-of-range"
    ELSE IF s.ok /\ e.r # s.v THEN "csenc-wrong" ELSE "ok"

VCsDec(e) ==
    LET s == CsDec(e.a) IN
    IF ~s.ok THEN "ok"
    ELSE IF ~e.ok THEN "csdec-rejects-valid"
    ELSE IF CsStrip(e.v) # s.v.v THEN "csdec-wrong-value"
    ELSE IF e.rest # s.v.rest THEN "csdec-wrong-leftover" ELSE "ok"

VTxSer(e) ==
    IF ~WellFormedTx(e.t) THEN "ok"
    ELSE IF ~e.ok THEN "ser-raised"
    ELSE IF e.r # TxSer(e.t) THEN "ser-wrong" ELSE "ok"

VTxDeser(e) ==
    LET d == TxDeser(e.a) IN
    IF ~d.ok THEN "ok"
    ELSE IF ~e.ok THEN "deser-raised"
    ELSE IF e.t # d.v.t THEN "deser-fields"
    ELSE IF e.rest # d.v.rest THEN "deser-leftover"
    ELSE IF ~e.reser_ok THEN "reser-raised"
    ELSE IF e.reser # d.v.consumed THEN "reser-differs" ELSE "ok"

VTxIds(e) ==
    LET d == TxDeser(e.a) IN
    IF ~d.ok THEN "ok"
    ELSE IF ~e.ok THEN "ids-raised"
    ELSE IF e.txid # Txid(d.v.t) THEN "txid-wrong"
    ELSE IF e.wtxid # Wtxid(d.v.t) THEN "wtxid-wrong"
    ELSE IF ~HasWitness(d.v.t) /\ e.txid # e.wtxid THEN "ids-differ-nonwitness"
    ELSE IF e.raw # d.v.consumed THEN "raw-wrong"
    ELSE IF e.hasrest /\ e.rest # d.v.rest THEN "leftover-wrong" ELSE "ok"

VVector(e) ==
    LET d == TxDeser(e.a) IN
    IF ~d.ok THEN "vector-not-parsed"
    ELSE LET t == d.v.t IN
         IF d.v.rest # <<>> \/ d.v.consumed # e.a THEN "vector-not-consumed"
         ELSE IF TxSer(t) # e.a THEN "vector-reser"
         ELSE IF ~WellFormedTx(t) THEN "vector-illformed"
         ELSE IF Len(t.ins) # e.nin \/ Len(t.outs) # e.nout \/ HasWitness(t) # e.segwit THEN "vector-counts"
         ELSE IF t.version # e.version \/ t.locktime # e.locktime THEN "vector-version-locktime"
         ELSE IF [i \in 1..Len(t.ins) |-> t.ins[i].seq] # e.seqs THEN "vector-sequences"
         ELSE IF HasWitness(t) /\ [i \in 1..Len(t.wit) |-> Len(t.wit[i])] # e.witlens THEN "vector-witness"
         ELSE IF e.txid # <<>> /\ (Txid(t) # e.txid \/ Wtxid(t) # e.txid) THEN "vector-txid"
         ELSE IF HasWitness(t) /\ Txid(t) # Hash256(TxSer([t EXCEPT !.wit = <<>>])) THEN "vector-txid-form"
         ELSE "ok"

Verdict(e) ==
    CASE e.op = "csenc"   -> VCsEnc(e)
      [] e.op = "csdec"   -> VCsDec(e)
      [] e.op = "txser"   -> VTxSer(e)
      [] e.op = "txdeser" -> VTxDeser(e)
      [] e.op = "txids"   -> VTxIds(e)
      [] e.op = "vector"  -> VVector(e)
      [] OTHER -> "unknown-op"

Init == l = 1
Next == /\ l <= Len(Trace)
        /\ PrintT(<<"V", Trace[l].id, Verdict(Trace[l])>>)
        /\ l' = l + 1
=============================================================================
