CONSTANTS EmitRows = TRUE Big = FALSE CP = 79 CB = 6 CN = 67 CGx = 5 CGy = 17
INIT Init
NEXT Next
INVARIANT Closure
INVARIANT Commut
INVARIANT Identity
INVARIANT Inverse
INVARIANT MulIsRepAdd
INVARIANT MulOrder
INVARIANT Distrib
INVARIANT MulLoopInv
INVARIANT KeyGenRange
INVARIANT Emit
CHECK_DEADLOCK FALSE
