----------------------------- MODULE MC_Coinbase -----------------------------
(* Stage A (C15), no native overrides (TLC integers; subsidy base scaled by 2^-6):   *)
(*  push   every height of a chunk: HeightPush decodes back (interpreter's view),   *)
(*         is minimal, has the arithmetically shortest length, equals the          *)
(*         code-shaped length formula; padded / non-opcode forms are NOT minimal   *)
(*  sub    subsidy: monotone, constant inside an era, floor-halves exactly at      *)
(*         multiples of the interval, closed form, 0 from 64 halvings               *)
(*  claim  default = subsidy, explicit <= subsidy kept, explicit > subsidy refused *)
(*  tx     the byte layout parses back (local cursor) to exactly the demanded      *)
(*         structure; refused exactly for scripts > 100 bytes / reward > subsidy   *)
EXTENDS Coinbase, FiniteSets
CONSTANTS MaxH, Chunk, MinimalBug
VARIABLE c

Max31 == 2147483647
BoundaryHeights ==
    UNION {{b - 1, b, b + 1} : b \in {1, 16, 17, 127, 128, 255, 256, 32767, 32768, 65535, 65536, 8388607, 8388608,
                                      16777215, 16777216, 1073741824}}
    \cup {Max31 - 1, Max31}
NChunks == (MaxH \div Chunk) + 1
ChunkHeights(i) == {h \in (i * Chunk)..(((i + 1) * Chunk) - 1) : h <= MaxH}
MainBoundaries == UNION {{k * MainInterval, (k * MainInterval) + 1} \cup (IF k > 0 THEN {(k * MainInterval) - 1} ELSE {})
                         : k \in 0..70}

Cases == [k : {"push"}, i : 0..(NChunks - 1)] \cup [k : {"pushb"}, i : {0}]
         \cup [k : {"subreg"}, i : 0..(NChunks - 1)] \cup [k : {"submain"}, i : {0}] \cup [k : {"subb"}, i : {0}]
         \cup [k : {"claim"}, i : {0}] \cup [k : {"tx"}, i : 0..5]
(* TLC enumerates initial states single-threaded: fan the cases out over Groups worker-parallel *)
(* dispatcher states instead (start -> group g -> the cases of group g).                    *)
Groups == 16
Init == c = [k |-> "start", i |-> 0]
Next == \/ c.k = "start" /\ c' \in [k : {"grp"}, i : 0..(Groups - 1)]
        \/ c.k = "grp" /\ c' \in {x \in Cases : (x.i % Groups) = c.i}

(* ---- BIP34 ---- *)
Tails == {<<>>, <<0>>, <<7, 200>>}
RECURSIVE BitLen(_)
BitLen(x) == IF x = 0 THEN 0 ELSE 1 + BitLen(x \div 2)
Push(h) == IF MinimalBug /\ h > 16 /\ (BitLen(h) % 8) = 0       \* self-test deviation: no sign byte
           THEN <<Len(MagLE(h))>> \o MagLE(h) ELSE HeightPush(h)
PushOK(h) ==
    LET p == Push(h) IN
    /\ \A t \in Tails : LET d == DecodeFirst(p \o t) IN
                        d.ok /\ d.v.h = h /\ ~d.v.neg /\ d.v.rest = t /\ d.v.minimal
    /\ Len(p) = PushLen(h)
    /\ h > 16 => (p[1] = Len(p) - 1 /\ p[1] = (BitLen(h) + 8) \div 8 /\ Drop(p, 1) = ScriptNum(h))
    /\ h \in 1..16 => p = <<80 + h>>
    /\ h = 0 => p = <<0>>
NonMinimalSeen(h) ==       \* the minimality predicate discriminates: these decode to h but are not minimal
    /\ h > 16 => LET s == ScriptNum(h)
                     d == DecodeFirst(<<Len(s) + 1>> \o Front(s) \o <<Last(s) + 128 - 128>> \o <<0>>)
                 IN Len(s) < 4 => (d.ok /\ ~d.v.minimal)
    /\ h \in 1..16 => LET d == DecodeFirst(<<1, h>>) IN d.ok /\ d.v.h = h /\ ~d.v.minimal
    /\ h = 0 => LET d == DecodeFirst(<<1, 0>>) IN d.ok /\ d.v.h = 0 /\ ~d.v.minimal
PushHeights == IF c.k = "push" THEN ChunkHeights(c.i) ELSE IF c.k = "pushb" THEN BoundaryHeights ELSE {}
HeightPushCorrect == \A h \in PushHeights : PushOK(h)
MinimalityDiscriminates == \A h \in PushHeights : NonMinimalSeen(h)

(* ---- subsidy (scaled base, TLC integers) ---- *)
S(h, I) == BigToNat(Subsidy(h, I, FiftyBtcScaled))
SubOK(h, I) ==
    LET k == h \div I IN
    /\ h < Max31 => S(h + 1, I) <= S(h, I)
    /\ S(h, I) = S(h - (h % I), I)
    /\ ((h % I) = 0 /\ h > 0 /\ k < 64) => S(h, I) = S(h - 1, I) \div 2
    /\ k < 31 => S(h, I) = BigToNat(FiftyBtcScaled) \div Pow2(k)
    /\ k >= 27 => S(h, I) = 0
    /\ k >= 64 => Subsidy(h, I, FiftyBtcScaled) = <<>>
    /\ k = 0 => Subsidy(h, I, FiftyBtcScaled) = FiftyBtcScaled
SubsidyCorrect ==
    /\ c.k = "subreg"  => \A h \in ChunkHeights(c.i) : SubOK(h, RegtestInterval)
    /\ c.k = "submain" => \A h \in MainBoundaries \cup {Max31} : SubOK(h, MainInterval)
    /\ c.k = "subb"    => \A h \in BoundaryHeights \cup {64 * 150 - 1, 64 * 150, 64 * 150 + 1} :
                             SubOK(h, RegtestInterval) /\ SubOK(h, MainInterval)
(* the two schedules differ exactly as stated *)
SchedulesDiffer == c.k = "subb" => /\ S(149, RegtestInterval) = 2 * S(150, RegtestInterval)
                                   /\ S(150, MainInterval) = S(0, MainInterval)
                                   /\ S(209999, MainInterval) = 2 * S(210000, MainInterval)
                                   /\ S(9600, MainInterval) = S(0, MainInterval)

(* ---- claim ---- *)
ClaimCorrect == c.k = "claim" =>
    \A h \in {0, 1, 149, 150, 299, 300, 9599, 9600} :
      LET s == Subsidy(h, RegtestInterval, FiftyBtcScaled)
          n == BigToNat(s) IN
      /\ Claim(TRUE, h, RegtestInterval, FiftyBtcScaled, FALSE, <<>>) = Ok(s)
      /\ Claim(TRUE, h, RegtestInterval, FiftyBtcScaled, TRUE, s) = Ok(s)
      /\ ~Claim(TRUE, h, RegtestInterval, FiftyBtcScaled, TRUE, NatToBig(n + 1)).ok
      /\ n > 0 => Claim(TRUE, h, RegtestInterval, FiftyBtcScaled, TRUE, NatToBig(n - 1)) = Ok(NatToBig(n - 1))
      /\ Claim(FALSE, h, RegtestInterval, FiftyBtcScaled, TRUE, NatToBig(n + 1)) = Ok(NatToBig(n + 1))

(* ---- layout ---- *)
V4 == <<1, 0, 0, 0>>
Q4 == <<255, 255, 255, 254>>
L4 == <<0, 0, 0, 9>>
Extras == {<<>>, <<9>>, Rep(7, 95), Rep(7, 96), Rep(7, 97), Rep(7, 98), Rep(7, 99), Rep(7, 100), Rep(7, 101)}
Spks == {<<>>, <<81>>, Rep(3, 253)}
TxHeights == <<0, 16, 17, 128, 32768, 70000>>
Root == [i \in 1..32 |-> i]
TxOK(hasH, h, extra, spk, hasR, rdelta, hasC) ==
    LET s      == Subsidy(h, RegtestInterval, FiftyBtcScaled)
        reward == NatToBig((BigToNat(s) + rdelta) - 1)            \* rdelta in 0..2: below / equal / above
        r      == CoinbaseTxB(FiftyBtcScaled, V4, Q4, L4, hasH, h, extra, spk, RegtestInterval, hasR, reward, hasC, Root)
        script == CoinbaseScript(hasH, h, extra)
        bad    == Len(script) > 100 \/ (hasH /\ hasR /\ rdelta = 2) \/ (~hasH /\ ~hasR)
    IN /\ r.ok = ~bad
       /\ r.ok => LET p == LRdTx(r.v, 1) IN
                  /\ p.ok /\ p.v.end = Len(r.v) + 1 /\ LSer(LFields(p.v)) = r.v
                  /\ Len(p.v.ins) = 1 /\ p.v.ins[1].prev = NullOutpoint /\ p.v.ins[1].script = script
                  /\ Len(script) <= 100
                  /\ hasH => (LET d == DecodeFirst(script) IN d.ok /\ d.v.h = h /\ d.v.minimal /\ d.v.rest = extra)
                  /\ p.v.outs[1].spk = spk
                  /\ p.v.outs[1].value = BigToLE(IF hasR THEN reward ELSE s, 8)
                  /\ p.v.segwit = hasC
                  /\ Len(p.v.outs) = (IF hasC THEN 2 ELSE 1)
                  /\ hasC => /\ p.v.outs[2] = [value |-> Rep(0, 8), spk |-> <<106, 36, 170, 33, 169, 237>> \o Root]
                             /\ p.v.wits = << <<Rep(0, 32)>> >>
                  /\ p.v.version = V4 /\ p.v.ins[1].seq = Q4 /\ p.v.locktime = L4
LayoutCorrect == c.k = "tx" =>
    \A extra \in Extras, spk \in Spks, hasH \in BOOLEAN, hasR \in BOOLEAN, rdelta \in 0..2, hasC \in BOOLEAN :
        (BigToNat(Subsidy(TxHeights[c.i + 1], RegtestInterval, FiftyBtcScaled)) + rdelta >= 1)
        => TxOK(hasH, TxHeights[c.i + 1], extra, spk, hasR, rdelta, hasC)
=============================================================================
