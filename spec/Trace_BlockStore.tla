-------------------------- MODULE Trace_BlockStore --------------------------
(***************************************************************************)
(* Stage C (and the crash part of stage B) for C19.  One JSON record per   *)
(* history driven through the real write_blocks_to_disk:                   *)
(*   [id, init : directory as sequences of block sizes per file,           *)
(*    dir0 : projection of the directory before the first call,            *)
(*    steps : Seq([op |-> "batch", sizes, ok, dir]                          *)
(*              | [op |-> "crash", sizes, dirs : one projection per        *)
(*                                  operation boundary the child died at]) *)
(* A projection is [nums, files : per file the runs <<block, lo, hi>>,     *)
(* stray].  The history is replayed through the BlockStore actions (the    *)
(* internal steps of a call are not logged: TLC takes them); each observed *)
(* directory is judged by the property's clauses and compared with the     *)
(* spec's.  A crash observation must be CrashOutcome(k) of one of the      *)
(* states the call passes through.  One verdict per history.               *)
(***************************************************************************)
EXTENDS BlockStore, Json, IOUtils
Hists == JsonDeserialize(IOEnv.TRACE_FILE)

VARIABLES t,        \* history being validated
          l,        \* step of the history (0 = not started)
          verdict,  \* "" or the first failing clause
          found,    \* crash step: indices of observed directories already explained
          prev      \* the previously observed directory (append-only across observations)
tvars == <<vars, t, l, verdict, found, prev>>

X  == Hists[t]
Ev == X.steps[l]

RECURSIVE ExpandRuns(_, _)
ExpandRuns(runs, i) == IF i > Len(runs) THEN <<>>
                       ELSE [o \in 1..(runs[i][3] - runs[i][2] + 1) |-> <<runs[i][1], runs[i][2] + o - 1>>]
                            \o ExpandRuns(runs, i + 1)
Idx(o, n)  == CHOOSE i \in 1..Len(o.nums) : o.nums[i] = n
ObsDir(o)  == [n \in {o.nums[i] : i \in 1..Len(o.nums)} |-> ExpandRuns(o.files[Idx(o, n)], 1)]
SizesOf(d) == [f \in 1..Len(d) |-> [i \in 1..Len(d[f]) |-> d[f][i]]]
NoGarbage(d) == \A f \in DOMAIN d : \A i \in 1..Len(d[f]) : d[f][i][1] \in 1..requested

Start == /\ t <= Len(Hists) /\ l = 0
         /\ disk' = DiskOf(SizesOf(X.init))
         /\ sizeOf' = Flat(SizesOf(X.init))
         /\ requested' = Len(Flat(SizesOf(X.init))) /\ committed' = requested' /\ written' = requested'
         /\ cur' = 0 /\ open' = FALSE /\ buf' = <<>> /\ batch' = <<>> /\ nbatch' = 0 /\ pc' = "idle"
         /\ prev' = disk'
         /\ found' = {}
         /\ IF ObsDir(X.dir0) = disk' /\ X.dir0.stray = 0
            THEN l' = 1 /\ verdict' = ""
            ELSE l' = Len(X.steps) + 1 /\ verdict' = "machinery-initial-directory-differs"
         /\ t' = t

TBegin == /\ l > 0 /\ l <= Len(X.steps) /\ pc = "idle" /\ nbatch = l - 1
          /\ Begin([i \in 1..Len(Ev.sizes) |-> Ev.sizes[i]])
          /\ found' = {}
          /\ UNCHANGED <<t, l, verdict, prev>>

(* does the i-th directory observed after a crash equal what a crash in the current state may leave? *)
RECURSIVE RunsLen(_, _)
RunsLen(runs, i) == IF i > Len(runs) THEN 0 ELSE (runs[i][3] - runs[i][2] + 1) + RunsLen(runs, i + 1)
(* cheap necessary condition on lengths, so that big directories are expanded only for plausible states *)
LenPlausible(o) == /\ {o.nums[i] : i \in 1..Len(o.nums)} = DOMAIN disk
                   /\ \A i \in 1..Len(o.nums) :
                        LET n == RunsLen(o.files[i], 1) IN
                        IF open /\ o.nums[i] = cur THEN n >= Len(disk[cur]) /\ n <= Len(disk[cur]) + Len(buf)
                        ELSE n = Len(disk[o.nums[i]])
Matches(o) == LenPlausible(o) /\
              LET d == ObsDir(o) IN
              /\ o.stray = 0
              /\ DOMAIN d = DOMAIN disk
              /\ IF open THEN LET k == Len(d[cur]) - Len(disk[cur])
                              IN Len(d[cur]) >= Len(disk[cur]) /\ k <= Len(buf) /\ d = CrashOutcome(k)
                         ELSE d = disk

TInternal == /\ l > 0 /\ l <= Len(X.steps) /\ pc \in {"open", "loop", "roll"}
             /\ found' = IF Ev.op = "crash" THEN found \cup {i \in 1..Len(Ev.dirs) : Matches(Ev.dirs[i])} ELSE found
             /\ Step
             /\ UNCHANGED <<t, l, verdict, prev>>

(* An empty highest-numbered file and its absence are the same store: the property speaks about the records read back, *)
(* and "a new file is started when the next record would not fit" says nothing about WHEN the (still empty) file appears *)
(* on disk (an empty batch on an empty directory may or may not leave an empty blk00000.dat behind).                     *)
NormDir(d) == IF DOMAIN d = {} THEN d
              ELSE LET m == CHOOSE x \in DOMAIN d : \A n \in DOMAIN d : n <= x
                   IN IF d[m] = <<>> THEN [n \in DOMAIN d \ {m} |-> d[n]] ELSE d

BatchVerdict(o) ==
    LET d == ObsDir(o) IN
    IF o.stray > 0 \/ ~ConsecutiveOf(d) THEN "numbering"
    ELSE IF ~AppendOnlyStep(prev, d) THEN "append-only"
    ELSE IF ~BoundedOf(d) THEN "bounded"
    ELSE IF ~NoGarbage(d) THEN "record-stream"
    ELSE IF ~RecordStreamOf(d, requested) THEN "record-stream"
    ELSE IF ~WholeOf(d) THEN "record-stream"
    ELSE IF ~Ev.ok THEN "write-raised"
    ELSE IF NormDir(d) # NormDir(disk) THEN "file-boundary-differs"      \* all records there, but a new file was started although the record fitted
    ELSE "ok"

CrashVerdictOne(o) ==
    LET d == ObsDir(o) IN
    IF o.stray > 0 \/ ~ConsecutiveOf(d) THEN "numbering"
    ELSE IF ~AppendOnlyStep(prev, d) THEN "crash-earlier-bytes-modified"
    ELSE IF ~EarlierIntactOf(d, requested - Len(Ev.sizes)) THEN "crash-earlier-blocks-lost"   \* blocks of the calls that had returned
    ELSE IF ~CrashPrefixOf(d, requested) THEN "crash-not-prefix"
    ELSE IF ~BoundedOf(d) THEN "bounded"
    ELSE "ok-layout-differs"
CrashVerdict == LET bad == {i \in 1..Len(Ev.dirs) : i \notin found}
                IN IF bad = {} THEN "ok" ELSE CrashVerdictOne(Ev.dirs[Min(bad)])

TObserve == /\ l > 0 /\ l <= Len(X.steps) /\ pc = "idle" /\ nbatch = l
            /\ LET v == IF Ev.op = "crash" THEN CrashVerdict ELSE BatchVerdict(Ev.dir)
               IN IF v = "ok" /\ Ev.op = "batch"
                  THEN l' = l + 1 /\ verdict' = "" /\ prev' = ObsDir(Ev.dir)
                  ELSE l' = Len(X.steps) + 1 /\ verdict' = v /\ prev' = prev   \* a crash ends the history; so does a failure
            /\ found' = {}
            /\ UNCHANGED <<vars, t>>

Finish == /\ l = Len(X.steps) + 1
          /\ PrintT(<<"V", X.id, IF verdict = "" THEN "ok" ELSE verdict>>)
          /\ t' = t + 1 /\ l' = 0 /\ verdict' = "" /\ found' = {} /\ prev' = <<>>
          /\ UNCHANGED vars

TInit == /\ t = 1 /\ l = 0 /\ verdict = "" /\ found = {} /\ prev = <<>>
         /\ disk = <<>> /\ cur = 0 /\ open = FALSE /\ buf = <<>> /\ sizeOf = <<>> /\ requested = 0
         /\ committed = 0 /\ written = 0 /\ batch = <<>> /\ nbatch = 0 /\ pc = "idle"
TNext == /\ t <= Len(Hists)
         /\ (Start \/ TBegin \/ TInternal \/ TObserve \/ Finish)
=============================================================================
