CONSTANTS InB = 9  OutB = 5  MaxIn = 4  MaxOut = 5
INIT Init
NEXT Next
INVARIANT RoundTripIn
INVARIANT RoundTripOut
INVARIANT DigitsInRange
INVARIANT AcceptExactlyImage
CHECK_DEADLOCK FALSE
