CONSTANTS Big = FALSE CP = 79 CB = 7 CN = 67 CGx = 1 CGy = 18
WifKeys = {0,1,66,67,68}
WifSuffixLens = {0,1}
LongSuffixLen = 64
LongEvery = 1
B64Bytes = {0,255}
B64Chars = {65,61}
B64MaxChars = 4
WrapLens = {47,48,49}
EmitRows = TRUE
Dev = "none"
INIT Init
NEXT Next
INVARIANT Sec1AcceptExact
INVARIANT Sec1RoundTrip
INVARIANT WifExact
INVARIANT WifAcceptIsImage
INVARIANT PemPrivExact
INVARIANT PemPubExact
INVARIANT B64RoundTrip
INVARIANT B64AcceptExact
INVARIANT WrapExact
INVARIANT Emit
CHECK_DEADLOCK FALSE
