----------------------------- MODULE Gen_Merkle -----------------------------
(* Stage B (C15): for every N in 1..MaxN TLC emits the SHAPE of the merkle tree  *)
(* over leaves <<1>>..<<N>> as a free term (leaf = [i], node = [left, right]).   *)
(* The harness evaluates the term with real HASH256 on N distinct txids and      *)
(* compares with bits.blockchain.merkle_root: the expected value is the spec's   *)
(* tree, not a second implementation.                                            *)
EXTENDS Naturals, Sequences, Json, IOUtils, TLC
CONSTANTS MaxN
FreeH(a, b) == <<a, b>>
M == INSTANCE Merkle WITH H <- FreeH, row <- <<>>, lvl <- 0
Leaves(k) == [i \in 1..k |-> <<i>>]
Rows == [k \in 1..MaxN |-> [n |-> k, depth |-> M!Height(k), shape |-> M!Reduce(Leaves(k))]]
ASSUME JsonSerialize(IOEnv.OUT_FILE, Rows)
ASSUME PrintT(<<"ROWS", Len(Rows)>>)
=============================================================================
