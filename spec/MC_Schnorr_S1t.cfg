CONSTANTS Big = FALSE CP = 43 CB = 7 CN = 31 CGx = 2 CGy = 12
SignMsgs = {0,1,2,3}
SignAuxs = {0,1,2}
VerMsgs = {0,2}
CountPks = {2,3,7,12}
LenDs = {1,2,3,4,5,6,7,29,30}
EmitRows = TRUE
Dev = "none"
INIT Init
NEXT Next
INVARIANT SignDomain
INVARIANT SignSound
INVARIANT VerifyExact
INVARIANT WhyConsistent
INVARIANT LiftExact
INVARIANT OneSPerR
INVARIANT LenStrict
INVARIANT Emit
CHECK_DEADLOCK FALSE
