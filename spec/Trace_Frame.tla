----------------------------- MODULE Trace_Frame -----------------------------
(***************************************************************************)
(* Stage C for C17 (framing).  One JSON record per execution of the real   *)
(* bits.p2p.recv_msg over a scripted socket:                               *)
(*   [id, magic, stream : all bytes the peer sends before closing,         *)
(*    calls : Seq([recvs : Seq(<<requested, returned>>),                    *)
(*                 out : [k : "msg" | "err" | "diverged", magic, cmd, payload]]), *)
(*    rt : per call [on, cmd, payload] - what was given to msg_ser when the *)
(*         message is intact (round-trip clause)]                          *)
(* Every recv() event must be the Frame action Recv(returned) / RecvEOF    *)
(* with requested <= need - got; the decisions (HeaderDone, PayloadDone,   *)
(* Verify) are not logged, TLC takes them; the outcome of every call is    *)
(* compared with the machine's (real double-SHA256 through the overrides). *)
(***************************************************************************)
EXTENDS Frame, Json, IOUtils, TLC
Hists == JsonDeserialize(IOEnv.TRACE_FILE)
TraceMagic == Hists[1].magic           \* cfg: Magic <- TraceMagic (the node's configured network magic)

VARIABLES t, ci, l, verdict
tvars == <<vars, t, ci, l, verdict>>

X == Hists[t]
C == X.calls[ci]
R == C.recvs
Running == ci >= 1 /\ verdict = ""

TStart == /\ t <= Len(Hists) /\ ci = 0 /\ verdict = ""
          /\ stream' = X.stream /\ cursor' = 0 /\ base' = 0 /\ calls' = 1
          /\ phase' = "hdr" /\ got' = 0 /\ need' = H /\ out' = NoOut
          /\ ci' = 1 /\ l' = 1 /\ verdict' = (IF X.magic = Magic THEN "" ELSE "machinery-magic-differs") /\ t' = t

Stop(clause) == verdict' = clause /\ UNCHANGED <<vars, t, ci, l>>

TRecv == /\ Running /\ phase \in {"hdr", "pay"} /\ got < need /\ l <= Len(R)
         /\ LET req == R[l][1]
                ret == R[l][2]
            IN  IF need < Sat /\ req > need - got THEN Stop("over-read")
                ELSE IF req < 1 THEN Stop("bad-request")
                ELSE IF ret = 0
                     THEN IF Avail = 0 THEN RecvEOF /\ l' = l + 1 /\ UNCHANGED <<t, ci, verdict>>
                                       ELSE Stop("machinery-empty-read-before-eof")
                ELSE IF ret > req \/ ret > Avail THEN Stop("machinery-socket-returned-too-much")
                ELSE Recv(ret) /\ l' = l + 1 /\ UNCHANGED <<t, ci, verdict>>

TDecide == /\ Running /\ Decide /\ UNCHANGED <<t, ci, l, verdict>>

(* the code stopped reading before the message was complete *)
TShort == /\ Running /\ phase \in {"hdr", "pay"} /\ got < need /\ l > Len(R)
          /\ IF C.out.k = "msg" THEN Stop("returns-before-complete")
             ELSE IF C.out.k = "diverged" THEN Stop("no-termination")
             ELSE \* an early rejection is fine if the message is indeed to be rejected: let the machine run on
                  /\ (IF Avail = 0 THEN RecvEOF ELSE Recv(Min(need - got, Avail)))
                  /\ UNCHANGED <<t, ci, l, verdict>>

SameMsg(o) == /\ [i \in 1..Len(o.magic) |-> o.magic[i]] = out.magic
              /\ [i \in 1..Len(o.cmd) |-> o.cmd[i]] = out.cmd
              /\ [i \in 1..Len(o.payload) |-> o.payload[i]] = out.payload
RoundTrip  == LET r == X.rt[ci] IN
              ~r.on \/ (out.k = "msg" /\ out.magic = Magic /\ out.cmd = [i \in 1..Len(r.cmd) |-> r.cmd[i]]
                        /\ out.payload = [i \in 1..Len(r.payload) |-> r.payload[i]])

OutcomeVerdict ==
    IF phase = "ret"
    THEN IF l <= Len(R) /\ R[l][2] > 0 THEN "over-read"
         ELSE IF C.out.k = "msg" THEN (IF ~SameMsg(C.out) THEN "wrong-message"
                                       ELSE IF ~RoundTrip THEN "roundtrip-differs" ELSE "")
         ELSE IF C.out.k = "diverged" THEN "no-termination"
         ELSE "rejects-valid"
    ELSE IF C.out.k = "err" THEN (IF ~RoundTrip THEN "roundtrip-differs" ELSE "")
         ELSE IF C.out.k = "diverged" THEN (IF out.k = "eof" THEN "no-termination-on-eof" ELSE "no-termination")
         ELSE (IF out.k = "eof" THEN "accepts-truncated" ELSE "accepts-corrupt")

TOutcome == /\ Running /\ phase \in {"ret", "err"}
            /\ LET v == OutcomeVerdict IN
               IF v # "" THEN Stop(v)
               ELSE IF phase = "ret" /\ ci < Len(X.calls)
                    THEN IF Avail > 0 THEN Call /\ ci' = ci + 1 /\ l' = 1 /\ UNCHANGED <<t, verdict>>
                                      ELSE Stop("machinery-call-on-exhausted-stream")
                    ELSE IF phase = "ret" /\ Avail > 0 THEN Stop("machinery-stream-not-consumed")
                    ELSE Stop("ok")

TFinish == /\ ci >= 1 /\ verdict # ""
           /\ PrintT(<<"V", X.id, verdict>>)
           /\ t' = t + 1 /\ ci' = 0 /\ l' = 0 /\ verdict' = ""
           /\ UNCHANGED vars

TInit == /\ t = 1 /\ ci = 0 /\ l = 0 /\ verdict = ""
         /\ stream = <<>> /\ cursor = 0 /\ base = 0 /\ calls = 0 /\ phase = "ret" /\ got = 0 /\ need = 0 /\ out = NoOut
TNext == /\ t <= Len(Hists)
         /\ (TStart \/ TRecv \/ TDecide \/ TShort \/ TOutcome \/ TFinish)
=============================================================================
