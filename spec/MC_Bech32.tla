------------------------------ MODULE MC_Bech32 ------------------------------
(***************************************************************************)
(* Stage A for C06 at the REAL parameters (the BCH code does not scale     *)
(* down).  Case kinds, generated as successors of (net, version) group     *)
(* states so that all TLC workers evaluate them:                           *)
(*   rt   network x version x allowed length x content: encode/decode      *)
(*        round trip, <= 90 characters, upper-case form, checksum-constant *)
(*        swap, non-zero padding, one more data symbol                     *)
(*   inv  a correctly checksummed string whose (version, length) BIP141 /  *)
(*        BIP350 do not allow is rejected                                  *)
(*   sub  every single-symbol substitution in the data part of one short   *)
(*        address per checksum kind is rejected                            *)
(* Through Emit the same run is the generator of the stage-B table.        *)
(* Deviation # "none" enables a named fault in the operators under test;   *)
(* the harness requires TLC to find the counterexample (vacuity guard).    *)
(***************************************************************************)
EXTENDS Bech32, TLC
CONSTANTS Vers,        \* witness versions of the rt cases
          Lens,        \* program lengths of the rt cases for versions 1..16 (v0 always 20, 32)
          InvVers, InvLens,
          SubKinds,    \* subset of {0, 1}: which base address gets the substitution sweep
          EmitRows, Deviation
VARIABLE c

Contents == {"zero", "ones", "first", "last"}
Prog(n, ct) == CASE ct = "zero"  -> Rep(0, n)
                 [] ct = "ones"  -> Rep(255, n)
                 [] ct = "first" -> <<128>> \o Rep(0, n - 1)
                 [] ct = "last"  -> Rep(0, n - 1) \o <<1>>
                 [] ct = "mix"   -> [i \in 1..n |-> ((i * 37) + 11) % 256]

(* operators under test (with the optional seeded fault) *)
PadBits(n) == (5 - ((8 * n) % 5)) % 5                        \* zero bits appended by the 8-to-5 regrouping
AllZero(s) == \A i \in 1..Len(s) : s[i] = 0
Dec(str) == LET d == SegwitDecode(str) IN
            IF Deviation = "zeroprog" /\ d.ok /\ AllZero(d.v.prog) /\ PadBits(Len(d.v.prog)) >= 2
            THEN Fail                              \* F12-like: all-zero program with >= 2 pad bits refused
            ELSE IF Deviation = "nochecksum" /\ ~d.ok /\ Len(str) = 14 THEN Ok([hrp |-> <<>>, ver |-> 0, prog |-> <<>>])
            ELSE d
Enc(net, ver, prog) == IF Deviation = "short" /\ Len(prog) < 6 THEN Fail   \* F11-like
                       ELSE SegwitEncode(net, ver, prog)
IsAddr(str) == Dec(str).ok

LensOf(ver) == IF ver = 0 THEN {20, 32} ELSE Lens
RtCases(net, ver)  == [k : {"rt"}, net : {net}, ver : {ver}, n : LensOf(ver), ct : Contents]
InvCases(net, ver) == {x \in [k : {"inv"}, net : {net}, ver : {ver} \cap InvVers, n : InvLens, ct : {"mix"}] :
                          ~ValidProgram(x.ver, x.n)}
Base(kind) == IF kind = 0 THEN SegwitEncode("mainnet", 0, Prog(20, "mix")).v
              ELSE SegwitEncode("mainnet", 1, <<117, 30>>).v
DataStart == 4                                               \* "bc1" | data part
SubCases(kind) == LET b == Base(kind) IN
                  {x \in [k : {"sub"}, kind : {kind}, pos : DataStart..Len(b), sym : 0..31] : CharOf(x.sym) # b[x.pos]}

Init == c \in [k : {"group"}, net : Nets, ver : 0..31]
Next == /\ c.k = "group"
        /\ c' \in (IF c.ver \in Vers THEN RtCases(c.net, c.ver) ELSE {})
                  \cup InvCases(c.net, c.ver)
                  \cup (IF c.net = "mainnet"               \* spread over the 32 mainnet groups (parallel workers)
                        THEN UNION {{x \in SubCases(kind) : x.pos % 32 = c.ver} : kind \in SubKinds} ELSE {})

(* ---- rt ---- *)
P      == Prog(c.n, c.ct)
Addr   == Enc(c.net, c.ver, P)
Syms   == <<c.ver>> \o ConvertBits8to5(P)
Want   == Ok([hrp |-> HrpOf(c.net), ver |-> c.ver, prog |-> P])
Upper(str) == [i \in 1..Len(str) |-> IF IsLower(str[i]) THEN str[i] - 32 ELSE str[i]]
Other(const) == IF const = Bech32Const THEN Bech32mConst ELSE Bech32Const

RoundTrip == c.k = "rt" =>
    LET a == Addr IN
    /\ a.ok /\ Len(a.v) <= 90
    /\ Dec(a.v) = Want /\ IsAddr(a.v)
    /\ \A i \in 1..Len(a.v) : a.v[i] \in 33..126 /\ ~IsUpper(a.v[i])
UpperAccepted == c.k = "rt" => LET a == Addr.v IN Dec(Upper(a)) = Want
MixedRejected == c.k = "rt" => LET a == Addr.v IN ~IsAddr(<<a[1] - 32>> \o Tail(a))
SwapRejected  == c.k = "rt" => ~IsAddr(BechEncode(HrpOf(c.net), Syms, Other(ConstOfVersion(c.ver))))
(* a set padding bit (re-checksummed) is refused *)
PadRejected == c.k = "rt" /\ PadBits(c.n) > 0 =>
    ~IsAddr(BechEncode(HrpOf(c.net), [Syms EXCEPT ![Len(Syms)] = (2 * (@ \div 2)) + 1], ConstOfVersion(c.ver)))
(* whatever the decoder accepts is the encoder's output for the decoded triple (accept set = image) *)
Canonical(str) == LET d == Dec(str) IN
    d.ok => \E net \in Nets : HrpOf(net) = d.v.hrp /\ SegwitEncode(net, d.v.ver, d.v.prog) = Ok(LowerStr(str))
ExtraSymbolCanonical == c.k = "rt" =>
    LET s == BechEncode(HrpOf(c.net), Syms \o <<0>>, ConstOfVersion(c.ver)) IN
    /\ Canonical(s)
    /\ IsAddr(s) = ~(PadBits(c.n) + 5 < 8 \/ c.n = 40 \/ c.ver = 0)   \* 8 fresh zero bits = one more zero byte

(* ---- inv ---- *)
InvalidRejected == c.k = "inv" =>
    LET s == BechEncode(HrpOf(c.net), <<c.ver>> \o ConvertBits8to5(Prog(c.n, "mix")), ConstOfVersion(c.ver))
    IN ~IsAddr(s) /\ ~Enc(c.net, c.ver, Prog(c.n, "mix")).ok

(* ---- sub ---- *)
SubRejected == c.k = "sub" => LET b == Base(c.kind) IN ~IsAddr([b EXCEPT ![c.pos] = CharOf(c.sym)])

Row  == <<"R", c.net, c.ver, P, Addr.v>>
Emit == (EmitRows /\ c.k = "rt") => PrintT(Row)
=============================================================================
