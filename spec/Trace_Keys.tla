------------------------------ MODULE Trace_Keys ------------------------------
(***************************************************************************)
(* Stage C for C14: calls recorded from bits.point / is_point /            *)
(* compressed_pubkey / pubkey / keys.pub, bits.wif_encode / wif_decode,    *)
(* bits.pem_encode_key / utils.pem_decode_key, bits.pem.encode_pem /       *)
(* decode_pem are judged by Ecdsa.tla (SEC1), Wif.tla and Pem.tla at       *)
(* secp256k1 size (cfg Big = TRUE) or on a small curve (Big = FALSE).      *)
(* Byte strings and texts arrive as arrays of 0..255; points as pairs of   *)
(* numbers in the representation of the mode.  "openssl" / "back" are      *)
(* oracle columns logged by the harness that the spec requires to be TRUE. *)
(***************************************************************************)
EXTENDS Pem, Wif, Secp256k1, Json, IOUtils, TLC
Trace == JsonDeserialize(IOEnv.TRACE_FILE)
VARIABLE l

Pt(j) == IF Len(j) = 0 THEN Inf ELSE <<j[1], j[2]>>
LabelOf(s) == IF s = "priv" THEN LabelPriv ELSE LabelPub

WifDecVerdict(e) ==
    LET want == WifDec(e.s) IN
    IF want.ok THEN
        IF ~e.ok \/ ~e.ok2 THEN "wifdec-rejects-valid"
        ELSE IF e.key # want.v.key \/ e.key2 # want.v.key THEN "wifdec-wrong-key"
        ELSE IF e.type # want.v.type THEN "wifdec-wrong-type"
        ELSE IF e.net \notin WifNetworks \/ NetClass(e.net) # want.v.net THEN "wifdec-wrong-network-class"
        ELSE IF e.suffix # want.v.suffix \/ e.data2 # want.v.suffix THEN "wifdec-wrong-suffix"
        ELSE IF e.version # <<want.v.version>> THEN "wifdec-wrong-version" ELSE "ok"
    ELSE IF WifMustReject(e.s) /\ (e.ok \/ e.ok2) THEN "wifdec-accepts-invalid"
    ELSE "ok"                 \* checksum-valid, known version, but short payload / key out of range: not constrained by the property

Verdict(e) ==
    CASE e.op = "sec1dec" ->
           LET d == Sec1Dec(e.b) IN
           IF e.ok # d.ok THEN (IF d.ok THEN "sec1dec-rejects-valid" ELSE "sec1dec-accepts-invalid")
           ELSE IF d.ok /\ Pt(e.res) # d.v THEN "sec1dec-wrong" ELSE "ok"
      [] e.op = "ispoint" ->
           IF ~e.ok THEN "ispoint-raised"
           ELSE IF e.res # Sec1Dec(e.b).ok THEN "ispoint-wrong" ELSE "ok"
      [] e.op = "compress" ->
           LET d == Sec1Dec(e.b) IN
           IF e.ok # d.ok THEN (IF d.ok THEN "compress-rejects-valid" ELSE "compress-accepts-invalid")
           ELSE IF d.ok /\ e.res # Sec1Enc(d.v, TRUE) THEN "compress-wrong" ELSE "ok"
      [] e.op = "sec1enc" ->     \* bits.pubkey(x, y, compressed) on a curve point, and decode-back of the result
           IF ~e.ok THEN "sec1enc-raised"
           ELSE IF e.res # Sec1Enc(Pt(e.p), e.comp) THEN "sec1enc-wrong"
           ELSE IF Sec1Dec(e.res) # Ok(Pt(e.p)) THEN "sec1-does-not-decode-back" ELSE "ok"
      [] e.op = "keypub" ->      \* bits.keys.pub(key, compressed)
           LET d == PrivFromBytes(e.key) IN
           IF e.ok # d.ok THEN (IF d.ok THEN "valid-privkey-refused" ELSE "invalid-privkey-accepted")
           ELSE IF d.ok /\ e.res # Sec1Enc(PubOf(d.v), e.comp) THEN "keypub-wrong" ELSE "ok"
      [] e.op = "wifenc" ->
           LET want == WifEnc(e.net, e.type, e.key, e.suffix) IN
           IF e.ok # want.ok THEN (IF want.ok THEN "wif-encoder-refuses-valid-key" ELSE "invalid-privkey-accepted-by-wif-encoder")
           ELSE IF want.ok /\ e.res # want.v THEN "wif-encoding-wrong" ELSE "ok"
      [] e.op = "wifdec" -> WifDecVerdict(e)
      [] e.op = "pemenc" ->
           IF Len(e.key) \notin {32, 33, 65} THEN (IF e.ok THEN "invalid-privkey-accepted-by-pem-encoder" ELSE "ok")
           ELSE LET want == IF Len(e.key) = 32 THEN PemEncPriv(e.key) ELSE PemEncPub(e.key) IN
                IF ~want.ok THEN (IF Len(e.key) = 32 /\ e.ok THEN "invalid-privkey-accepted-by-pem-encoder" ELSE "ok")
                ELSE IF ~e.ok THEN "pem-encoder-refuses-valid-key"
                ELSE IF e.res # want.v THEN "pem-document-wrong"
                ELSE IF ~e.back THEN "pem-roundtrip-mismatch"
                ELSE IF ~e.openssl THEN "openssl-does-not-read-the-same-key" ELSE "ok"
      [] e.op = "pemdec" ->      \* document from OpenSSL / from the specification's encoder; src* = what the producer encoded
           LET want == PemDec(e.doc) IN
           IF ~want.ok THEN "spec-cannot-read-producer-document"
           ELSE IF want.v.kind # e.srckind \/ want.v.priv # e.srcpriv \/ want.v.pub # e.srcpub THEN "spec-disagrees-with-producer"
           ELSE IF ~e.ok THEN "pemdec-rejects-valid"
           ELSE IF e.kind # want.v.kind \/ e.priv # want.v.priv \/ e.pub # want.v.pub THEN "pemdec-wrong" ELSE "ok"
      [] e.op = "armor" ->       \* bits.pem.encode_pem / decode_pem on an arbitrary DER body
           IF ~e.ok THEN "armor-raised"
           ELSE IF e.res # Armor(LabelOf(e.label), e.der) THEN "armor-wrong"
           ELSE IF ~e.back THEN "armor-roundtrip-mismatch" ELSE "ok"
      [] OTHER -> "unknown-op"

Init == l = 1
Next == /\ l <= Len(Trace)
        /\ PrintT(<<"V", Trace[l].id, Verdict(Trace[l])>>)
        /\ l' = l + 1
=============================================================================
