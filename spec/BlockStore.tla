----------------------------- MODULE BlockStore -----------------------------
(***************************************************************************)
(* C19 - the block file store behind bits.p2p.write_blocks_to_disk.        *)
(*                                                                         *)
(* A directory of numbered files blkNNNNN.dat.  A file is a sequence of    *)
(* bytes; every byte is tagged <<block id, offset in the block's record>>  *)
(* so that "the same bytes, in the same place" is an equality of states.   *)
(* The record of block b is OVERHEAD (magic + length) + sizeOf[b] bytes.   *)
(*                                                                         *)
(* One action per step of the code:                                        *)
(*   Begin(ss)   a call with blocks of sizes ss (a new call is also what a  *)
(*               restarted process does: nothing survives a call except    *)
(*               the directory, Open re-derives everything from it)        *)
(*   Open        append-open the numerically last file, or create file 0   *)
(*   Write       the record fits (file size + buffered + record <= MAX)     *)
(*   RollClose   it does not fit: close the handle (buffer becomes durable) *)
(*   RollOpen    create the consecutively numbered file; the SAME block is *)
(*               then written by Write                                     *)
(*   FlushSome   the buffered writer / OS makes a prefix of the buffer     *)
(*               durable at any time                                       *)
(*   Close       end of the call                                           *)
(*   Crash       the process dies: what is still buffered is lost          *)
(*                                                                         *)
(* Named deviations (Deviation # "none" only in self-test configs):        *)
(*   "raise"  the pinned code: after RollClose the call dies with an       *)
(*            exception (int.zfill), the rest of the batch is never written*)
(*   "drop"   the next file is opened but the block that did not fit is    *)
(*            skipped                                                      *)
(***************************************************************************)
EXTENDS Naturals, Sequences, FiniteSets, SequencesExt, FiniteSetsExt, TLC

CONSTANTS MAX,          \* maximum file size (bytes)
          OVERHEAD,     \* bytes of a record besides the block (4 magic + 4 length)
          Deviation,    \* "none" | "raise" | "drop"
          FlushGrain    \* FlushSome moves k bytes, k a multiple of FlushGrain or the whole buffer; 0 = never

VARIABLES disk,        \* file number -> durable content (sequence of tagged bytes)
          cur,         \* number of the file the handle refers to
          open,        \* BOOLEAN: a handle is open
          buf,         \* bytes written to the handle, not yet durable
          sizeOf,      \* block id -> size of the block (ids are 1..Len(sizeOf) in request order)
          requested,   \* number of blocks whose write has been requested (all calls so far)
          committed,   \* number of blocks requested by calls that have returned
          written,     \* number of blocks whose record has been issued to a handle
          batch,       \* ids of the blocks the running call still has to write
          nbatch,      \* number of calls begun
          pc           \* "idle" | "open" | "loop" | "roll" | "crashed"
vars == <<disk, cur, open, buf, sizeOf, requested, committed, written, batch, nbatch, pc>>

Nums       == DOMAIN disk
RecLen(b)  == sizeOf[b] + OVERHEAD
RecOf(sz, b) == [o \in 1..(sz[b] + OVERHEAD) |-> <<b, o>>]
Rec(b)     == RecOf(sizeOf, b)
RECURSIVE StreamOf(_, _, _)
StreamOf(sz, from, to) == IF from > to THEN <<>> ELSE RecOf(sz, from) \o StreamOf(sz, from + 1, to)
Stream(n)  == StreamOf(sizeOf, 1, n)            \* records of blocks 1..n in order

(* the files read in numeric order *)
RECURSIVE CatOf(_, _)
CatOf(d, S) == IF S = {} THEN <<>> ELSE LET m == Min(S) IN d[m] \o CatOf(d, S \ {m})
Cat == CatOf(disk, Nums)

Fits(b) == RecLen(b) + Len(disk[cur]) + Len(buf) <= MAX

TypeOK == /\ pc \in {"idle", "open", "loop", "roll", "crashed"}
          /\ open \in BOOLEAN
          /\ requested \in Nat /\ committed \in Nat /\ written \in Nat /\ nbatch \in Nat
          /\ committed <= requested /\ written <= requested
          /\ Len(sizeOf) = requested
          /\ (~open => buf = <<>>)

(* a directory as left by earlier calls: dir = sequence (file 0, 1, ...) of sequences of block sizes *)
RECURSIVE Flat(_)
Flat(dir) == IF dir = <<>> THEN <<>> ELSE Head(dir) \o Flat(Tail(dir))
RECURSIVE CountBefore(_, _)
CountBefore(dir, f) == IF f = 0 THEN 0 ELSE Len(dir[f]) + CountBefore(dir, f - 1)
DiskOf(dir) == LET sz == Flat(dir)
               IN [n \in 0..(Len(dir) - 1) |->
                     StreamOf(sz, CountBefore(dir, n) + 1, CountBefore(dir, n + 1))]
InitWith(dir) == /\ disk = DiskOf(dir)
                 /\ sizeOf = Flat(dir)
                 /\ requested = Len(Flat(dir)) /\ committed = Len(Flat(dir)) /\ written = Len(Flat(dir))
                 /\ cur = 0 /\ open = FALSE /\ buf = <<>> /\ batch = <<>> /\ nbatch = 0 /\ pc = "idle"

(* ------------------------------- actions ------------------------------- *)
Begin(ss) == /\ pc = "idle"
             /\ sizeOf' = sizeOf \o ss
             /\ batch' = [i \in 1..Len(ss) |-> requested + i]
             /\ requested' = requested + Len(ss)
             /\ nbatch' = nbatch + 1
             /\ pc' = "open"
             /\ UNCHANGED <<disk, cur, open, buf, committed, written>>

Open == /\ pc = "open"
        /\ IF Nums = {} THEN disk' = (0 :> <<>>) /\ cur' = 0
                        ELSE disk' = disk /\ cur' = Max(Nums)
        /\ open' = TRUE /\ buf' = <<>> /\ pc' = "loop"
        /\ UNCHANGED <<sizeOf, requested, committed, written, batch, nbatch>>

Write == /\ pc = "loop" /\ batch # <<>> /\ Fits(Head(batch))
         /\ buf' = buf \o Rec(Head(batch))
         /\ written' = written + 1
         /\ batch' = Tail(batch)
         /\ UNCHANGED <<disk, cur, open, sizeOf, requested, committed, nbatch, pc>>

RollClose == /\ pc = "loop" /\ batch # <<>> /\ ~Fits(Head(batch))
             /\ disk' = [disk EXCEPT ![cur] = @ \o buf]
             /\ buf' = <<>> /\ open' = FALSE /\ pc' = "roll"
             /\ UNCHANGED <<cur, sizeOf, requested, committed, written, batch, nbatch>>

RollOpen == /\ pc = "roll" /\ Deviation # "raise"
            /\ disk' = disk @@ ((cur + 1) :> <<>>)
            /\ cur' = cur + 1 /\ open' = TRUE /\ buf' = <<>> /\ pc' = "loop"
            /\ batch' = IF Deviation = "drop" THEN Tail(batch) ELSE batch
            /\ UNCHANGED <<sizeOf, requested, committed, written, nbatch>>

(* deviation "raise": the call ends here with an exception *)
RollRaise == /\ pc = "roll" /\ Deviation = "raise"
             /\ batch' = <<>> /\ committed' = requested /\ pc' = "idle"
             /\ UNCHANGED <<disk, cur, open, buf, sizeOf, requested, written, nbatch>>

FlushSome(k) == /\ open /\ k \in 1..Len(buf)
                /\ disk' = [disk EXCEPT ![cur] = @ \o SubSeq(buf, 1, k)]
                /\ buf' = SubSeq(buf, k + 1, Len(buf))
                /\ UNCHANGED <<cur, open, sizeOf, requested, committed, written, batch, nbatch, pc>>
FlushPoints == IF FlushGrain = 0 THEN {}
               ELSE {k \in 1..Len(buf) : k = Len(buf) \/ (k % FlushGrain) = 0}

Close == /\ pc = "loop" /\ batch = <<>>
         /\ disk' = [disk EXCEPT ![cur] = @ \o buf]
         /\ buf' = <<>> /\ open' = FALSE /\ committed' = requested /\ pc' = "idle"
         /\ UNCHANGED <<cur, sizeOf, requested, written, batch, nbatch>>

Crash == /\ pc \in {"open", "loop", "roll"}
         /\ buf' = <<>> /\ open' = FALSE /\ pc' = "crashed"
         /\ UNCHANGED <<disk, cur, sizeOf, requested, committed, written, batch, nbatch>>

(* what a crash in the current state may leave behind: k more buffered bytes had become durable *)
CrashOutcome(k) == IF open THEN [disk EXCEPT ![cur] = @ \o SubSeq(buf, 1, k)] ELSE disk

Step == Open \/ Write \/ RollClose \/ RollOpen \/ RollRaise \/ Close
Internal == Step \/ \E k \in FlushPoints : FlushSome(k)

(* ------------------------------ properties ------------------------------ *)
(* predicates of an arbitrary directory d (also used on OBSERVED directories by the trace validator) *)
RecordStreamOf(d, n) == CatOf(d, DOMAIN d) = Stream(n)
BoundedOf(d)         == \A f \in DOMAIN d : Len(d[f]) <= MAX
ConsecutiveOf(d)     == DOMAIN d = 0..(Cardinality(DOMAIN d) - 1)
(* every file consists of whole records: a record never spans two files *)
WholeOf(d)           == \A f \in DOMAIN d : \A i \in 1..Len(d[f]) :
                           /\ (i = 1 => d[f][i][2] = 1)
                           /\ (i = Len(d[f]) => d[f][i][2] = RecLen(d[f][i][1]))
CrashPrefixOf(d, n)  == IsPrefix(CatOf(d, DOMAIN d), Stream(n))
EarlierIntactOf(d, n) == IsPrefix(Stream(n), CatOf(d, DOMAIN d))
AppendOnlyStep(d, e) == \A f \in DOMAIN d : f \in DOMAIN e /\ IsPrefix(d[f], e[f])

RecordStream  == pc = "idle" => RecordStreamOf(disk, requested)
WholeRecords  == pc = "idle" => WholeOf(disk)
InFlight      == pc \in {"loop", "roll"} => Cat \o buf = Stream(written)
Bounded       == BoundedOf(disk) /\ (open => Len(disk[cur]) + Len(buf) <= MAX)
Consecutive   == ConsecutiveOf(disk)
CrashPrefix   == pc = "crashed" => CrashPrefixOf(disk, requested) /\ EarlierIntactOf(disk, committed)
AppendOnly    == [][AppendOnlyStep(disk, disk')]_vars
(* a new file appears only because the next record did not fit (or the directory was empty) *)
NewFileOnlyWhenNeeded == [][DOMAIN disk' # DOMAIN disk =>
                              \/ DOMAIN disk = {}
                              \/ (pc = "roll" /\ batch # <<>> /\ RecLen(Head(batch)) + Len(disk[cur]) > MAX
                                  /\ DOMAIN disk' = DOMAIN disk \cup {cur + 1})]_vars
=============================================================================
