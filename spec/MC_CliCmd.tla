------------------------------ MODULE MC_CliCmd ------------------------------
(***************************************************************************)
(* Stage A for the CliCmd extension: the option lattice of every           *)
(* subcommand x small symbolic inputs, as a case-style model (cases are    *)
(* successors of "part" states, so all workers evaluate them).  The        *)
(* invariants are the COMPOSITION theorems of the command line:            *)
(*   HashThm      output renders the hash; hash160 = sha256 | ripemd160    *)
(*                and hash256 = sha256 | sha256 as shell pipelines in      *)
(*                every intermediate format                                *)
(*   Base58Pair   base58 [--check] | base58 [--check] --decode = identity  *)
(*   Bech32Pair   bech32 --hrp h | bech32 --decode = (h, data)             *)
(*   SegwitPair   bech32 --hrp bc/tb/bcrt --witness-version v | bech32     *)
(*                --decode = (network, v, program) and = addr --wv v       *)
(*   AddrThm      addr succeeds exactly on valid payloads; its output is   *)
(*                accepted by the address decoder (Addr!ScriptPubKeyOf)    *)
(*                and maps to the standard script for that payload;        *)
(*                --type is ignored under --witness-version; testnet and   *)
(*                regtest share Base58 versions, not the segwit prefix     *)
(*   WifPair      wif | wif --decode = (version, network class, type, key, *)
(*                data); wif succeeds exactly on valid keys                *)
(*   PubkeyThm    pubkey(key) = SEC1(PubOf(key)); compressed and           *)
(*                uncompressed forms decode to the same point; pubkey is   *)
(*                idempotent; PEM output decodes to the same key           *)
(*   KeyThm       key = 1 + draw is always valid and feeds pubkey          *)
(*   MnemonicPair mnemonic --from-entropy | mnemonic --to-entropy =        *)
(*                identity, whitespace irrelevant; generate = from-entropy *)
(*                of the random bytes; --to-master-key | hd m = identity   *)
(*   HdThm        hd m/a/b = hd m/a | hd m/b; hd m --xpub | hd M/a =       *)
(*                hd m/a --xpub; hardened / private below public refused   *)
(*   ScriptPair   script | script --decode = the items (both plain and     *)
(*                --witness); output uses minimal pushes                   *)
(*   TxPair       tx | tx --decode = the fields given (txid reversed to    *)
(*                wire order, sequence ffffffff), txid = wtxid iff no      *)
(*                witness                                                  *)
(*   ChainThm     blockchain 0 -H = first 80 bytes; blockchain 0 |         *)
(*                blockchain --decode = the genesis header and coinbase    *)
(*   SigThm       sig fails on invalid keys / mismatching preimage flag;   *)
(*                (real size only) sig | sig --verify says OK, with        *)
(*                another message it does not                              *)
(* Emit prints one row per case for stage B ("class": outcome class only;  *)
(* "exact": with the expected output, used with the native overrides on    *)
(* secp256k1).  Dev = {"bech32-const1"} (MC_CliCmd_dev.cfg) is the         *)
(* vacuity guard: TLC must report SegwitPair violated.                     *)
(***************************************************************************)
EXTENDS CliCmd, Secp256k1, SequencesExt, TLC
CONSTANTS Parts,      \* the parts to explore
          Emit,       \* "none" | "class" | "exact"
          Size        \* "q" | "t": how many symbolic inputs
VARIABLE c

Num(i) == AD!NLit(i)
B32(v) == AD!NToBE(v, 32)
Ramp(n) == [i \in 1..n |-> (i * 7) % 251]
Fmts == {"raw", "hex", "bin"}
T == Size = "t"
(* three lattice sizes: real size quick (small), toy size quick (mid), thorough (full) *)
Pick(small, mid, full) == IF T THEN full ELSE IF Big THEN small ELSE mid

D0 == [inf |-> "hex", outf |-> "hex", net |-> "mainnet", print |-> FALSE, decode |-> FALSE, check |-> FALSE,
       type |-> "p2pkh", haswv |-> FALSE, wv |-> 0, compressed |-> FALSE, witness |-> FALSE, hrp |-> <<>>, data |-> <<>>,
       hasdata |-> FALSE, mode |-> "", pass |-> <<>>, token |-> <<>>, strength |-> 256, draw |-> AD!NZero, path |-> <<>>, xpub |-> FALSE,
       items |-> <<>>, scripts |-> <<>>, hexok |-> TRUE, msg |-> <<>>, sighash |-> "all", acp |-> FALSE, verify |-> FALSE,
       preimage |-> FALSE, hassig |-> FALSE, sig |-> <<>>, draws |-> <<>>, argsok |-> TRUE, ins |-> <<>>, outs |-> <<>>,
       wits |-> <<>>, version |-> <<1, 0, 0, 0>>, locktime |-> <<0, 0, 0, 0>>, hasheight |-> FALSE, height |-> 0, header |-> FALSE]
Inv(cmd, o, input) == [cmd |-> cmd, opts |-> o, input |-> input]
(* b = the data behind the input, kc = key class (the harness substitutes a real key of that class), port = the *)
(* input means the same at real size (no toy checksum inside)                                                    *)
MkCase(g, inv, b, kc, port) == [k |-> "case", g |-> g, inv |-> inv, b |-> b, kc |-> kc, port |-> port]
StripNLs(t) == C!StripNL(t)
NoNL(t) == IF t # <<>> /\ Last(t) = NL THEN Front(t) ELSE t

(* ---- keys by class (scale dependent) ---- *)
MidKey == IF Big THEN <<58,10,63,246,174,25,210,33,199,221,253,49,87,216,63,249,188,37,250,40,145,30,104,47,149,254,93,10,198,87,255,60>>
          ELSE B32(Num(5))
KeyOf(kc) == CASE kc = "one"   -> B32(Num(1))
               [] kc = "two"   -> B32(Num(2))
               [] kc = "mid"   -> MidKey
               [] kc = "n-1"   -> B32(AD!NSub(CN, Num(1)))
               [] kc = "zero"  -> Rep(0, 32)
               [] kc = "n"     -> B32(CN)
               [] kc = "short" -> Rep(1, 31)
               [] kc = "long"  -> Rep(1, 33)
ValidKeys == {"one", "two", "mid", "n-1"}
KeyClasses == ValidKeys \cup {"zero", "n", "short", "long"}

(* ------------------------------------------------------------------ hashes *)
HashData == Pick({<<>>, <<97, 98, 99>>}, {<<>>, <<0>>, <<0, 255>>, <<97, 98, 99>>, <<10>>},
                 {<<>>, <<0>>, <<0, 255>>, <<97, 98, 99>>, <<10>>, Ramp(33), Ramp(64), Ramp(65), Rep(255, 56)})
HashCases(z) == {MkCase("hash", Inv(h, [D0 EXCEPT !.inf = f, !.outf = g], Wr(b, f)), b, "", TRUE) :
                 h \in HashCmds, f \in Fmts, g \in Fmts, b \in HashData}
HashThm == c.k = "case" /\ c.g = "hash" =>
    LET inv == c.inv  o == inv.opts  e == Expected(inv)
        Pipe(first, second, m) == Expected(Inv(second, [o EXCEPT !.inf = m], Expected(Inv(first, [o EXCEPT !.outf = m], inv.input)).v))
    IN /\ e.ok /\ ~Unconstrained(inv)
       /\ C!ReadBytes(e.v, o.outf) = Ok(HashOf(inv.cmd, c.b))
       /\ (inv.cmd = "hash160" => \A m \in Fmts : e = Pipe("sha256", "ripemd160", m))
       /\ (inv.cmd = "hash256" => \A m \in Fmts : e = Pipe("sha256", "sha256", m))

(* ------------------------------------------------------------------ base58 *)
B58Data == Pick({<<>>, <<0, 0, 1>>, Ramp(21)}, {<<>>, <<0>>, <<0, 0, 1>>, <<255>>, <<0, 255, 3>>, Ramp(21)},
                {<<>>, <<0>>, <<0, 0, 1>>, <<255>>, <<0, 255, 3>>, Ramp(21), Ramp(33), Rep(0, 5), Rep(255, 32)})
Base58Cases(z) == {MkCase("base58", Inv("base58", [D0 EXCEPT !.inf = f, !.check = ck, !.print = p], Wr(b, f)), b, "", TRUE) :
                   f \in Fmts, ck \in BOOLEAN, p \in BOOLEAN, b \in B58Data}
Base58Pair == c.k = "case" /\ c.g = "base58" =>
    LET inv == c.inv  o == inv.opts  e == Expected(inv)
        text == IF o.print THEN Front(e.v) ELSE e.v
        Back(ck, g, p, t) == Expected(Inv("base58", [o EXCEPT !.decode = TRUE, !.check = ck, !.outf = g, !.print = p], t))
    IN /\ e.ok /\ ~Unconstrained(inv)
       /\ (o.print <=> (e.v # <<>> /\ Last(e.v) = NL))
       /\ \A g \in Fmts : Back(o.check, g, FALSE, text) = Ok(Wr(c.b, g))                 \* decode . encode = identity
       /\ Back(o.check, "raw", TRUE, text) = Ok(Append(c.b, NL))                           \* --print ends the output
       /\ (o.check => Back(FALSE, "raw", FALSE, text) = Ok(c.b \o AD!Cks(c.b)))             \* payload then checksum
       /\ ~Back(o.check, "hex", FALSE, Append(text, 48)).ok                                 \* "0" is not in the alphabet
       /\ (o.print => ~Back(o.check, "hex", FALSE, e.v).ok)                                 \* nor is the newline

(* ------------------------------------------------------------------ bech32 *)
HrpBc   == <<98, 99>>
Hrps    == Pick({HrpBc, <<97>>}, {HrpBc, <<116, 98>>, <<98, 99, 114, 116>>, <<97>>},
                {HrpBc, <<116, 98>>, <<98, 99, 114, 116>>, <<97>>, <<97, 49, 98>>})               \* bc tb bcrt a a1b
BechLens == Pick({0, 20, 32, 40}, {0, 1, 20, 21, 32, 40}, {0, 1, 2, 5, 20, 21, 32, 33, 40, 41, 48, 49, 50})
Wvs == Pick({0, 1, 16, 17}, {0, 1, 16, 17}, {0, 1, 2, 16, 17})
Bech32Cases(z) ==
    {MkCase("bech32", Inv("bech32", [D0 EXCEPT !.hrp = h, !.print = p], Wr(Ramp(n), "hex")), Ramp(n), "", TRUE) :
        h \in Hrps, p \in BOOLEAN, n \in BechLens}
    \cup {MkCase("bech32", Inv("bech32", [D0 EXCEPT !.hrp = h, !.haswv = TRUE, !.wv = v], Wr(Ramp(n), "hex")), Ramp(n), "", TRUE) :
        h \in Hrps, v \in Wvs, n \in BechLens}
    \cup {MkCase("bech32", Inv("bech32", [D0 EXCEPT !.hrp = h], Wr(Ramp(3), "hex")), Ramp(3), "", TRUE) :
        h \in {<<>>, <<66, 67>>, <<98, 32, 99>>, Rep(120, 83), Rep(120, 84), <<126>>, <<127>>}}
BechDec(t) == Inv("bech32", [D0 EXCEPT !.decode = TRUE], t)
Bech32Pair == c.k = "case" /\ c.g = "bech32" /\ ~c.inv.opts.haswv =>
    LET inv == c.inv  o == inv.opts  e == Expected(inv)  low == AD!LowerStr(o.hrp) IN
    /\ ~Unconstrained(inv)
    /\ e.ok <=> (HrpValid(o.hrp) /\ Len(o.hrp) + 7 + (((8 * Len(c.b)) + 4) \div 5) <= 90)
    /\ MayFail(inv) <=> HasUpper(o.hrp)
    /\ e.ok =>
         LET text == IF o.print THEN Front(e.v) ELSE e.v  j == ExpectedJ(BechDec(text)) IN
         /\ ~AD!MixedCase(text) /\ Len(text) <= 90
         /\ e = Expected([inv EXCEPT !.opts.hrp = low])                                     \* capitals in --hrp: lower case out
         /\ ~Unconstrained(BechDec(text)) /\ j.ok
         /\ (j.v.form = "generic" => j.v.hrp = low /\ j.v.payload = c.b)
         /\ (j.v.form = "segwit" => AD!SegwitDecode(text).ok)                               \* (a generic string may happen to be an address)
         /\ ExpectedJ(BechDec([i \in 1..Len(text) |-> IF AD!IsLower(text[i]) THEN text[i] - 32 ELSE text[i]])) = j    \* all capitals: same
         /\ ~ExpectedJ(BechDec([text EXCEPT ![Len(text)] = IF @ = 113 THEN 112 ELSE 113])).ok   \* checksum
SegwitPair == c.k = "case" /\ c.g = "bech32" /\ c.inv.opts.haswv =>
    LET inv == c.inv  o == inv.opts  e == Expected(inv) IN
    /\ ~Unconstrained(inv)
    /\ (o.wv > 16 => ~e.ok)
    /\ (e.ok /\ o.hrp \in AD!SegwitHrps /\ AD!ValidProgram(o.wv, Len(c.b)) =>
          LET j == ExpectedJ(BechDec(e.v))
              a == Expected(Inv("addr", [D0 EXCEPT !.haswv = TRUE, !.wv = o.wv, !.net = NetOfHrp(o.hrp)], inv.input))
          IN /\ j.ok /\ j.v.form = "segwit" /\ j.v.network = NetOfHrp(o.hrp) /\ j.v.ver = o.wv /\ j.v.prog = c.b
             /\ a = e)                                                                      \* the same address as `addr`

(* -------------------------------------------------------------------- addr *)
AddrLens == Pick({19, 20, 21}, {0, 19, 20, 21, 32}, {0, 2, 19, 20, 21, 32, 33, 40, 41})
WitLens  == Pick({2, 20, 21, 32, 40, 41}, {2, 20, 21, 32, 33, 40, 41}, {0, 2, 19, 20, 21, 32, 33, 40, 41})
AddrCases(z) ==
    {MkCase("addr", Inv("addr", [D0 EXCEPT !.type = t, !.net = n, !.print = p, !.inf = f], Wr(Ramp(l), f)), Ramp(l), "", TRUE) :
        t \in {"p2pkh", "p2sh"}, n \in AD!Nets, p \in Pick({TRUE}, BOOLEAN, BOOLEAN), f \in (IF T THEN Fmts ELSE {"hex"}), l \in AddrLens}
    \cup {MkCase("addr", Inv("addr", [D0 EXCEPT !.type = t, !.net = n, !.haswv = TRUE, !.wv = v], Wr(Ramp(l), "hex")), Ramp(l), "", TRUE) :
        t \in Pick({"p2sh"}, {"p2pkh", "p2sh"}, {"p2pkh", "p2sh"}), n \in AD!Nets, v \in Pick({0, 1, 16}, {0, 1, 16}, {0, 1, 15, 16}), l \in WitLens}
OtherType(t) == IF t = "p2pkh" THEN "p2sh" ELSE "p2pkh"
AddrThm == c.k = "case" /\ c.g = "addr" =>
    LET inv == c.inv  o == inv.opts  e == Expected(inv)
        kind == IF o.haswv THEN "wit" ELSE o.type
        text == IF o.print THEN Front(e.v) ELSE e.v
        With(n) == Expected([inv EXCEPT !.opts.net = n])
    IN /\ ~Unconstrained(inv)
       /\ e.ok <=> (IF o.haswv THEN AD!ValidProgram(o.wv, Len(c.b)) ELSE Len(c.b) = 20)
       /\ e.ok =>
            /\ AD!ScriptPubKeyOf(text) = Ok(AD!Template(kind, o.wv, c.b))                   \* accepted, and the standard script
            /\ AD!InputClass(text) = (IF o.haswv THEN "segwit" ELSE "base58check")
            /\ (o.haswv => e = Expected([inv EXCEPT !.opts.type = OtherType(o.type)]))      \* --type ignored
            /\ (~o.haswv => e # Expected([inv EXCEPT !.opts.type = OtherType(o.type)]))
            /\ (~o.haswv => With("testnet") = With("regtest"))
            /\ (o.haswv => With("testnet") # With("regtest"))
            /\ With("mainnet") # With("testnet")
            /\ (o.print <=> Last(e.v) = NL)

(* --------------------------------------------------------------------- wif *)
WifDatas == {<<>>, <<1>>, <<81, 82>>} \cup (IF T THEN {Ramp(40)} ELSE {})
WifDataSeq == <<<<>>, <<1>>, <<81, 82>>>>
WifCases(z) == {MkCase("wif", Inv("wif", [D0 EXCEPT !.type = WF!WifTypes[t], !.net = n, !.data = d, !.hasdata = d # <<>>, !.print = (t % 2 = 0), !.inf = "raw"],
                                KeyOf(kc)), KeyOf(kc), kc, TRUE) :
                t \in 1..8, n \in AD!Nets, d \in (IF T THEN WifDatas ELSE {<<>>}), kc \in Pick({"mid", "zero"}, KeyClasses \ {"two"}, KeyClasses \ {"two"})}
               \cup {MkCase("wif", Inv("wif", [D0 EXCEPT !.type = WF!WifTypes[t], !.data = WifDataSeq[(t % 3) + 1], !.hasdata = TRUE, !.inf = "raw"],
                                KeyOf("mid")), KeyOf("mid"), "mid", TRUE) : t \in 1..8}
WifPair == c.k = "case" /\ c.g = "wif" =>
    LET inv == c.inv  o == inv.opts  e == Expected(inv) IN
    /\ ~Unconstrained(inv)
    /\ e.ok <=> c.kc \in ValidKeys
    /\ e.ok =>
         LET text == IF o.print THEN Front(e.v) ELSE e.v
             dinv == Inv("wif", [D0 EXCEPT !.decode = TRUE], text)  j == ExpectedJ(dinv) IN
         /\ ~Unconstrained(dinv) /\ j.ok
         /\ j.v.key = c.b /\ j.v.type = o.type /\ j.v.suffix = o.data
         /\ j.v.net = (IF o.net = "mainnet" THEN "mainnet" ELSE "testnet")
         /\ j.v.version = WF!WifVersion(o.net, o.type)
         /\ (o.net = "testnet" => e = Expected([inv EXCEPT !.opts.net = "regtest"]))

(* ------------------------------------------------------------ key / pubkey *)
PubFmts == {"hex", "raw", "bin", "pem"}
PubkeyCases(z) == {MkCase("pubkey", Inv("pubkey", [D0 EXCEPT !.compressed = x, !.outf = g, !.inf = "raw"], KeyOf(kc)), KeyOf(kc), kc, TRUE) :
                   x \in BOOLEAN, g \in (IF Big /\ ~T THEN {"hex", "pem"} ELSE PubFmts), kc \in (IF Big /\ ~T THEN KeyClasses \ {"two", "one"} ELSE KeyClasses)}
Sec1Of(inv, e) == IF inv.opts.outf = "pem" THEN PM!PemDecPub(e.v).v.pub ELSE C!ReadBytes(e.v, inv.opts.outf).v
PubkeyThm == c.k = "case" /\ c.g = "pubkey" =>
    LET inv == c.inv  o == inv.opts  e == Expected(inv) IN
    /\ ~Unconstrained(inv)
    /\ e.ok <=> c.kc \in ValidKeys
    /\ e.ok =>
         LET P == AD!PubOf(AD!NFromBE(c.b))  s == Sec1Of(inv, e)
             again(x) == Expected(Inv("pubkey", [o EXCEPT !.compressed = x, !.inf = "raw", !.outf = "raw"], s)) IN
         /\ s = AD!Sec1Enc(P, o.compressed) /\ AD!Sec1Dec(s) = Ok(P)                       \* pubkey of key = PubOf
         /\ (o.outf = "pem" => PM!PemDecPub(e.v).ok)
         /\ again(TRUE) = Ok(AD!Sec1Enc(P, TRUE)) /\ again(FALSE) = Ok(AD!Sec1Enc(P, FALSE)) \* both forms: the same point
KeyCases(z) == {MkCase("key", Inv("key", [D0 EXCEPT !.draw = d, !.outf = g], <<>>), <<>>, "", FALSE) :
                d \in (IF Big /\ ~T THEN {AD!NSub(CN, Num(2))} ELSE {AD!NZero, Num(1), Num(7), AD!NSub(CN, Num(2))}), g \in PubFmts}
KeyThm == c.k = "case" /\ c.g = "key" =>
    LET inv == c.inv  o == inv.opts  e == Expected(inv)
        key == IF o.outf = "pem" THEN PM!PemDecPriv(e.v).v.priv ELSE C!ReadBytes(e.v, o.outf).v IN
    /\ e.ok /\ key = KeyOfDraw(o.draw) /\ AD!PrivFromBytes(key).ok
    /\ Expected(Inv("pubkey", [D0 EXCEPT !.inf = "raw", !.outf = "raw"], key)) = Ok(AD!Sec1Enc(AD!PubOf(AD!NFromBE(key)), FALSE))
    /\ (o.outf = "pem" => PM!PemDecPriv(e.v).v.pub = AD!Sec1Enc(AD!PubOf(AD!NFromBE(key)), FALSE))

(* ---------------------------------------------------------------- mnemonic *)
Entropies == {Rep(0, 16), Ramp(16), Ramp(20), Ramp(24), Ramp(28), Ramp(32), Rep(255, 32)}
BadEntropies == {<<>>, Ramp(15), Ramp(17), Ramp(33)}
MnemonicCases(z) ==
    {MkCase("mnemonic", Inv("mnemonic", [D0 EXCEPT !.mode = "from-entropy", !.inf = f, !.print = p], Wr(b, f)), b, "", TRUE) :
        f \in Fmts, p \in BOOLEAN, b \in (IF T THEN Entropies \cup BadEntropies ELSE {Ramp(16)})}
    \cup {MkCase("mnemonic", Inv("mnemonic", [D0 EXCEPT !.mode = "from-entropy"], Wr(b, "hex")), b, "", TRUE) : b \in Entropies \cup BadEntropies}
Spread(t) == <<32, 9>> \o [i \in 1..Len(t) |-> IF t[i] = 32 THEN 10 ELSE t[i]] \o <<13, 10>>     \* other whitespace between the words
MnemonicPair == c.k = "case" /\ c.g = "mnemonic" =>
    LET inv == c.inv  o == inv.opts  e == Expected(inv)
        M(mode, t) == Inv("mnemonic", [o EXCEPT !.mode = mode], t) IN
    /\ ~Unconstrained(inv)
    /\ e.ok <=> c.b \in Entropies
    /\ e.ok =>
         /\ Last(e.v) = NL /\ Len(SplitWs(e.v)) = (3 * Len(c.b)) \div 4
         /\ AltOutputs(inv, e.v) = (IF o.print THEN {} ELSE {Front(e.v)})
         /\ \A g \in Fmts : Expected(Inv("mnemonic", [o EXCEPT !.mode = "to-entropy", !.outf = g], e.v)) = Ok(Wr(c.b, g))
         /\ Expected(M("to-entropy", Spread(e.v))) = Expected(M("to-entropy", e.v))
         /\ Expected(Inv("mnemonic", [o EXCEPT !.mode = "generate", !.token = c.b], <<>>)) = Ok(e.v)
         /\ Expected(M("to-seed", Spread(e.v))) = Expected(M("to-seed", Front(e.v)))
         /\ LET mk == Expected(M("to-master-key", e.v)) IN
            mk.ok => /\ (o.print <=> Last(mk.v) = NL)
                     /\ Expected(Inv("hd", [D0 EXCEPT !.path = <<109>>], NoNL(mk.v))) = Ok(NoNL(mk.v))     \* ... | hd m
                     /\ mk # Expected(Inv("mnemonic", [o EXCEPT !.mode = "to-master-key", !.net = "testnet"], e.v))
         /\ ~Expected(M("to-entropy", SubSeq(e.v, 1, Len(e.v) - 4))).ok                     \* last word damaged / missing

(* ---------------------------------------------------------------------- hd *)
SeedBytes(s) == [t \in 1..16 |-> ((s * 29) + (t * 7)) % 256]
Roots(z) == {r \in {HD!MasterX(SeedBytes(s), n) : s \in 0..(IF T THEN (IF Big THEN 1 ELSE 4) ELSE 0), n \in (IF Big /\ ~T THEN {"main"} ELSE {"main", "test"})} : r.ok}
PathM0 == <<109>>                              \* m
Pm(a) == <<109, 47>> \o a                   \* m/a
PathPub(a) == <<77, 47>> \o a                    \* M/a
E0 == <<48>>                                \* 0
E1 == <<49>>
E0h == <<48, 39>>                           \* 0'
EMax == <<50, 49, 52, 55, 52, 56, 51, 54, 52, 55>>     \* 2147483647
Sl(a, b) == a \o <<47>> \o b
HdCases(z) == {MkCase("hd", Inv("hd", [D0 EXCEPT !.path = p], HD!XKeyStr(r.v)), <<>>, "", FALSE) :
               r \in Roots(z), p \in (IF ~T THEN {Pm(E0), Pm(Sl(E0h, E1)), <<77>>}
                                     ELSE {PathM0, Pm(E0), Pm(E0h), Pm(Sl(E1, E0)), Pm(Sl(E0h, E1)), Pm(EMax), <<77>>, PathPub(E0)})}
HdRun(path, xpub, print, x) == Expected(Inv("hd", [D0 EXCEPT !.path = path, !.xpub = xpub, !.print = print], x))
HdThm == c.k = "case" /\ c.g = "hd" =>
    LET inv == c.inv  o == inv.opts  x == inv.input  e == Expected(inv)  pp == ParsePath(o.path) IN
    /\ pp.cls = "ok"
    /\ (pp.priv => ~Unconstrained(inv))
    /\ (~pp.priv => Unconstrained(inv))                                                      \* M... below a private key: open
    /\ pp.priv /\ e.ok =>
         /\ HdRun(o.path, FALSE, TRUE, x) = Ok(Append(e.v, NL))
         /\ (Len(pp.path) = 2 =>                                                            \* m/a/b = m/a | m/b
               LET first == HdRun(Pm(SplitSep(Drop(o.path, 2), Slash)[1]), FALSE, FALSE, x) IN
               first.ok /\ HdRun(Pm(SplitSep(Drop(o.path, 2), Slash)[2]), FALSE, FALSE, first.v) = e)
         /\ LET pub == HdRun(o.path, TRUE, FALSE, x)  rootpub == HdRun(PathM0, TRUE, FALSE, x) IN
            /\ pub.ok /\ rootpub.ok /\ pub # e
            /\ HD!DeserXKeyStr(pub.v) = Ok(HD!NeuterX(HD!DeserXKeyStr(e.v).v))
            /\ HdRun(<<77>>, TRUE, FALSE, pub.v) = pub                                      \* M of a public key: itself
            /\ ~HdRun(PathM0, FALSE, FALSE, pub.v).ok /\ ~HdRun(Pm(E0), FALSE, FALSE, pub.v).ok  \* no private keys below a public key
            /\ ~HdRun(PathPub(E0h), FALSE, FALSE, rootpub.v).ok                                  \* no hardened child of a public key
            /\ (Len(pp.path) = 1 /\ ~HD!Hardened(pp.path[1]) =>                             \* public and private derivation commute
                  HdRun(<<77, 47>> \o Drop(o.path, 2), FALSE, FALSE, rootpub.v) = pub)
ASSUME ParsePath(Pm(Sl(E0h, E1))) = [cls |-> "ok", priv |-> TRUE, path |-> <<<<128, 0, 0, 0>>, <<0, 0, 0, 1>>>>]
ASSUME ParsePath(PathPub(EMax)) = [cls |-> "ok", priv |-> FALSE, path |-> <<<<127, 255, 255, 255>>>>]
ASSUME ParsePath(Pm(<<48, 48, 55>>)).path = <<<<0, 0, 0, 7>>>>                                 \* m/007
ASSUME \A p \in {<<>>, <<109, 47>>, Pm(Sl(E0, <<>>)), <<120, 47, 48>>, <<109, 48>>, Pm(<<48, 120, 49>>), Pm(<<49, 101, 51>>),
                 Pm(<<50, 49, 52, 55, 52, 56, 51, 54, 52, 56, 39>>), Pm(<<48, 39, 39>>)} : ParsePath(p).cls = "invalid"
ASSUME \A p \in {Pm(<<48, 104>>), Pm(<<32, 49>>), Pm(<<49, 95, 48>>), Pm(<<45, 49>>), Pm(<<50, 49, 52, 55, 52, 56, 51, 54, 52, 56>>),
                 Pm(<<39>>)} : ParsePath(p).cls = "loose"

(* ------------------------------------------------------------------ script *)
OpIt(n)   == [k |-> "op", n |-> n, d |-> <<>>]
DataIt(d) == [k |-> "data", n |-> "", d |-> d]
BadIt     == [k |-> "bad", n |-> "", d |-> <<>>]
ItemSeqs == {<<>>, <<OpIt("OP_DUP")>>, <<OpIt("OP_1"), DataIt(<<7>>)>>, <<DataIt(<<>>)>>, <<DataIt(Ramp(75))>>, <<DataIt(Ramp(76))>>,
             <<DataIt(Ramp(255))>>, <<DataIt(Ramp(256))>>, <<OpIt("OP_TRUE"), OpIt("OP_NOP2"), OpIt("OP_FALSE")>>,
             <<OpIt("OP_DUP"), OpIt("OP_HASH160"), DataIt(Ramp(20)), OpIt("OP_EQUALVERIFY"), OpIt("OP_CHECKSIG")>>,
             <<OpIt("OP_RETURN"), DataIt(Ramp(80))>>, <<OpIt("OP_FOO")>>, <<BadIt>>, <<OpIt("OP_PUSHDATA1"), DataIt(<<1>>)>>}
Stacks == {<<>>, <<DataIt(<<>>)>>, <<DataIt(<<170, 187>>), DataIt(<<204>>)>>, <<DataIt(Ramp(252)), DataIt(Ramp(253))>>, <<OpIt("OP_1")>>, <<BadIt>>}
ScriptCases(z) ==
    {MkCase("script", Inv("script", [D0 EXCEPT !.items = s, !.outf = g], <<>>), <<>>, "", TRUE) : s \in ItemSeqs, g \in Pick({"hex"}, Fmts, Fmts)}
    \cup {MkCase("script", Inv("script", [D0 EXCEPT !.items = s, !.outf = g, !.witness = TRUE], <<>>), <<>>, "", TRUE) : s \in Stacks, g \in Pick({"hex"}, Fmts, Fmts)}
ScriptPair == c.k = "case" /\ c.g = "script" =>
    LET inv == c.inv  o == inv.opts  e == Expected(inv)
        good == ItemsOk(o.items) /\ NamesKnown(o.items) IN
    /\ (~good => ~e.ok /\ ~Unconstrained(inv))
    /\ (good /\ ~Unconstrained(inv) =>
          /\ e.ok
          /\ LET raw == C!ReadBytes(e.v, o.outf).v
                 j == ExpectedJ(Inv("script", [D0 EXCEPT !.decode = TRUE, !.witness = o.witness, !.scripts = <<raw, raw>>], <<>>)) IN
             /\ j.ok /\ Len(j.v) = 2 /\ j.v[1] = j.v[2]
             /\ ~Unconstrained(Inv("script", [D0 EXCEPT !.decode = TRUE, !.witness = o.witness, !.scripts = <<raw>>], <<>>))
             /\ (IF o.witness THEN j.v[1] = BK!DataSeq([i \in 1..Len(o.items) |-> o.items[i].d])
                 ELSE /\ BK!Asm(j.v[1]) = raw /\ BK!MinimalPushes(raw)
                      /\ ((\A i \in 1..Len(o.items) : o.items[i].k = "data" => o.items[i].d # <<>>)      \* (an empty push IS OP_0)
                            => j.v[1] = BK!FromNamed(o.items).v)))

(* ---------------------------------------------------------------------- tx *)
TxidA == [i \in 1..32 |-> i]
TxidB == [i \in 1..32 |-> 255 - i]
InA == [txid |-> TxidA, vout |-> <<1, 0, 0, 0>>, script |-> <<81>>]
InB == [txid |-> TxidB, vout |-> <<255, 255, 255, 255>>, script |-> <<>>]
InC == [txid |-> TxidB, vout |-> <<0, 0, 0, 0>>, script |-> Ramp(253)]
OutA == [value |-> <<57, 48, 0, 0, 0, 0, 0, 0>>, script |-> <<118, 169, 20>> \o Ramp(20) \o <<136, 172>>]
OutB == [value |-> Rep(255, 8), script |-> <<>>]
WitA == <<2, 2, 170, 187, 1, 204>>
Wit0 == <<0>>
TxBuilds == {<<<<InA>>, <<OutA>>, <<>>>>, <<<<InA, InB>>, <<OutA, OutB>>, <<>>>>, <<<<InC>>, <<>>, <<>>>>, <<<<InB>>, <<OutA>>, <<WitA>>>>,
             <<<<InA, InB>>, <<OutB>>, <<Wit0, WitA>>>>, <<<<[InA EXCEPT !.txid = Ramp(31)]>>, <<OutA>>, <<>>>>,
             <<<<[InA EXCEPT !.txid = Ramp(33)]>>, <<OutA>>, <<>>>>, <<<<>>, <<OutA>>, <<>>>>, <<<<InA>>, <<OutA>>, <<Wit0>>>>,
             <<<<InA, InB>>, <<OutA>>, <<WitA>>>>}
TxCases(z) == {MkCase("tx", Inv("tx", [D0 EXCEPT !.ins = b[1], !.outs = b[2], !.wits = b[3], !.version = v, !.locktime = l, !.outf = g], <<>>), <<>>, "", TRUE) :
               b \in TxBuilds, v \in Pick({<<2, 0, 0, 0>>}, {<<1, 0, 0, 0>>, <<255, 255, 255, 255>>}, {<<1, 0, 0, 0>>, <<255, 255, 255, 255>>}),
               l \in Pick({<<32, 161, 7, 0>>}, {<<32, 161, 7, 0>>}, {<<0, 0, 0, 0>>, <<32, 161, 7, 0>>}), g \in Fmts}
TxPair == c.k = "case" /\ c.g = "tx" =>
    LET inv == c.inv  o == inv.opts  e == Expected(inv) IN
    /\ ((\E i \in 1..Len(o.ins) : Len(o.ins[i].txid) # 32) => ~e.ok /\ ~Unconstrained(inv))
    /\ (~Unconstrained(inv) /\ (\A i \in 1..Len(o.ins) : Len(o.ins[i].txid) = 32) =>
          /\ e.ok
          /\ LET dinv == Inv("tx", [D0 EXCEPT !.decode = TRUE, !.inf = o.outf], e.v)  j == ExpectedJ(dinv) IN
             /\ ~Unconstrained(dinv) /\ j.ok
             /\ j.v.version = o.version /\ j.v.locktime = o.locktime /\ j.v.outs = o.outs
             /\ Len(j.v.ins) = Len(o.ins)
             /\ \A i \in 1..Len(o.ins) : /\ j.v.ins[i].txid = Rev(o.ins[i].txid) /\ j.v.ins[i].vout = o.ins[i].vout
                                         /\ j.v.ins[i].script = o.ins[i].script /\ j.v.ins[i].seq = FinalSeq
             /\ (o.wits = <<>> <=> j.v.wit = <<>>) /\ (j.v.txid = j.v.wtxid <=> o.wits = <<>>)
             /\ (o.wits # <<>> => BK!TxWitSer(BK!TxDeser(C!ReadBytes(e.v, o.outf).v).v.t) = Concat(o.wits))
             /\ j.v.txid = Hash256(BK!TxSerNoWitness(BK!TxDeser(C!ReadBytes(e.v, o.outf).v).v.t)))

(* -------------------------------------------------------------- blockchain *)
ChainCases(z) == {MkCase("blockchain", Inv("blockchain", [D0 EXCEPT !.hasheight = TRUE, !.height = h, !.header = hd, !.outf = g], <<>>), <<>>, "", FALSE) :
                  h \in {0, 1}, hd \in BOOLEAN, g \in Fmts}
ChainThm == c.k = "case" /\ c.g = "blockchain" =>
    LET inv == c.inv  o == inv.opts IN
    IF o.height # 0 THEN Unconstrained(inv)
    ELSE LET e == Expected(inv)  raw == C!ReadBytes(e.v, o.outf).v
             whole == Expected([inv EXCEPT !.opts.header = FALSE, !.opts.outf = "raw"]).v
             Again(dec, hd, t) == Inv("blockchain", [D0 EXCEPT !.decode = dec, !.header = hd, !.inf = o.outf, !.outf = o.outf], t)
             j == ExpectedJ([inv EXCEPT !.opts.decode = TRUE]) IN
         /\ ~Unconstrained(inv) /\ e.ok
         /\ raw = (IF o.header THEN Take(whole, 80) ELSE whole) /\ whole = GenesisBlock /\ Len(whole) = 285
         /\ j.ok /\ j.v.hdr = GenesisHeader
         /\ (~o.header => /\ Len(j.v.txs) = 1 /\ j.v.txs[1].raw = Drop(whole, 81) /\ j.v.txs[1].t.txid = GenesisHeader.merkle
                          /\ j.v.txs[1].t.ins[1].txid = Rep(0, 32)
                          /\ Expected(Again(FALSE, FALSE, e.v)) = e                           \* blockchain 0 | blockchain = identity
                          /\ ExpectedJ(Again(TRUE, FALSE, e.v)) = j                           \* blockchain 0 | blockchain --decode
                          /\ Expected(Again(FALSE, TRUE, e.v)) = Expected([inv EXCEPT !.opts.header = TRUE]))
         /\ (o.header => Unconstrained(Again(TRUE, TRUE, e.v)))                               \* a bare header is not a block: open
         /\ (Big => BK!BlockHash(GenesisHeader) = GenesisHash)

(* --------------------------------------------------------------------- sig *)
Msgs == {<<>>, <<170, 187, 204>>, <<1, 0, 0, 0>>, <<170, 2, 0, 0, 0>>}
(* (toy size: rows only where the outcome does not need the digest, which does not fit TLC integers) *)
SigCases(z) == {MkCase("sig", Inv("sig", [D0 EXCEPT !.msg = m, !.sighash = sh, !.acp = a, !.preimage = p, !.inf = "raw", !.draws = <<Num(3)>>], KeyOf(kc)),
                    KeyOf(kc), kc, kc \notin ValidKeys \/ (p /\ ~AD!PreimageOk(m, FlagOf([sighash |-> sh, acp |-> a])))) :
                m \in Msgs, sh \in (IF Big /\ ~T THEN {"all"} ELSE {"all", "none"}), a \in BOOLEAN, p \in BOOLEAN,
                kc \in (IF Big THEN {"mid"} ELSE {"zero", "n", "short", "long", "mid"})}
SigThm == c.k = "case" /\ c.g = "sig" =>
    LET inv == c.inv  o == inv.opts  flag == FlagOf(o)
        preok == ~o.preimage \/ AD!PreimageOk(o.msg, flag) IN
    /\ (c.kc \notin ValidKeys => ~Expected(inv).ok /\ ~Unconstrained(inv))
    /\ (c.kc \in ValidKeys /\ ~preok => ~Expected(inv).ok /\ ~Unconstrained(inv))
    /\ ExpectedS(Inv("sig", [o EXCEPT !.verify = TRUE], <<>>)) = "FAIL"                       \* --verify without --signature
    /\ (Big /\ c.kc \in ValidKeys /\ preok =>                                                \* real size: sig | sig --verify
          LET e == Expected(inv)
              sigb == C!ReadBytes(e.v, o.outf).v
              pub == Expected(Inv("pubkey", [D0 EXCEPT !.inf = "raw", !.outf = "raw", !.compressed = o.acp], inv.input)).v
              V(m) == ExpectedS(Inv("sig", [o EXCEPT !.verify = TRUE, !.hassig = TRUE, !.sig = sigb, !.msg = m], pub)) IN
          /\ e.ok /\ Last(sigb) = flag /\ AD!IsStrictDER(Front(sigb)) /\ ~Unconstrained(inv)
          /\ V(o.msg) = "OK"
          /\ V(IF o.preimage THEN <<85>> \o o.msg ELSE o.msg \o <<85>>) = "NOT-OK")

(* ------------------------------------------------------------------- model *)
(* (the case sets take a dummy parameter: TLC evaluates zero-arity constant definitions eagerly at start-up) *)
CasesOf(g) == CASE g = "hash"       -> HashCases(0)
                [] g = "base58"     -> Base58Cases(0)
                [] g = "bech32"     -> Bech32Cases(0)
                [] g = "addr"       -> AddrCases(0)
                [] g = "wif"        -> WifCases(0)
                [] g = "pubkey"     -> PubkeyCases(0)
                [] g = "key"        -> KeyCases(0)
                [] g = "mnemonic"   -> MnemonicCases(0)
                [] g = "hd"         -> HdCases(0)
                [] g = "script"     -> ScriptCases(0)
                [] g = "tx"         -> TxCases(0)
                [] g = "blockchain" -> ChainCases(0)
                [] g = "sig"        -> SigCases(0)
(* every part is cut into Split slices (TLC evaluates all successors of one state in one worker) *)
Split == 8
Slice(S, n) == LET q == SetToSeq(S) IN {q[i] : i \in {j \in 1..Len(q) : j % Split = n}}
Init == c \in [k : {"part"}, g : Parts, n : 0..(Split - 1)]
Next == c.k = "part" /\ c' \in Slice(CasesOf(c.g), c.n)

(* ---- rows for stage B ---- *)
Fields(cmd) ==
    CASE cmd \in HashCmds   -> {"inf", "outf"}
      [] cmd = "base58"     -> {"inf", "outf", "check", "decode", "print"}
      [] cmd = "bech32"     -> {"inf", "outf", "decode", "print", "hrp", "haswv", "wv"}
      [] cmd = "addr"       -> {"inf", "type", "haswv", "wv", "net", "print"}
      [] cmd = "wif"        -> {"inf", "type", "net", "decode", "print", "data", "hasdata"}
      [] cmd = "pubkey"     -> {"inf", "outf", "compressed"}
      [] cmd = "key"        -> {"outf", "draw"}
      [] cmd = "mnemonic"   -> {"inf", "outf", "mode", "net", "print", "pass", "token", "strength"}
      [] cmd = "hd"         -> {"path", "xpub", "print"}
      [] cmd = "script"     -> {"outf", "decode", "witness", "items", "scripts", "hexok"}
      [] cmd = "sig"        -> {"inf", "outf", "msg", "sighash", "acp", "verify", "preimage", "hassig", "sig", "draws"}
      [] cmd = "tx"         -> {"inf", "outf", "decode", "argsok", "ins", "outs", "wits", "version", "locktime"}
      [] cmd = "blockchain" -> {"inf", "outf", "hasheight", "height", "header", "decode", "net"}
OptsOf(inv) == [f \in Fields(inv.cmd) |-> inv.opts[f]]
Outcome(inv) ==
    IF Unconstrained(inv) THEN <<"open">>
    ELSE IF Produces(inv) = "bytes"
         THEN (LET e == Expected(inv) IN
               IF ~e.ok THEN <<"fail">> ELSE IF Emit = "exact" THEN <<"ok", e.v, MayFail(inv)>> ELSE <<"ok", MayFail(inv)>>)
    ELSE IF Produces(inv) = "json" THEN (IF ExpectedJ(inv).ok THEN <<"okj">> ELSE <<"fail">>)
    ELSE <<"status", ExpectedS(inv)>>
EmitRow == (c.k = "case" /\ Emit # "none" /\ (Emit = "exact" \/ c.port)) =>
               PrintT(<<"R", c.g, c.inv.cmd, OptsOf(c.inv), IF c.kc = "" THEN c.inv.input ELSE <<>>, c.kc, Outcome(c.inv)>>)
=============================================================================
