CONSTANTS Big = FALSE CP = 43 CB = 7 CN = 31 CGx = 2 CGy = 12
ClassLevelMnemonic = TRUE
MaxWallets = 2
PassSel = {1}
Strengths = {8}
GivenSel = {1, 3}
PathIdxSel = {}
MaxPathLen = 0
ChildIdxSel = {}
MaxDepth = 1
ScriptSel = {1}
Interleave = FALSE
KeyStr <- MCKeyStr
KeyOf <- MCKeyOf
AddrStr <- MCAddrStr
INIT MCInit
NEXT MCNext
INVARIANT NoSharedState
CHECK_DEADLOCK FALSE
