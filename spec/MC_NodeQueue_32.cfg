CONSTANTS Peers = {1, 2, 3}  Racy = FALSE  Connect = FALSE  MsgsPerPeer = 2
KindSet = {"ping", "version", "inv", "unknown"}
SPECIFICATION Spec
INVARIANT ExactlyOnce
INVARIANT RepliesExact
INVARIANT RepliesPrefix
INVARIANT VersionStored
PROPERTY NeverRemoved
CHECK_DEADLOCK FALSE
