------------------------------ MODULE P2PCodec ------------------------------
(***************************************************************************)
(* C17 - the payload codecs of bits.p2p that exist in both directions:     *)
(* version, getheaders, inv (+ inventory), addr (+ network address), ping. *)
(* Build* maps a value to the payload bytes of the Bitcoin P2P protocol,    *)
(* Parse* maps bytes back (Ok(value) / Fail); the property is              *)
(*                 Parse(Build(v)) = Ok(v).                                *)
(*                                                                         *)
(* Numbers that may exceed 2^31 - 1 (protocol version, services, time      *)
(* stamps, nonces, heights) are fixed-width little-endian byte sequences;  *)
(* counts, ports and inventory type codes are TLC integers.                *)
(* HashLen is 32 on the wire; stage A scales it down so that counts        *)
(* crossing the CompactSize boundaries stay short.                         *)
(***************************************************************************)
EXTENDS Prim
CONSTANT HashLen

IsBytesN(b, n) == Len(b) = n /\ IsBytes(b)

(* ---- CompactSize for values below 2^31 ---- *)
CS(n) == IF n < 253 THEN <<n>>
         ELSE IF n <= 65535 THEN <<253>> \o LE(n, 2)
         ELSE <<254>> \o LE(n, 4)
(* -> [ok, v, n] : value and number of bytes consumed *)
CSFail == [ok |-> FALSE, v |-> 0, n |-> 0]
CSDec(b) ==
    IF Len(b) < 1 THEN CSFail
    ELSE IF b[1] < 253 THEN [ok |-> TRUE, v |-> b[1], n |-> 1]
    ELSE IF b[1] = 253 THEN (IF Len(b) < 3 THEN CSFail ELSE [ok |-> TRUE, v |-> FromLE(SubSeq(b, 2, 3)), n |-> 3])
    ELSE IF b[1] = 254 THEN (IF Len(b) < 5 \/ b[5] >= 128 THEN CSFail ELSE [ok |-> TRUE, v |-> FromLE(SubSeq(b, 2, 5)), n |-> 5])
    ELSE (IF Len(b) < 9 \/ b[5] >= 128 \/ SubSeq(b, 6, 9) # <<0, 0, 0, 0>> THEN CSFail
          ELSE [ok |-> TRUE, v |-> FromLE(SubSeq(b, 2, 5)), n |-> 9])

(* n items of fixed width w, back to back *)
Join(items, w) == [i \in 1..(Len(items) * w) |-> items[((i - 1) \div w) + 1][((i - 1) % w) + 1]]
Split(b, off, n, w) == [i \in 1..n |-> SubSeq(b, off + (i - 1) * w + 1, off + i * w)]

(* ------------------------------- ping / pong ------------------------------ *)
(* v = [nonce : 8 bytes LE] *)
BuildPing(v) == v.nonce
ParsePing(b) == IF Len(b) = 8 THEN Ok([nonce |-> b]) ELSE Fail

(* --------------------------------- version -------------------------------- *)
(* v = [pv : 4, services : 8, timestamp : 8, recv_services : 8, recv_ip : 16, recv_port : 0..65535,
        trans_services : 8, trans_ip : 16, trans_port : 0..65535, nonce : 8, ua : bytes,
        start_height : 4, relay : BOOLEAN] *)
BuildVersion(v) ==
    v.pv \o v.services \o v.timestamp
    \o v.recv_services \o v.recv_ip \o BE(v.recv_port, 2)
    \o v.trans_services \o v.trans_ip \o BE(v.trans_port, 2)
    \o v.nonce \o CS(Len(v.ua)) \o v.ua \o v.start_height \o <<IF v.relay THEN 1 ELSE 0>>
ParseVersion(b) ==
    IF Len(b) < 81 THEN Fail
    ELSE LET c == CSDec(SubSeq(b, 81, Len(b))) IN
         IF ~c.ok THEN Fail
         ELSE LET o == 80 + c.n IN          \* offset of the user agent
              IF Len(b) # o + c.v + 5 \/ b[Len(b)] \notin {0, 1} THEN Fail
              ELSE Ok([pv |-> SubSeq(b, 1, 4), services |-> SubSeq(b, 5, 12), timestamp |-> SubSeq(b, 13, 20),
                       recv_services |-> SubSeq(b, 21, 28), recv_ip |-> SubSeq(b, 29, 44), recv_port |-> FromBE(SubSeq(b, 45, 46)),
                       trans_services |-> SubSeq(b, 47, 54), trans_ip |-> SubSeq(b, 55, 70), trans_port |-> FromBE(SubSeq(b, 71, 72)),
                       nonce |-> SubSeq(b, 73, 80), ua |-> SubSeq(b, o + 1, o + c.v),
                       start_height |-> SubSeq(b, o + c.v + 1, o + c.v + 4), relay |-> b[Len(b)] = 1])

(* ------------------------------- getheaders ------------------------------- *)
(* v = [pv : 4, hashes : Seq(HashLen bytes), stop : HashLen bytes] *)
BuildGetHeaders(v) == v.pv \o CS(Len(v.hashes)) \o Join(v.hashes, HashLen) \o v.stop
ParseGetHeaders(b) ==
    IF Len(b) < 5 THEN Fail
    ELSE LET c == CSDec(SubSeq(b, 5, Len(b))) IN
         IF ~c.ok THEN Fail
         ELSE IF Len(b) # 4 + c.n + (c.v + 1) * HashLen THEN Fail
         ELSE Ok([pv |-> SubSeq(b, 1, 4), hashes |-> Split(b, 4 + c.n, c.v, HashLen),
                  stop |-> SubSeq(b, 4 + c.n + c.v * HashLen + 1, Len(b))])

(* ------------------------------ inv / inventory --------------------------- *)
MSG_TX == 1  MSG_BLOCK == 2  MSG_FILTERED_BLOCK == 3  MSG_CMPCT_BLOCK == 4
WFLAG == 1073741824        \* 1 << 30
InvTypes == {MSG_TX, MSG_BLOCK, MSG_FILTERED_BLOCK, MSG_CMPCT_BLOCK, MSG_TX + WFLAG, MSG_BLOCK + WFLAG}
(* an inventory is [type \in InvTypes, hash : HashLen bytes];  v = [items : Seq(inventory)] *)
BuildInventory(it) == LE(it.type, 4) \o it.hash
ParseInventory(b) == IF Len(b) # 4 + HashLen \/ b[4] >= 128 \/ FromLE(SubSeq(b, 1, 4)) \notin InvTypes THEN Fail
                     ELSE Ok([type |-> FromLE(SubSeq(b, 1, 4)), hash |-> SubSeq(b, 5, Len(b))])
BuildInv(v) == CS(Len(v.items)) \o Join([i \in 1..Len(v.items) |-> BuildInventory(v.items[i])], 4 + HashLen)
ParseInv(b) ==
    LET c == CSDec(b) IN
    IF ~c.ok \/ Len(b) # c.n + c.v * (4 + HashLen) THEN Fail
    ELSE LET parts == [i \in 1..c.v |-> ParseInventory(SubSeq(b, c.n + (i - 1) * (4 + HashLen) + 1, c.n + i * (4 + HashLen)))] IN
         IF \E i \in 1..c.v : ~parts[i].ok THEN Fail
         ELSE Ok([items |-> [i \in 1..c.v |-> parts[i].v]])

(* --------------------------- addr / network address ----------------------- *)
(* a network address is [time : 4, services : 8, ip : 16, port : 0..65535] (30 bytes);  v = [addrs : Seq(address)] *)
BuildNetAddr(a) == a.time \o a.services \o a.ip \o BE(a.port, 2)
ParseNetAddr(b) == IF Len(b) # 30 THEN Fail
                   ELSE Ok([time |-> SubSeq(b, 1, 4), services |-> SubSeq(b, 5, 12), ip |-> SubSeq(b, 13, 28),
                            port |-> FromBE(SubSeq(b, 29, 30))])
BuildAddr(v) == CS(Len(v.addrs)) \o Join([i \in 1..Len(v.addrs) |-> BuildNetAddr(v.addrs[i])], 30)
ParseAddr(b) ==
    LET c == CSDec(b) IN
    IF ~c.ok \/ Len(b) # c.n + c.v * 30 THEN Fail
    ELSE Ok([addrs |-> [i \in 1..c.v |-> ParseNetAddr(SubSeq(b, c.n + (i - 1) * 30 + 1, c.n + i * 30)).v]])

(* ------------------------------ the property ------------------------------ *)
Build(k, v) == CASE k = "ping" -> BuildPing(v) [] k = "version" -> BuildVersion(v) [] k = "getheaders" -> BuildGetHeaders(v)
                 [] k = "inv" -> BuildInv(v) [] k = "addr" -> BuildAddr(v)
Parse(k, b) == CASE k = "ping" -> ParsePing(b) [] k = "version" -> ParseVersion(b) [] k = "getheaders" -> ParseGetHeaders(b)
                 [] k = "inv" -> ParseInv(b) [] k = "addr" -> ParseAddr(b)
RoundTrips(k, v) == Parse(k, Build(k, v)) = Ok(v)
(* the parsers are exact about the length: extra or missing bytes are not the payload of any value *)
Tight(k, v) == LET b == Build(k, v) IN
               /\ ~Parse(k, b \o <<0>>).ok
               /\ (Len(b) > 0 => ~Parse(k, SubSeq(b, 1, Len(b) - 1)).ok)
=============================================================================
