CONSTANTS HashLen = 32
INIT Init
NEXT Next
CHECK_DEADLOCK FALSE
