------------------------------ MODULE MC_Bip143 ------------------------------
(* Stage A (C11): the exhaustive decision table 6 flags x idx 0..8 x n_in, n_out   *)
(* 1..8 (idx < n_in): the BIP-text rules and the code-shaped rules agree; SINGLE   *)
(* with idx >= n_out zeroes hashOutputs; on a concrete transaction with pairwise   *)
(* distinct fields (toy hash) the preimage has the BIP layout, the outpoint and   *)
(* sequence are those of idx, each hash slot is the hash of exactly the demanded  *)
(* bytes or zero.  NoBound = TRUE is the self-test deviation (SINGLE without the  *)
(* idx < n_out test).                                                              *)
EXTENDS Bip143
CONSTANTS MaxN, NoBound
VARIABLE c
Cases == {[flag |-> f, idx |-> i, nin |-> a, nout |-> b] :
              f \in StandardFlags, i \in 0..MaxN, a \in 1..MaxN, b \in 1..MaxN}
(* dispatcher states so that the cases are evaluated by all workers (initial states are single-threaded) *)
Start == [flag |-> 0, idx |-> 0, nin |-> 0, nout |-> 0]
Init == c = Start
Next == \/ c = Start /\ c' \in {[flag |-> 0, idx |-> 0, nin |-> a, nout |-> b] : a \in 1..MaxN, b \in 1..MaxN}
        \/ c.flag = 0 /\ c.nin > 0 /\ c' \in {x \in Cases : x.idx < x.nin /\ x.nin = c.nin /\ x.nout = c.nout}
IsCase == c.flag # 0

Code(flag, idx, nOut) == IF NoBound THEN RulesCodeShaped(flag, 0, nOut) ELSE RulesCodeShaped(flag, idx, nOut)
RulesAgree == IsCase => RulesBip(c.flag, c.idx, c.nout) = Code(c.flag, c.idx, c.nout)
SingleOutOfRangeZero ==
    (IsCase /\ BaseType(c.flag) = SIGHASH_SINGLE /\ c.idx >= c.nout) => RulesBip(c.flag, c.idx, c.nout).outputs = "zero"
TableAsStated == IsCase =>
    LET d == RulesBip(c.flag, c.idx, c.nout) IN
    /\ d.prevouts <=> c.flag \in {1, 2, 3}
    /\ d.sequence <=> c.flag = 1
    /\ (d.outputs = "all") <=> c.flag \in {1, 129}
    /\ (d.outputs = "single") <=> (c.flag \in {3, 131} /\ c.idx < c.nout)

(* a concrete transaction whose fields are pairwise distinct *)
Ins  == [i \in 1..c.nin |-> [prev |-> Rep(i, 32) \o <<i, 0, 0, 7>>, seq |-> <<100 + i, 1, 2, 3>>]]
Outs == [i \in 1..c.nout |-> <<50 + i, 0, 0, 0, 0, 0, 0, 0, i>> \o Rep(200 + i, i)]
V4 == <<2, 0, 0, 9>>
L4 == <<5, 6, 7, 8>>
A8 == <<1, 2, 3, 4, 5, 6, 7, 8>>
SC == Rep(172, 3 + c.idx)
Seg(P, a, n) == SubSeq(P, a, a + n - 1)
LayoutCorrect == IsCase =>
    LET n == Len(SC)
        P == Preimage(V4, Ins, Outs, c.idx, A8, SC, c.flag, L4) IN
    /\ Len(P) = 4 + 32 + 32 + 36 + 1 + n + 8 + 4 + 32 + 4 + 4
    /\ Seg(P, 1, 4) = V4
    /\ Seg(P, 5, 32) = (IF c.flag \in {1, 2, 3} THEN Hash256(ConcatPrev(Ins)) ELSE Zero32)
    /\ Seg(P, 37, 32) = (IF c.flag = 1 THEN Hash256(ConcatSeq(Ins)) ELSE Zero32)
    /\ Seg(P, 69, 36) = Ins[c.idx + 1].prev
    /\ Seg(P, 105, 1 + n) = <<n>> \o SC
    /\ Seg(P, 106 + n, 8) = A8
    /\ Seg(P, 114 + n, 4) = Ins[c.idx + 1].seq
    /\ Seg(P, 118 + n, 32) = (IF c.flag \in {1, 129} THEN Hash256(Concat(Outs))
                           ELSE IF c.flag \in {3, 131} /\ c.idx < c.nout THEN Hash256(Outs[c.idx + 1])
                           ELSE Zero32)
    /\ Seg(P, 150 + n, 4) = L4
    /\ Seg(P, 154 + n, 4) = <<c.flag, 0, 0, 0>>
    /\ Len(ConcatPrev(Ins)) = 36 * c.nin /\ Len(ConcatSeq(Ins)) = 4 * c.nin
=============================================================================
