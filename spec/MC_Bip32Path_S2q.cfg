CONSTANTS Big = FALSE CP = 67 CB = 7 CN = 79 CGx = 2 CGy = 22
NSeeds = 6 MaxLen = 2
IdxSel = {1, 2, 3, 4, 5, 6}
INIT Init
NEXT Next
INVARIANT FoldInv
INVARIANT PrefixInv
INVARIANT Compose
INVARIANT Bookkeeping
INVARIANT HardenedNeedsPrivate
INVARIANT PubPrivCommute
INVARIANT RoundTrip
INVARIANT Census
CHECK_DEADLOCK FALSE
