CONSTANTS Big = FALSE CP = 43 CB = 7 CN = 31 CGx = 2 CGy = 12
Dev = {}
Parts = {"hash", "base58", "bech32", "addr", "wif", "pubkey", "key", "mnemonic", "hd", "script", "tx", "blockchain", "sig"}
Emit = "class"
Size = "q"
INIT Init
NEXT Next
INVARIANT HashThm
INVARIANT Base58Pair
INVARIANT Bech32Pair
INVARIANT SegwitPair
INVARIANT AddrThm
INVARIANT WifPair
INVARIANT PubkeyThm
INVARIANT KeyThm
INVARIANT MnemonicPair
INVARIANT HdThm
INVARIANT ScriptPair
INVARIANT TxPair
INVARIANT ChainThm
INVARIANT SigThm
INVARIANT EmitRow
CHECK_DEADLOCK FALSE
