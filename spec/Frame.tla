-------------------------------- MODULE Frame --------------------------------
(***************************************************************************)
(* C17 - receiving one framed P2P message from a byte stream               *)
(* (bits.p2p.recv_msg), as a two-phase accumulate machine.                 *)
(*                                                                         *)
(* The stream is a sequence of bytes followed by EOF (the peer closed the  *)
(* connection).  The network decides how many bytes each recv() returns.   *)
(* One action per recv() call:                                             *)
(*   Recv(c)     the receiver asks for need - got bytes (never more: it    *)
(*               must not touch the next message) and gets c >= 1 of them  *)
(*   RecvEOF     nothing is left and the peer has closed: recv() returns   *)
(*               b"" - the call must end with an error                     *)
(* and one per decision of the receiver:                                   *)
(*   HeaderDone  24 header bytes are in: the declared payload length is    *)
(*               the new need; a zero length skips the payload phase       *)
(*   Verify      length, checksum (first 4 bytes of HASH256(payload)) and  *)
(*               network magic; any mismatch is an error                   *)
(*   Call        the caller asks for the next message of the same stream   *)
(* The 12-byte command field is not covered by the checksum: whatever it   *)
(* holds (trailing NULs stripped) is the command that is returned.         *)
(*                                                                         *)
(* Named deviation SpinOnEOF (TRUE only in a self-test config): the pinned *)
(* code appends the empty read and asks again, forever.                    *)
(***************************************************************************)
EXTENDS Prim

CONSTANTS Magic,       \* the 4 network magic bytes this node expects
          SpinOnEOF    \* BOOLEAN

H   == 24              \* header: magic 4 | command 12 | length 4 (LE) | checksum 4
Sat == 2147483647      \* a declared length >= 2^31 does not fit TLC's integers: "more than any stream here holds"

VARIABLES stream,      \* all bytes the peer sends before closing
          cursor,      \* bytes consumed from the stream so far
          base,        \* offset in the stream at which the current call started
          calls,       \* number of the current call (1, 2, ...)
          phase,       \* "hdr" | "pay" | "verify" | "ret" | "err"
          got, need,   \* bytes accumulated / wanted in the current phase
          out          \* result of the current call
vars == <<stream, cursor, base, calls, phase, got, need, out>>

Avail     == Len(stream) - cursor
Header    == SubSeq(stream, base + 1, base + H)
Payload   == SubSeq(stream, base + H + 1, base + H + need)
DeclLen(h) == IF h[20] >= 128 THEN Sat ELSE FromLE(SubSeq(h, 17, 20))
RECURSIVE StripTrailingZeros(_)
StripTrailingZeros(s) == IF s # <<>> /\ s[Len(s)] = 0 THEN StripTrailingZeros(SubSeq(s, 1, Len(s) - 1)) ELSE s
Checksum(p) == SubSeq(Hash256(p), 1, 4)

NoOut       == [k |-> "none", magic |-> <<>>, cmd |-> <<>>, payload |-> <<>>]
ErrOut(why) == [k |-> why, magic |-> <<>>, cmd |-> <<>>, payload |-> <<>>]
MsgOut(h, p) == [k |-> "msg", magic |-> SubSeq(h, 1, 4), cmd |-> StripTrailingZeros(SubSeq(h, 5, 16)), payload |-> p]

(* the serialiser (bits.p2p.msg_ser): cmd is the unpadded command *)
FrameSer(magic, cmd, payload) ==
    magic \o cmd \o Rep(0, 12 - Len(cmd)) \o LE(Len(payload), 4) \o Checksum(payload) \o payload

TypeOK == /\ phase \in {"hdr", "pay", "verify", "ret", "err"}
          /\ cursor \in 0..Len(stream) /\ base \in 0..cursor
          /\ got \in 0..need
          /\ out.k \in {"none", "msg", "eof", "bad"}

InitWith(s) == /\ stream = s /\ cursor = 0 /\ base = 0 /\ calls = 1
               /\ phase = "hdr" /\ got = 0 /\ need = H /\ out = NoOut

Recv(c) == /\ phase \in {"hdr", "pay"} /\ got < need /\ Avail > 0
           /\ c \in 1..Min(need - got, Avail)
           /\ got' = got + c /\ cursor' = cursor + c
           /\ UNCHANGED <<stream, base, calls, phase, need, out>>

RecvEOF == /\ phase \in {"hdr", "pay"} /\ got < need /\ Avail = 0
           /\ IF SpinOnEOF THEN UNCHANGED <<phase, out>>
                           ELSE phase' = "err" /\ out' = ErrOut("eof")
           /\ UNCHANGED <<stream, cursor, base, calls, got, need>>

HeaderDone == /\ phase = "hdr" /\ got = need
              /\ LET d == DeclLen(Header)
                 IN  /\ phase' = IF d = 0 THEN "verify" ELSE "pay"
                     /\ need' = d /\ got' = 0
              /\ UNCHANGED <<stream, cursor, base, calls, out>>

PayloadDone == /\ phase = "pay" /\ got = need
               /\ phase' = "verify"
               /\ UNCHANGED <<stream, cursor, base, calls, got, need, out>>

Verify == /\ phase = "verify"
          /\ IF /\ Len(Payload) = DeclLen(Header)
                /\ SubSeq(Header, 21, 24) = Checksum(Payload)
                /\ SubSeq(Header, 1, 4) = Magic
             THEN phase' = "ret" /\ out' = MsgOut(Header, Payload)
             ELSE phase' = "err" /\ out' = ErrOut("bad")
          /\ UNCHANGED <<stream, cursor, base, calls, got, need>>

Call == /\ phase = "ret" /\ Avail > 0
        /\ phase' = "hdr" /\ base' = cursor /\ calls' = calls + 1 /\ got' = 0 /\ need' = H /\ out' = NoOut
        /\ UNCHANGED <<stream, cursor>>

Decide == HeaderDone \/ PayloadDone \/ Verify
RecvAny == \E c \in 1..Min(need - got, Avail) : Recv(c)
Next == RecvAny \/ RecvEOF \/ Decide \/ Call

(* the stream always delivers something or EOF; the receiver always takes its next decision *)
Fair == WF_vars(Next)

(* every call ends; and the whole stream is eventually either consumed message by message or abandoned on an error *)
EachCallEnds == [](phase \in {"hdr", "pay", "verify"} => <>(phase \in {"ret", "err"}))
AllDone      == <>[](phase = "err" \/ (phase = "ret" /\ Avail = 0))
=============================================================================
