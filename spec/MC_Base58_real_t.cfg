CONSTANTS InB = 256  OutB = 58  MaxIn = 2  MaxOut = 3
INIT Init
NEXT Next
INVARIANT RoundTripIn
INVARIANT RoundTripOut
INVARIANT DigitsInRange
CHECK_DEADLOCK FALSE
