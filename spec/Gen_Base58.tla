----------------------------- MODULE Gen_Base58 -----------------------------
(* Stage B: TLC enumerates short byte strings / Base58 strings at the REAL    *)
(* radices and writes, for each, what the specification says the codec must  *)
(* return; the harness replays every row into bits.base58.                   *)
EXTENDS Base58, Json, IOUtils, TLC, FiniteSets, SequencesExt
CONSTANTS MaxBytes, MaxStr, ByteAlpha, StrAlpha
RECURSIVE Strings(_, _)
Strings(alpha, n) == IF n = 0 THEN {<<>>}
                     ELSE LET S == Strings(alpha, n - 1)
                          IN S \cup {Append(s, a) : s \in {t \in S : Len(t) = n - 1}, a \in alpha}
EncRows == {[op |-> "enc", a |-> x, ok |-> TRUE, r |-> Enc(x)] : x \in Strings(ByteAlpha, MaxBytes)}
DecRows == {LET d == Dec(s) IN [op |-> "dec", a |-> s, ok |-> d.ok, r |-> d.v] : s \in Strings(StrAlpha, MaxStr)}
Rows == SetToSeq(EncRows \cup DecRows)
ASSUME JsonSerialize(IOEnv.OUT_FILE, Rows)
ASSUME PrintT(<<"ROWS", Len(Rows)>>)
=============================================================================
