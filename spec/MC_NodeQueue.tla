----------------------------- MODULE MC_NodeQueue -----------------------------
EXTENDS NodeQueue
CONSTANTS MsgsPerPeer, KindSet
(* tags make messages distinguishable: peer*10 + position (0 for payload-less kinds) *)
Tag(p, i, k) == IF k \in {"verack", "unknown"} THEN 0 ELSE p * 10 + i
Scripts == {[p \in Peers |-> [i \in 1..MsgsPerPeer |-> [k |-> ks[p][i], n |-> Tag(p, i, ks[p][i])]]]
              : ks \in [Peers -> [1..MsgsPerPeer -> KindSet]]}
Init == \E s \in Scripts : InitWith(s)
Spec == Init /\ [][Next]_vars
=============================================================================
