---------------------------- MODULE Trace_Bip39 ----------------------------
(* Stage C (C10): recorded calls judged at the real parameters (native = TRUE:  *)
(* SHA-256, PBKDF2-HMAC-SHA512, NFKD are the Java overrides).  Words are word   *)
(* indices; a word that is not in the list is an index >= 2048.                 *)
(*   enc  [ent, ok, r]        calculate_mnemonic_phrase                          *)
(*   dec  [idx, ok, r]        to_entropy                                         *)
(*   seed [m, p, ok, r]       to_seed (m, p = code points)                       *)
(*   last [idx, acc]          every alternative of the last word was tried: acc  *)
(*                            = the accepted alternatives as <<word, entropy>>   *)
(*   vec  [ent, idx, m, p, seed]   published vector (spec self-test)             *)
EXTENDS Bip39, Json, IOUtils, TLC, FiniteSets
Trace == JsonDeserialize(IOEnv.TRACE_FILE)
VARIABLE l

WithLast(idx, w) == [idx EXCEPT ![Len(idx)] = w]
VerdictLast(e) ==
    LET n    == Len(e.idx)
        alts == (0..2047) \ {e.idx[n]}
        good == {w \in alts : ToEntropy(WithLast(e.idx, w)).ok}
        got  == {e.acc[i][1] : i \in 1..Len(e.acc)}
    IN IF Cardinality(good) # Pow2(11 - ChecksumBits(n)) - 1 THEN "spec-accept-count"      \* sanity of the spec itself
       ELSE IF got \ good # {} THEN "dec-accepts-invalid"
       ELSE IF good \ got # {} THEN "dec-rejects-valid"
       ELSE IF \E i \in 1..Len(e.acc) : ToEntropy(WithLast(e.idx, e.acc[i][1])).v # e.acc[i][2] THEN "dec-wrong"
       ELSE "ok"

Verdict(e) ==
    CASE e.op = "enc" ->
           LET x == ToIndices(e.ent) IN
           IF x.ok # e.ok THEN (IF x.ok THEN "enc-rejects-valid-entropy" ELSE "enc-accepts-invalid-length")
           ELSE IF x.ok /\ e.r # x.v THEN "enc-wrong"
           ELSE IF x.ok /\ ToEntropy(e.r) # Ok(e.ent) THEN "spec-roundtrip"
           ELSE "ok"
      [] e.op = "dec" ->
           LET x == ToEntropy(e.idx) IN
           IF x.ok # e.ok THEN (IF x.ok THEN "dec-rejects-valid" ELSE "dec-accepts-invalid")
           ELSE IF x.ok /\ e.r # x.v THEN "dec-wrong"
           ELSE "ok"
      [] e.op = "seed" ->
           IF ~e.ok THEN "seed-raised"
           ELSE IF e.r # Seed(e.m, e.p) THEN "seed-wrong" ELSE "ok"
      [] e.op = "last" -> VerdictLast(e)
      [] e.op = "vec" ->
           IF ToIndices(e.ent) # Ok(e.idx) THEN "vector-mnemonic"
           ELSE IF ToEntropy(e.idx) # Ok(e.ent) THEN "vector-entropy"
           ELSE IF Seed(e.m, e.p) # e.seed THEN "vector-seed"
           ELSE "ok"
      [] OTHER -> "unknown-op"

Init == l = 1
Next == /\ l <= Len(Trace)
        /\ PrintT(<<"V", Trace[l].id, Verdict(Trace[l])>>)
        /\ l' = l + 1
=============================================================================
