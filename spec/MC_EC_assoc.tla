----------------------------- MODULE MC_EC_assoc -----------------------------
EXTENDS EC, FiniteSets
VARIABLE c
F == 0..(CP - 1)
Pts == {Inf} \cup {<<x, y>> \in F \X F : OnCurve(x, y)}
Init == c \in Pts \X Pts \X Pts
Next == UNCHANGED c
Assoc == PointAdd(PointAdd(c[1], c[2]), c[3]) = PointAdd(c[1], PointAdd(c[2], c[3]))
=============================================================================
