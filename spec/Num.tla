-------------------------------- MODULE Num --------------------------------
(***************************************************************************)
(* Numbers in two modes, selected by the constant Big:                     *)
(*   Big = FALSE  TLC integers (bounded models on small curves)            *)
(*   Big = TRUE   Native big naturals: canonical big-endian byte tuples    *)
(*                without leading zeros, zero = <<>> (secp256k1 size;      *)
(*                arithmetic through the Java overrides of Native.tla)     *)
(* The same specification text (EC, Ecdsa, Schnorr, Bip32, ...) is model-  *)
(* checked in the first mode and evaluated on implementation traces in the *)
(* second.                                                                 *)
(***************************************************************************)
EXTENDS Prim
CONSTANT Big

NZero        == IF Big THEN <<>> ELSE 0
NLit(i)      == IF Big THEN NatToBig(i) ELSE i          \* small literal -> number
NIsZero(a)   == a = NZero
NAdd(a, b)   == IF Big THEN BigAdd(a, b) ELSE a + b
NSub(a, b)   == IF Big THEN BigSub(a, b) ELSE a - b     \* requires a >= b
NMul(a, b)   == IF Big THEN BigMul(a, b) ELSE a * b
NDiv(a, b)   == IF Big THEN BigDiv(a, b) ELSE a \div b
NMod(a, m)   == IF Big THEN BigMod(a, m) ELSE a % m
NAddMod(a, b, m) == IF Big THEN BigAddMod(a, b, m) ELSE (a + b) % m
NSubMod(a, b, m) == IF Big THEN BigSubMod(a, b, m) ELSE ((a % m) + m - (b % m)) % m
NMulMod(a, b, m) == IF Big THEN BigMulMod(a, b, m) ELSE ((a % m) * (b % m)) % m
NPowMod(a, e, m) == IF Big THEN BigPowMod(a, e, m) ELSE NatPowMod(a % m, e, m)
NLt(a, b)    == IF Big THEN BigLt(a, b) ELSE a < b
NLe(a, b)    == a = b \/ NLt(a, b)
NBitLen(a)   == IF Big THEN BigBitLen(a) ELSE NatBitLen(a)               \* a TLC integer
NTestBit(a, i) == IF Big THEN BigTestBit(a, i) ELSE ((a \div Pow2(i)) % 2) = 1
NOdd(a)      == NTestBit(a, 0)
NHalf(a)     == IF Big THEN BigShr(a, 1) ELSE a \div 2
NXor(a, b)   == IF Big THEN BigXor(a, b) ELSE NatXor(a, b)
(* byte-string conversions *)
NFromBE(b)   == IF Big THEN StripZeros(b) ELSE FromBE(b)
NToBE(a, w)  == IF Big THEN BigToBE(a, w) ELSE BE(a, w)                  \* fixed width w, requires a < 256^w
NMinBE(a)    == IF Big THEN a ELSE NatToBig(a)                           \* minimal big-endian bytes (<<>> for 0)
NByteLen(a)  == Len(NMinBE(a))
(* modular inverse for prime modulus (Fermat) *)
NInvMod(a, m) == NPowMod(a, NSub(m, NLit(2)), m)
=============================================================================
