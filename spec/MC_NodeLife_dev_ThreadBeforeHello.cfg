\* vacuity guard: with the deviation ThreadBeforeHello enabled TLC MUST report a violation
CONSTANTS NPeers = 1  MaxMsgs = 1  Kinds = {"ping", "inv"}  Faults = TRUE
MaxStops = 1  MaxIbd = 0  DirectKinds = {}  MaxDirect = 0  Devs = {"ThreadBeforeHello"}
SeedSet = {1}  RpcSet = {FALSE}
SPECIFICATION Spec
INVARIANT HelloFirst
CHECK_DEADLOCK FALSE
