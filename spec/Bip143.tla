------------------------------- MODULE Bip143 -------------------------------
(***************************************************************************)
(* BIP143 signature message for version-0 witness programs (C11).          *)
(*                                                                         *)
(*   Preimage = nVersion(4) ++ hashPrevouts(32) ++ hashSequence(32)        *)
(*              ++ outpoint(36) ++ CompactSize(|scriptCode|) ++ scriptCode *)
(*              ++ amount(8) ++ nSequence(4) ++ hashOutputs(32)            *)
(*              ++ nLockTime(4) ++ sighash type(4, little endian)          *)
(*                                                                         *)
(* Which of the three hashes is computed or zeroed is written TWICE:       *)
(*   RulesBip        from the BIP text: base type = flag & 0x1f,           *)
(*                   ANYONECANPAY = flag & 0x80                            *)
(*   RulesCodeShaped membership lists over the six standard flag bytes     *)
(* and stage A proves that they agree on the whole decision table.         *)
(* ins = sequence of [prev (36 bytes), seq (4 bytes)], outs = sequence of  *)
(* serialised outputs (amount(8) ++ CompactSize ++ scriptPubKey), idx is   *)
(* 0-based, all 4/8-byte fields are little-endian byte sequences.          *)
(***************************************************************************)
EXTENDS Prim

SIGHASH_ALL == 1
SIGHASH_NONE == 2
SIGHASH_SINGLE == 3
SIGHASH_ANYONECANPAY == 128
StandardFlags == {1, 2, 3, 129, 130, 131}

BaseType(flag) == flag % 32                      \* flag & 0x1f
AnyoneCanPay(flag) == ((flag \div 128) % 2) = 1  \* flag & 0x80

(* decision: which hashes are real; outputs is "all", "single" or "zero" *)
RulesBip(flag, idx, nOut) ==
    [prevouts |-> ~AnyoneCanPay(flag),
     sequence |-> ~AnyoneCanPay(flag) /\ BaseType(flag) # SIGHASH_SINGLE /\ BaseType(flag) # SIGHASH_NONE,
     outputs  |-> IF BaseType(flag) # SIGHASH_SINGLE /\ BaseType(flag) # SIGHASH_NONE THEN "all"
                  ELSE IF BaseType(flag) = SIGHASH_SINGLE /\ idx < nOut THEN "single"
                  ELSE "zero"]
RulesCodeShaped(flag, idx, nOut) ==
    [prevouts |-> flag \notin {129, 130, 131},
     sequence |-> flag \notin {2, 3, 129, 130, 131},
     outputs  |-> IF flag \in {1, 129} THEN "all"
                  ELSE IF flag \in {3, 131} /\ idx < nOut THEN "single"
                  ELSE "zero"]

Zero32 == Rep(0, 32)
VarInt(n) == IF n < 253 THEN <<n>> ELSE IF n < 65536 THEN <<253>> \o LE(n, 2) ELSE <<254>> \o LE(n, 4)
RECURSIVE ConcatPrev(_)
ConcatPrev(ins) == IF ins = <<>> THEN <<>> ELSE Head(ins).prev \o ConcatPrev(Tail(ins))
RECURSIVE ConcatSeq(_)
ConcatSeq(ins) == IF ins = <<>> THEN <<>> ELSE Head(ins).seq \o ConcatSeq(Tail(ins))

HashPrevouts(ins, d) == IF d.prevouts THEN Hash256(ConcatPrev(ins)) ELSE Zero32
HashSequence(ins, d) == IF d.sequence THEN Hash256(ConcatSeq(ins)) ELSE Zero32
HashOutputs(outs, idx, d) == IF d.outputs = "all" THEN Hash256(Concat(outs))
                             ELSE IF d.outputs = "single" THEN Hash256(outs[idx + 1])
                             ELSE Zero32

PreimageWith(d, version4, ins, outs, idx, amount8, scriptCode, flag, lock4) ==
    version4 \o HashPrevouts(ins, d) \o HashSequence(ins, d)
    \o ins[idx + 1].prev \o VarInt(Len(scriptCode)) \o scriptCode \o amount8 \o ins[idx + 1].seq
    \o HashOutputs(outs, idx, d) \o lock4 \o LE(flag, 4)
Preimage(version4, ins, outs, idx, amount8, scriptCode, flag, lock4) ==
    PreimageWith(RulesBip(flag, idx, Len(outs)), version4, ins, outs, idx, amount8, scriptCode, flag, lock4)
Digest(preimage) == Hash256(preimage)
=============================================================================
