CONSTANTS MaxEnv = 1  MaxNonce = 200000  DevMedianTime = FALSE  DevSkipNonceZero = FALSE
          SubsidyBase <- BaseReal
INIT Init
NEXT TraceNext
CHECK_DEADLOCK FALSE
