-------------------------------- MODULE Bip39 --------------------------------
(***************************************************************************)
(* BIP39 (C10) on word INDICES (the harness maps words <-> indices through *)
(* the repository's english.txt, whose content is pinned by its published  *)
(* SHA-256).  The generic operators work on bit sequences and are          *)
(* parametric in the group width W, the checksum unit U (checksum =        *)
(* ENT/U leading bits of the hash of the entropy), the set of valid        *)
(* entropy bit lengths and the hash - so the same definitions are model-   *)
(* checked exhaustively on a scaled instance (MC_Bip39) and evaluated at   *)
(* W = 11, U = 32, SHA-256 on implementation traces.                       *)
(***************************************************************************)
EXTENDS Prim

(* ---- bits (most significant first) ---- *)
ByteBits(x) == [i \in 1..8 |-> (x \div Pow2(8 - i)) % 2]
BytesToBits(b) == [i \in 1..(8 * Len(b)) |-> (b[((i - 1) \div 8) + 1] \div Pow2(7 - ((i - 1) % 8))) % 2]
RECURSIVE BitsValueAcc(_, _, _)
BitsValueAcc(bits, i, acc) == IF i > Len(bits) THEN acc ELSE BitsValueAcc(bits, i + 1, (2 * acc) + bits[i])
BitsValue(bits) == BitsValueAcc(bits, 1, 0)
BitsToBytes(bits) == [i \in 1..(Len(bits) \div 8) |-> BitsValue(SubSeq(bits, (8 * (i - 1)) + 1, 8 * i))]
ValueBits(v, w) == [i \in 1..w |-> (v \div Pow2(w - i)) % 2]

(* ---- generic BIP39 ---- *)
ToIndicesG(ent, W, U, ValidEnt, HB(_)) ==
    IF Len(ent) \notin ValidEnt THEN Fail
    ELSE LET all == ent \o Take(HB(ent), Len(ent) \div U)
         IN Ok([i \in 1..(Len(all) \div W) |-> BitsValue(SubSeq(all, (W * (i - 1)) + 1, W * i))])

ValidWordCounts(W, U, ValidEnt) == {(e + (e \div U)) \div W : e \in ValidEnt}
(* the entropy bits a word sequence of valid length carries (whatever its checksum bits say) *)
AllBits(idx, W) == [i \in 1..(W * Len(idx)) |-> (idx[((i - 1) \div W) + 1] \div Pow2((W - 1) - ((i - 1) % W))) % 2]
EntBitsOf(idx, W, U) ==
    LET all == AllBits(idx, W)
        cs  == Len(all) \div (U + 1)
    IN Take(all, Len(all) - cs)
ToEntropyG(idx, W, U, ValidEnt, ListSize, HB(_)) ==
    IF Len(idx) \notin ValidWordCounts(W, U, ValidEnt) THEN Fail
    ELSE IF \E i \in 1..Len(idx) : idx[i] >= ListSize THEN Fail
    ELSE LET all == AllBits(idx, W)
             cs  == Len(all) \div (U + 1)
             ent == Take(all, Len(all) - cs)
         IN IF Drop(all, Len(all) - cs) = Take(HB(ent), cs) THEN Ok(ent) ELSE Fail

(* ---- the real parameters ---- *)
RealValidEnt == {128, 160, 192, 224, 256}
RealHB(bits) == BytesToBits(Sha256(BitsToBytes(bits)))
ToIndices(entropy) == ToIndicesG(BytesToBits(entropy), 11, 32, RealValidEnt, RealHB)
ToEntropy(idx) == LET r == ToEntropyG(idx, 11, 32, RealValidEnt, 2048, RealHB)
                  IN IF r.ok THEN Ok(BitsToBytes(r.v)) ELSE Fail
ChecksumBits(nwords) == nwords \div 3

(* ---- seed: PBKDF2-HMAC-SHA512(NFKD(mnemonic), "mnemonic" ++ NFKD(passphrase), 2048, 64) on code points ---- *)
MnemonicLiteral == <<109, 110, 101, 109, 111, 110, 105, 99>>
Seed(mnemonicCps, passCps) ==
    Pbkdf2Sha512(NfkdUtf8(mnemonicCps), NfkdUtf8(MnemonicLiteral) \o NfkdUtf8(passCps), 2048, 64)
=============================================================================
