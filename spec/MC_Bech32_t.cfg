CONSTANTS
Vers = {0,1,2,3,4,5,6,7,8,9,10,11,12,13,14,15,16}
Lens = {2,3,4,5,6,7,8,9,10,11,12,13,14,15,16,17,18,19,20,21,22,23,24,25,26,27,28,29,30,31,32,33,34,35,36,37,38,39,40}
InvVers = {0,1,2,3,4,5,6,7,8,9,10,11,12,13,14,15,16,17,18,19,20,21,22,23,24,25,26,27,28,29,30,31}
InvLens = {0,1,2,3,4,5,6,7,8,9,10,11,12,13,14,15,16,17,18,19,20,21,22,23,24,25,26,27,28,29,30,31,32,33,34,35,36,37,38,39,40,41,42}
SubKinds = {0,1}
EmitRows = TRUE
Deviation = "none"
INIT Init
NEXT Next
INVARIANT RoundTrip
INVARIANT UpperAccepted
INVARIANT MixedRejected
INVARIANT SwapRejected
INVARIANT PadRejected
INVARIANT ExtraSymbolCanonical
INVARIANT InvalidRejected
INVARIANT SubRejected
INVARIANT Emit
CHECK_DEADLOCK FALSE
