CONSTANTS Big = FALSE CP = 67 CB = 7 CN = 79 CGx = 2 CGy = 22
SignMsgs = {0,1,2}
SignAuxs = {0,1}
VerMsgs = {2}
CountPks = {2,3}
LenDs = {1,2,3,77,78}
EmitRows = TRUE
Dev = "none"
INIT Init
NEXT Next
INVARIANT SignDomain
INVARIANT SignSound
INVARIANT VerifyExact
INVARIANT WhyConsistent
INVARIANT LiftExact
INVARIANT OneSPerR
INVARIANT LenStrict
INVARIANT Emit
CHECK_DEADLOCK FALSE
