--------------------------- MODULE Trace_NodeQueue ---------------------------
(***************************************************************************)
(* Stage C for C18: executions of the real Node.recv_loop threads under    *)
(* the controlled scheduler, one JSON record per execution:                *)
(*   [id, script, ev : Seq(event), final : [queue, sent, vdata]]           *)
(* Each event is matched to the NodeQueue action it must be (both the      *)
(* intended discipline and the named enqueue-then-pop deviation are        *)
(* explainable); the property's clauses are evaluated on every step and on *)
(* the observed final state.  One verdict per execution.                   *)
(***************************************************************************)
EXTENDS NodeQueue, Json, IOUtils, TLC
Execs == JsonDeserialize(IOEnv.TRACE_FILE)

VARIABLES t,        \* execution being validated
          l,        \* next event (0 = not started)
          verdict   \* first failing clause so far, "" if none
tvars == <<vars, t, l, verdict>>

X      == Execs[t]
Ev     == X.ev[l]
Scr(x) == [p \in Peers |-> [i \in 1..Len(x.script[p]) |-> [k |-> x.script[p][i].k, n |-> x.script[p][i].n]]]
Tup(m) == <<m[1], m[2], m[3]>>

Note(v, clause) == IF v = "" THEN clause ELSE v

(* a silent step: the verack handler has no observable effect *)
SilentEnabled(p) == pc[p] = "handle" /\ Cur(p).k = "verack"
Silent == /\ l > 0 /\ l <= Len(X.ev)
          /\ \E p \in Peers : SilentEnabled(p) /\ Handle(p)
          /\ UNCHANGED <<t, l, verdict>>
NoSilent == \A p \in Peers : ~SilentEnabled(p)

Start == /\ t <= Len(Execs) /\ l = 0
         /\ script' = Scr(X) /\ pc' = [p \in Peers |-> "recv"] /\ idx' = [p \in Peers |-> 0]
         /\ queue' = <<>> /\ sent' = [p \in Peers |-> Hello] /\ vdata' = [p \in Peers |-> 0]
         /\ l' = 1 /\ verdict' = "" /\ t' = t

(* which NodeQueue action explains event e (as a string), or "none" *)
Explains(e) ==
    LET p == e.p IN
    IF p \notin Peers THEN "none"
    ELSE CASE e.op = "recv"   -> IF pc[p] = "recv" /\ idx[p] < Len(script[p])
                                    /\ script[p][idx[p] + 1].k = e.k /\ script[p][idx[p] + 1].n = e.n THEN "Recv" ELSE "none"
           [] e.op = "exit"   -> IF pc[p] = "recv" /\ idx[p] = Len(script[p]) THEN "Finish" ELSE "none"
           [] e.op = "test"   -> IF pc[p] = "got" THEN "Test" ELSE IF pc[p] = "rtest" THEN "RTest" ELSE "none"
           [] e.op = "append" -> IF pc[p] = "enq" /\ Tup(e.m) = Msg(p) THEN "Enqueue"
                                 ELSE IF pc[p] = "got" /\ Tup(e.m) = Msg(p) THEN "RAppend" ELSE "none"
           [] e.op = "pop"    -> IF pc[p] = "rpop" /\ queue # <<>> /\ Tup(e.m) = queue[Len(queue)] THEN "RPop" ELSE "none"
           [] e.op = "send"   -> IF pc[p] = "handle" /\ e.to = p /\ Reply(Cur(p)) = <<<<e.m[1], e.m[2]>>>> THEN "Handle" ELSE "none"
           [] OTHER -> "none"

Act(name, p) == CASE name = "Recv" -> Recv(p) [] name = "Finish" -> Finish(p) [] name = "Test" -> Test(p)
                  [] name = "RTest" -> RTest(p) [] name = "Enqueue" -> Enqueue(p) [] name = "RAppend" -> RAppend(p)
                  [] name = "RPop" -> RPop(p) [] name = "Handle" -> Handle(p)

StepEvent == /\ l > 0 /\ l <= Len(X.ev) /\ NoSilent
             /\ Explains(Ev) # "none"
             /\ Act(Explains(Ev), Ev.p)
             /\ l' = l + 1 /\ t' = t
             /\ verdict' = IF ~NeverRemovedStep(queue, queue') THEN Note(verdict, "queued-message-removed")
                           ELSE IF ~RepliesPrefixOf(sent') THEN Note(verdict, "reply-wrong-or-misdirected")
                           ELSE IF "ql" \in DOMAIN Ev /\ Ev.ql # Len(queue') THEN Note(verdict, "queue-length-diverges")
                           ELSE verdict

(* an event no action explains (a refactored shape): stop matching, judge the observed final state only *)
Unexplained == /\ l > 0 /\ l <= Len(X.ev) /\ NoSilent
               /\ Explains(Ev) = "none"
               /\ l' = Len(X.ev) + 2 /\ t' = t /\ verdict' = verdict
               /\ UNCHANGED vars

FinalVerdict(v, explained) ==
    LET f  == X.final
        q  == [i \in 1..Len(f.queue) |-> Tup(f.queue[i])]
        s  == [p \in Peers |-> [i \in 1..Len(f.sent[p]) |-> <<f.sent[p][i][1], f.sent[p][i][2]>>]]
        vd == [p \in Peers |-> f.vdata[p]]
    IN  IF v # "" THEN v
        ELSE IF ~NoStrangersOf(q) THEN "queue-misattributed"
        ELSE IF ~ExactlyOnceOf(q) THEN "queue-not-exactly-once"
        ELSE IF ~RepliesExactOf(s) THEN "replies-not-exact"
        ELSE IF ~VersionStoredOf(vd) THEN "version-not-stored"
        ELSE IF explained /\ ~(q = queue /\ s = sent /\ vd = vdata) THEN "observed-state-diverges-from-spec"
        ELSE IF explained /\ ~Quiescent THEN "threads-not-finished"
        ELSE IF explained THEN "ok" ELSE "ok-unexplained-shape"

Finish1 == /\ l = Len(X.ev) + 1 /\ NoSilent      \* all events explained
           /\ PrintT(<<"V", X.id, FinalVerdict(verdict, TRUE)>>)
           /\ t' = t + 1 /\ l' = 0 /\ verdict' = "" /\ UNCHANGED vars
Finish2 == /\ l = Len(X.ev) + 2                 \* gave up matching
           /\ PrintT(<<"V", X.id, FinalVerdict(verdict, FALSE)>>)
           /\ t' = t + 1 /\ l' = 0 /\ verdict' = "" /\ UNCHANGED vars
SilentTail == /\ l = Len(X.ev) + 1 /\ ~NoSilent
              /\ \E p \in Peers : SilentEnabled(p) /\ Handle(p)
              /\ UNCHANGED <<t, l, verdict>>

TInit == /\ t = 1 /\ l = 0 /\ verdict = ""
         /\ script = <<>> /\ pc = <<>> /\ idx = <<>> /\ queue = <<>> /\ sent = <<>> /\ vdata = <<>>
TNext == /\ t <= Len(Execs)
         /\ (Start \/ Silent \/ StepEvent \/ Unexplained \/ Finish1 \/ Finish2 \/ SilentTail)
=============================================================================
