-------------------------------- MODULE MC_Tx --------------------------------
(* Stage A for Tx (C05 round trip, C04 identifiers).                          *)
(* A case is a well-formed transaction t from the bounded grammar below plus  *)
(* a trailing byte string u; the buffer is TxSer(t) \o u.  TLC then runs the  *)
(* parsing machine of Tx.tla, one ACTION per grammar element, and the         *)
(* invariants compare the machine's result with (t, u).  Cases are successors *)
(* of partition states (first input) so that the workers share them.          *)
(* Deviation = "none" in every real check; self-test configs enable a named   *)
(* deviation of the pinned code and TLC must produce a counterexample.        *)
EXTENDS Tx, FiniteSets
CONSTANTS Scripts, Seqs, Stacks, OutChoices, MaxIn, MaxOut, TrailKinds, Deviation
VARIABLES c, m
vars == <<c, m>>

(* ---- grammar pieces selectable from the cfg files ---- *)
ScriptsQ == {<<>>, <<0>>}
ScriptsT == {<<>>, <<0>>, <<1, 253>>}
ScriptsR == {Rep(0, 252), Rep(1, 253), [i \in 1..65536 |-> i % 251]}      \* real CompactSize boundaries
SeqsQ    == {<<255, 255, 255, 255>>, <<254, 255, 255, 255>>, <<0, 0, 0, 0>>}
SeqsR    == {<<254, 255, 255, 255>>}
StacksQ  == {<<>>, << <<>> >>, << <<1>>, <<>> >>, << <<0, 1>>, <<253>> >>}
StacksT  == StacksQ \cup {<< <<0>> >>, << <<0>>, <<1>>, <<0, 0>> >>}
StacksR  == {<<>>, << Rep(7, 252), <<>>, Rep(0, 253) >>, << [i \in 1..65536 |-> i % 253] >>}
V1 == <<0, 0, 0, 0, 0, 0, 0, 0>>
V2 == <<0, 242, 5, 42, 1, 0, 0, 128>>
OutsQ == {TxOut(V1, <<>>), TxOut(V2, <<0>>)}
OutsT == OutsQ \cup {TxOut(V2, <<81, 0>>)}
OutsR == {TxOut(V2, Rep(0, 253))}

(* The toy hash bodies of Native.tla recurse once per byte, which TLC cannot do on buffers of  *)
(* 10^5 bytes; the real-size config substitutes this constant-depth stand-in (cfg: Sha256 <-). *)
SampleHash(msg) == [i \in 1..32 |-> IF msg = <<>> THEN i
                                   ELSE (msg[1 + ((i * 7919) % Len(msg))] + msg[Len(msg) - (i % Len(msg))] + Len(msg) + i) % 256]

TxidA == [i \in 1..32 |-> IF i < 3 THEN 0 ELSE IF i < 5 THEN 1 ELSE i]
Ins   == {TxIn(TxidA, <<1, 0, 0, 0>>, s, q) : s \in Scripts, q \in Seqs}
RECURSIVE SeqsOver(_, _)
SeqsOver(S, n) == IF n = 0 THEN {<<>>} ELSE {Append(s, x) : s \in SeqsOver(S, n - 1), x \in S}
SeqsUpTo(S, lo, hi) == UNION {SeqsOver(S, k) : k \in lo..hi}
WitChoices(n) == {<<>>} \cup {w \in SeqsOver(Stacks, n) : \E i \in 1..n : w[i] # <<>>}
Version  == <<2, 0, 0, 0>>
Locktime == <<0, 0, 0, 0>>

Trail(kind, ser) ==
    CASE kind = "none"   -> <<>>
      [] kind = "zero"   -> <<0>>
      [] kind = "one"    -> <<1>>
      [] kind = "last"   -> <<ser[Len(ser) - 4]>>          \* a byte that occurs inside the transaction
      [] kind = "copy"   -> ser                             \* the same transaction again
      [] kind = "prefix" -> SubSeq(ser, 1, 6)               \* version + first bytes
      [] kind = "zeros"  -> <<0, 0, 0, 0, 0>>

Case(t, kind) == [k |-> "case", t |-> t, u |-> Trail(kind, TxSer(t))]
CasesWithFirst(i1) ==
    UNION {{Case(MkTx(Version, <<i1>> \o rest, outs, wit, Locktime), kind) :
                rest \in SeqsOver(Ins, n - 1), outs \in SeqsUpTo(OutChoices, 1, MaxOut),
                wit \in WitChoices(n), kind \in TrailKinds} : n \in 1..MaxIn}
Buffer == TxSer(c.t) \o c.u
Idle   == [pc |-> "Idle"]

Init == c \in {[k |-> "part", i1 |-> i] : i \in Ins} /\ m = Idle
Pick == /\ c.k = "part"
        /\ \E x \in CasesWithFirst(c.i1) :
              /\ c' = x
              /\ m' = DsInit(TxSer(x.t) \o x.u)
Ready(pc) == c.k = "case" /\ m.pc = pc
PVersion == Ready("Version") /\ m' = StepVersion(m) /\ UNCHANGED c
PInCountOrMarker == Ready("InCountOrMarker") /\ m' = StepInCountOrMarker(m) /\ UNCHANGED c
PFlag == Ready("Flag") /\ m' = StepFlag(m) /\ UNCHANGED c
PInCount == Ready("InCount") /\ m' = StepInCount(m) /\ UNCHANGED c
PInput == Ready("Input") /\ m' = StepInput(m) /\ UNCHANGED c
POutCount == Ready("OutCount") /\ m' = StepOutCount(m) /\ UNCHANGED c
POutput == Ready("Output") /\ m' = StepOutput(m) /\ UNCHANGED c
PWitCount == Ready("WitCount") /\ m' = StepWitCount(m) /\ UNCHANGED c
PWitItem == Ready("WitItem") /\ m' = StepWitItem(m) /\ UNCHANGED c
PLocktime == Ready("Locktime") /\ m' = StepLocktime(m) /\ UNCHANGED c
Next == \/ Pick \/ PVersion \/ PInCountOrMarker \/ PFlag \/ PInCount \/ PInput \/ POutCount \/ POutput
        \/ PWitCount \/ PWitItem \/ PLocktime

(* ---------------- clauses ---------------- *)
IsCase  == c.k = "case"
AtStart == IsCase /\ m.pc = "Version"
AtDone  == IsCase /\ m.pc = "Done"
Consumed == SubSeq(m.b, 1, m.pos - 1)
Rest     == Drop(m.b, m.pos - 1)
NoWit(t) == [t EXCEPT !.wit = <<>>]

CasesWellFormed     == IsCase => WellFormedTx(c.t)
ParseNeverFails     == IsCase => m.pc # "Fail"
FieldsRoundTrip     == AtDone => m.t = c.t
LeftoverExact       == AtDone => Rest = c.u /\ Consumed = TxSer(c.t)
ReserialiseIdentity == AtDone => TxSer(m.t) = Consumed
CursorInBounds      == IsCase => m.pos <= Len(m.b) + 1
(* the pure operator is the machine run to completion *)
OperatorAgrees      == AtStart => TxDeser(m.b) = Ok([t |-> c.t, consumed |-> TxSer(c.t), rest |-> c.u])
TruncationRefused   == AtStart /\ Len(m.b) <= 400 => \A k \in 0..(Len(TxSer(c.t)) - 1) : ~TxDeser(Take(m.b, k)).ok
(* markers: the witness form is used exactly for witness transactions *)
MarkerFlagIffWitness ==
    AtStart => LET s == TxSer(c.t) IN
               /\ HasWitness(c.t) <=> (s[5] = 0)
               /\ HasWitness(c.t) => s[6] = 1 /\ Len(s) > Len(TxSerNoWitness(c.t)) + 2

(* ---- C04: identifiers as the code under judgement would report them ---- *)
DefaultSeq(t) == [t EXCEPT !.ins = [i \in 1..Len(t.ins) |-> [t.ins[i] EXCEPT !.seq = <<255, 255, 255, 255>>]]]
TxidUT(t) == IF Deviation = "default-sequence" /\ HasWitness(t) THEN Txid(DefaultSeq(t)) ELSE Txid(t)   \* F7
RECURSIVE FindSub(_, _, _)
FindSub(b, s, i) == IF i + Len(s) - 1 > Len(b) THEN 0
                    ELSE IF SubSeq(b, i, i + Len(s) - 1) = s THEN i ELSE FindSub(b, s, i + 1)
RawUT(b, cons, rest) == IF Deviation = "raw-by-split" /\ rest # <<>>                                    \* F6
                        THEN SubSeq(b, 1, FindSub(b, rest, 1) - 1) ELSE cons

TxidIsHashOfNoWitnessForm ==
    AtDone => /\ TxidUT(m.t) = Hash256(TxSerNoWitness(c.t))
              /\ TxSerNoWitness(c.t) = TxSer(NoWit(c.t))
              /\ TxidUT(m.t) = Txid(NoWit(c.t))
WtxidIsHashOfFullForm == AtDone => Wtxid(m.t) = Hash256(RawUT(m.b, Consumed, Rest)) /\ Wtxid(m.t) = Hash256(TxSer(c.t))
NonWitnessIdsEqual    == AtDone /\ ~HasWitness(c.t) => TxidUT(m.t) = Wtxid(m.t)
RawIsConsumedBytes    == AtDone => RawUT(m.b, Consumed, Rest) = TxSer(c.t)
(* the same transaction alone gives the same answers *)
IdsIgnoreTrailing ==
    AtDone => LET alone == TxDeser(TxSer(c.t)) IN
              /\ alone.ok /\ alone.v.t = m.t /\ alone.v.rest = <<>>
              /\ alone.v.consumed = RawUT(m.b, Consumed, Rest)

(* ---- vacuity guards: these two "invariants" are FALSE by design; the self-test configs    *)
(* MC_Tx_reach_*.cfg require TLC to reach Done through every parsing action (TLC -coverage  *)
(* cannot be used on this module: its cost model explodes on the nested operators)          *)
ReachSegwitAllActions ==
    ~(AtDone /\ m.segwit /\ Len(m.t.ins) = 2 /\ Len(m.t.outs) = 2 /\ m.t = c.t /\ c.u # <<>>
      /\ (\E i \in 1..Len(m.t.wit) : Len(m.t.wit[i]) >= 2) /\ (\E i \in 1..Len(m.t.wit) : m.t.wit[i] = <<>>))
ReachLegacy == ~(AtDone /\ ~m.segwit /\ Len(m.t.ins) = 2 /\ m.t = c.t /\ c.u # <<>>)
=============================================================================
