-------------------------------- MODULE MC_Tx --------------------------------
(* Stage A for Tx (C05 round trip, C04 identifiers).                          *)
(* A case is a well-formed transaction t from the bounded grammar below plus  *)
(* a trailing byte string u; the buffer is TxSer(t) \o u.  TLC then runs the  *)
(* parsing machine of Tx.tla, one ACTION per grammar element, and the         *)
(* invariants compare the machine's result with (t, u).  Cases are successors *)
(* of partition states (first input) so that the workers share them.          *)
(* Deviation = "none" in every real check; self-test configs enable a named   *)
(* deviation of the pinned code and TLC must produce a counterexample.        *)
EXTENDS TxGrammar
CONSTANTS Deviation
VARIABLES c, m
vars == <<c, m>>

Buffer == TxSer(c.t) \o c.u
Idle   == [pc |-> "Idle"]

Init == c \in {[k |-> "part", i1 |-> i] : i \in Ins} /\ m = Idle
Pick == /\ c.k = "part"
        /\ \E x \in CasesWithFirst(c.i1) :
              /\ c' = x
              /\ m' = DsInit(TxSer(x.t) \o x.u)
Ready(pc) == c.k = "case" /\ m.pc = pc
PVersion == Ready("Version") /\ m' = StepVersion(m) /\ UNCHANGED c
PInCountOrMarker == Ready("InCountOrMarker") /\ m' = StepInCountOrMarker(m) /\ UNCHANGED c
PFlag == Ready("Flag") /\ m' = StepFlag(m) /\ UNCHANGED c
PInCount == Ready("InCount") /\ m' = StepInCount(m) /\ UNCHANGED c
PInput == Ready("Input") /\ m' = StepInput(m) /\ UNCHANGED c
POutCount == Ready("OutCount") /\ m' = StepOutCount(m) /\ UNCHANGED c
POutput == Ready("Output") /\ m' = StepOutput(m) /\ UNCHANGED c
PWitCount == Ready("WitCount") /\ m' = StepWitCount(m) /\ UNCHANGED c
PWitItem == Ready("WitItem") /\ m' = StepWitItem(m) /\ UNCHANGED c
PLocktime == Ready("Locktime") /\ m' = StepLocktime(m) /\ UNCHANGED c
Next == \/ Pick \/ PVersion \/ PInCountOrMarker \/ PFlag \/ PInCount \/ PInput \/ POutCount \/ POutput
        \/ PWitCount \/ PWitItem \/ PLocktime

(* ---------------- clauses ---------------- *)
IsCase  == c.k = "case"
AtStart == IsCase /\ m.pc = "Version"
AtDone  == IsCase /\ m.pc = "Done"
Consumed == SubSeq(m.b, 1, m.pos - 1)
Rest     == Drop(m.b, m.pos - 1)
NoWit(t) == [t EXCEPT !.wit = <<>>]

CasesWellFormed     == IsCase => WellFormedTx(c.t)
ParseNeverFails     == IsCase => m.pc # "Fail"
FieldsRoundTrip     == AtDone => m.t = c.t
LeftoverExact       == AtDone => Rest = c.u /\ Consumed = TxSer(c.t)
ReserialiseIdentity == AtDone => TxSer(m.t) = Consumed
CursorInBounds      == IsCase => m.pos <= Len(m.b) + 1
(* the pure operator is the machine run to completion *)
OperatorAgrees      == AtStart => TxDeser(m.b) = Ok([t |-> c.t, consumed |-> TxSer(c.t), rest |-> c.u])
TruncationRefused   == AtStart /\ Len(m.b) <= 400 => \A k \in 0..(Len(TxSer(c.t)) - 1) : ~TxDeser(Take(m.b, k)).ok
(* markers: the witness form is used exactly for witness transactions *)
MarkerFlagIffWitness ==
    AtStart => LET s == TxSer(c.t) IN
               /\ HasWitness(c.t) <=> (s[5] = 0)
               /\ HasWitness(c.t) => s[6] = 1 /\ Len(s) > Len(TxSerNoWitness(c.t)) + 2

(* ---- C04: identifiers as the code under judgement would report them ---- *)
DefaultSeq(t) == [t EXCEPT !.ins = [i \in 1..Len(t.ins) |-> [t.ins[i] EXCEPT !.seq = <<255, 255, 255, 255>>]]]
TxidUT(t) == IF Deviation = "default-sequence" /\ HasWitness(t) THEN Txid(DefaultSeq(t)) ELSE Txid(t)   \* F7
RECURSIVE FindSub(_, _, _)
FindSub(b, s, i) == IF i + Len(s) - 1 > Len(b) THEN 0
                    ELSE IF SubSeq(b, i, i + Len(s) - 1) = s THEN i ELSE FindSub(b, s, i + 1)
RawUT(b, cons, rest) == IF Deviation = "raw-by-split" /\ rest # <<>>                                    \* F6
                        THEN SubSeq(b, 1, FindSub(b, rest, 1) - 1) ELSE cons

TxidIsHashOfNoWitnessForm ==
    AtDone => /\ TxidUT(m.t) = Hash256(TxSerNoWitness(c.t))
              /\ TxSerNoWitness(c.t) = TxSer(NoWit(c.t))
              /\ TxidUT(m.t) = Txid(NoWit(c.t))
WtxidIsHashOfFullForm == AtDone => Wtxid(m.t) = Hash256(RawUT(m.b, Consumed, Rest)) /\ Wtxid(m.t) = Hash256(TxSer(c.t))
NonWitnessIdsEqual    == AtDone /\ ~HasWitness(c.t) => TxidUT(m.t) = Wtxid(m.t)
RawIsConsumedBytes    == AtDone => RawUT(m.b, Consumed, Rest) = TxSer(c.t)
(* the same transaction alone gives the same answers *)
IdsIgnoreTrailing ==
    AtDone => LET alone == TxDeser(TxSer(c.t)) IN
              /\ alone.ok /\ alone.v.t = m.t /\ alone.v.rest = <<>>
              /\ alone.v.consumed = RawUT(m.b, Consumed, Rest)

(* ---- vacuity guards: these two "invariants" are FALSE by design; the self-test configs    *)
(* MC_Tx_reach_*.cfg require TLC to reach Done through every parsing action (TLC -coverage  *)
(* cannot be used on this module: its cost model explodes on the nested operators)          *)
ReachSegwitAllActions ==
    ~(AtDone /\ m.segwit /\ Len(m.t.ins) = 2 /\ Len(m.t.outs) = 2 /\ m.t = c.t /\ c.u # <<>>
      /\ (\E i \in 1..Len(m.t.wit) : Len(m.t.wit[i]) >= 2) /\ (\E i \in 1..Len(m.t.wit) : m.t.wit[i] = <<>>))
ReachLegacy == ~(AtDone /\ ~m.segwit /\ Len(m.t.ins) = 2 /\ m.t = c.t /\ c.u # <<>>)
=============================================================================
