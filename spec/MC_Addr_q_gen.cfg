CONSTANTS Big = FALSE CP = 43 CB = 7 CN = 31 CGx = 2 CGy = 12
WitVers = {0,1,2,3,4,5,6,7,8,9,10,11,12,13,14,15,16}
WitLens = {2,3,5,20,32,33,40}
B58Vers = {0,1,4,5,6,110,111,112,128,195,196,197,255}
EmitRows = TRUE
Deviation = "none"
INIT Init
NEXT Next
INVARIANT RoundTrip
INVARIANT KeyToP2PK
INVARIANT MalformedKeyRefused
INVARIANT VersionByteDecides
INVARIANT GarbageRefused
INVARIANT OnlyValidKinds
INVARIANT Emit
CHECK_DEADLOCK FALSE
