CONSTANTS Big = FALSE CP = 79 CB = 6 CN = 67 CGx = 5 CGy = 17
CCs = {0, 1, 2}
NSeeds = 300
Dev = "none"
INIT Init
NEXT Next
INVARIANT Commute
INVARIANT HardenedFromPublicFails
INVARIANT FailsExactly
INVARIANT CkdRange
INVARIANT DataShape
INVARIANT MasterRule
INVARIANT Bookkeeping
INVARIANT XCommute
INVARIANT RoundTrip
INVARIANT RejectionTable
INVARIANT StrLevel
INVARIANT Census
CHECK_DEADLOCK FALSE
