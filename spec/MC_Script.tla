------------------------------ MODULE MC_Script ------------------------------
(* Stage A for Script (C13).  Case kinds (successors of partition states):    *)
(*   prog   programs of <= 3 items over representative opcodes and data items *)
(*          (length, fill) with lengths around every push-form boundary and   *)
(*          every length 1..EveryLen                                          *)
(*   bytes  every byte string of <= MaxBytes symbols over ByteAlpha (push      *)
(*          headers, opcodes, an undefined opcode): Disasm on arbitrary input *)
(*   wit    witness stacks of 0..3 items, lengths around CompactSize bounds   *)
(*   tmpl   every standard template over its whole argument range             *)
(* AsmUT / TemplateUT are the operators under judgement: equal to Script.tla  *)
(* when Deviation = "none"; the self-test configs enable a named deviation    *)
(* and TLC must produce a counterexample.                                     *)
EXTENDS ScriptGrammar
CONSTANTS Deviation
VARIABLE c

Init == c \in Parts
Next == c.k = "part" /\ c' \in Successors(c.a)

(* ---------------- operators under judgement ---------------- *)
HeaderUT(n) == IF Deviation = "one-byte-length" THEN <<n % 256>>                          \* F16
               ELSE IF Deviation = "pd1-threshold" /\ n = 76 THEN <<76>>                  \* 0x4c off by one
               ELSE PushHeader(n)
ItemBytesUT(it) == IF it.k = "op" THEN <<it.b>> ELSE HeaderUT(Len(it.d)) \o it.d
AsmUT(items) == Concat([i \in 1..Len(items) |-> ItemBytesUT(items[i])])
AsmWitnessUT(stack) ==
    IF Deviation = "witness-one-byte"                                                       \* F9
    THEN <<Len(stack)>> \o Concat([i \in 1..Len(stack) |-> <<Len(stack[i]) % 256>> \o stack[i]])
    ELSE AsmWitness(stack)

IsProg == c.k = "prog"
(* -- programs -- *)
AsmThenDisasm == IsProg => Disasm(AsmUT(c.a)) = Ok(c.a)
AsmIsMinimal  == IsProg => MinimalPushes(AsmUT(c.a))
(* the four push forms, written out independently of PushHeader *)
FormsFor(n) == (IF n <= 75 THEN {<<n>>} ELSE {})
               \cup (IF n <= 255 THEN {<<76, n>>} ELSE {})
               \cup (IF n <= 65535 THEN {<<77, n % 256, n \div 256>>} ELSE {})
               \cup {<<78, n % 256, (n \div 256) % 256, (n \div 65536) % 256, n \div 16777216>>}
HeaderIsShortestValidForm ==
    IsProg => \A i \in 1..Len(c.a) :
        c.a[i].k = "data" =>
            LET n == Len(c.a[i].d)
                h == HeaderUT(n)
            IN /\ h \in FormsFor(n)
               /\ \A f \in FormsFor(n) : /\ Len(h) <= Len(f)
                                         /\ Disasm(f \o c.a[i].d) = Ok(<<c.a[i]>>)
                                         /\ (MinimalPushes(f \o c.a[i].d) <=> f = h)
               /\ (n \in 1..75 => h = <<n>>)
               /\ (n \in 76..255 => h = <<76, n>>)
               /\ (n \in 256..65535 => h[1] = 77 /\ Len(h) = 3 /\ h[2] + 256 * h[3] = n)
               /\ (n > 65535 => h[1] = 78 /\ Len(h) = 5 /\ h[2] + 256 * h[3] + 65536 * h[4] + 16777216 * h[5] = n)

(* -- arbitrary bytes -- *)
DisasmThenAsm ==
    c.k = "bytes" =>
        LET d == Disasm(c.a) IN
        /\ MinimalPushes(c.a) => d.ok /\ AsmUT(d.v) = c.a
        /\ (d.ok /\ ~MinimalPushes(c.a)) => Len(Asm(d.v)) < Len(c.a)
        /\ d.ok => \A i \in 1..Len(d.v) : d.v[i].k = "op" => d.v[i].b \in DefinedOpBytes

(* -- witness stacks -- *)
WitTrail == {<<>>, <<0>>, <<1, 7>>, <<253, 253, 0>>}
WitnessRoundTrip ==
    c.k = "wit" => \A u \in WitTrail :
        DisasmWitness(AsmWitnessUT(c.a) \o u) = Ok([stack |-> c.a, rest |-> u])
WitnessUsesCompactSize ==
    c.k = "wit" =>
        LET b == AsmWitnessUT(c.a)
            n == CsDec(b)
        IN /\ n.ok /\ LEToNat(n.v.v) = Len(c.a)
           /\ Len(c.a) >= 1 => LET l == CsDec(n.v.rest)
                               IN l.ok /\ LEToNat(l.v.v) = Len(c.a[1]) /\ Take(l.v.rest, Len(c.a[1])) = c.a[1]

(* -- templates: intended items and the published byte patterns -- *)
T == c.a
TemplateItems == TemplateItemsOf(T)
TemplateSpec  == TemplateSpecOf(T)
TemplateUT    == AsmUT(TemplateItems)
(* an empty data item is the one-byte push OP_0, which disassembles as that opcode *)
Norm(items) == [i \in 1..Len(items) |-> IF items[i].k = "data" /\ items[i].d = <<>> THEN OpB(0) ELSE items[i]]
TemplateDisassemblesToIntent ==
    c.k = "tmpl" => /\ Disasm(TemplateUT) = Ok(Norm(TemplateItems))
                    /\ MinimalPushes(TemplateUT)
                    /\ (Deviation = "none" => TemplateUT = TemplateSpec)
TemplateBytePatterns ==
    c.k = "tmpl" =>
        LET b == TemplateUT IN
        /\ T.t = "p2pkh" => b = <<118, 169, 20>> \o T.h \o <<136, 172>>
        /\ T.t = "p2sh"  => b = <<169, 20>> \o T.h \o <<135>>
        /\ T.t = "p2pk"  => b = <<Len(T.pk)>> \o T.pk \o <<172>>
        /\ T.t = "multisig" => /\ b[1] = 80 + T.m /\ b[Len(b)] = 174 /\ b[Len(b) - 1] = 80 + Len(T.pks)
                               /\ Len(b) = 3 + Len(T.pks) + Len(Concat(T.pks))
        /\ T.t = "multisigsig" => b[1] = 0 /\ Len(b) = 1 + Len(T.sigs) + Len(Concat(T.sigs))
        /\ T.t = "nulldata" => b = (IF Len(T.d) <= 75 THEN <<106, Len(T.d)>> ELSE <<106, 76, Len(T.d)>>) \o T.d
        /\ T.t = "witprog" => b = <<(IF T.v = 0 THEN 0 ELSE 80 + T.v), Len(T.p)>> \o T.p
        /\ T.t = "nested" => /\ b = <<169, 20>> \o Hash160(<<0, 20>> \o T.h) \o <<135>>
                             /\ P2SH_P2WPKHSig(T.h) = <<22, 0, 20>> \o T.h
                             /\ P2SH_P2WSH(T.ws) = <<169, 20>> \o Hash160(<<0, 32>> \o Sha256(T.ws)) \o <<135>>
                             /\ P2SH_P2WSHSig(T.ws) = <<34, 0, 32>> \o Sha256(T.ws)
        /\ T.t = "p2shsig" => LET n == Len(T.rs)
                                  tail == SubSeq(b, Len(b) - n + 1, Len(b))
                              IN tail = T.rs /\ Len(b) = Len(P2SHSig(T.pushes, <<1>>)) - 2 + n + Len(PushHeader(n))
=============================================================================
