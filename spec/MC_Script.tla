------------------------------ MODULE MC_Script ------------------------------
(* Stage A for Script (C13).  Case kinds (successors of partition states):    *)
(*   prog   programs of <= 3 items over representative opcodes and data items *)
(*          (length, fill) with lengths around every push-form boundary and   *)
(*          every length 1..EveryLen                                          *)
(*   bytes  every byte string of <= MaxBytes symbols over ByteAlpha (push      *)
(*          headers, opcodes, an undefined opcode): Disasm on arbitrary input *)
(*   wit    witness stacks of 0..3 items, lengths around CompactSize bounds   *)
(*   tmpl   every standard template over its whole argument range             *)
(* AsmUT / TemplateUT are the operators under judgement: equal to Script.tla  *)
(* when Deviation = "none"; the self-test configs enable a named deviation    *)
(* and TLC must produce a counterexample.                                     *)
EXTENDS Script, FiniteSets
CONSTANTS LensSmall, LensBig, EveryLen, MaxBytes, ByteAlpha, WitLens, WitLens3, MaxRedeem, Deviation
VARIABLE c

Ops   == {0, 81, 118, 172, 106, 255}
Ramp(l)    == [i \in 1..l |-> (i * 7) % 251]
Const(l)   == Rep(76, l)
SmallData  == {DataI(Const(l)) : l \in LensSmall} \cup {DataI(Ramp(l)) : l \in LensSmall}
BigData    == {DataI(Ramp(l)) : l \in LensBig}
OpItems    == {OpB(o) : o \in Ops}
Small      == OpItems \cup SmallData
Tiny       == {OpB(0), OpB(118), OpB(255), DataI(<<76>>), DataI(Const(76)), DataI(Ramp(256))}

RECURSIVE StringsOfLen(_)
StringsOfLen(n) == IF n = 0 THEN {<<>>} ELSE {Append(s, a) : s \in StringsOfLen(n - 1), a \in ByteAlpha}
StringsUpTo(n) == UNION {StringsOfLen(k) : k \in 0..n}

Key(i, comp) == IF comp THEN <<2 + (i % 2)>> \o Rep(i, 32) ELSE <<4>> \o Rep(i, 64)
Keys(n, kind) == [i \in 1..n |-> Key(i, IF kind = 0 THEN TRUE ELSE IF kind = 1 THEN FALSE ELSE i % 2 = 0)]
Sig(l) == <<48>> \o Ramp(l - 1)
Sigs(k, l0) == [i \in 1..k |-> Sig(8 + ((l0 + 5 * i) % 66))]

Case(k, a) == [k |-> k, a |-> a]
Parts == {Case("part", <<"prog", x>>) : x \in Small \cup BigData}
         \cup {Case("part", <<"every", j>>) : j \in 0..7}
         \cup {Case("part", <<"bytes", s>>) : s \in StringsOfLen(1)}
         \cup {Case("part", <<"wit", l>>) : l \in WitLens}
         \cup {Case("part", <<"multisig", n>>) : n \in 1..16}
         \cup {Case("part", <<"redeem", j>>) : j \in 0..7}
         \cup {Case("part", <<"misc", 0>>)}
Init == c \in Parts

Successors(a) ==
    CASE a[1] = "prog" ->
            {Case("prog", <<a[2]>>)}
            \cup {Case("prog", <<a[2], y>>) : y \in (IF a[2] \in BigData THEN Tiny ELSE Small \cup BigData)}
            \cup (IF a[2] \in Tiny THEN {Case("prog", <<a[2], y, z>>) : y \in Tiny, z \in Tiny} ELSE {})
      [] a[1] = "every" ->
            {Case("prog", <<DataI(Ramp(l))>>) : l \in {m \in 1..EveryLen : m % 8 = a[2]}}
      [] a[1] = "bytes" ->
            {Case("bytes", a[2] \o s) : s \in StringsUpTo(MaxBytes - 1)}
      [] a[1] = "wit" ->
            {Case("wit", <<Ramp(a[2])>>)} \cup {Case("wit", <<Ramp(a[2]), Const(l)>>) : l \in WitLens}
            \cup (IF a[2] \in WitLens3
                  THEN {Case("wit", <<Ramp(a[2]), Const(l), Ramp(m)>>) : l \in WitLens3, m \in WitLens3} ELSE {})
      [] a[1] = "multisig" ->
            {Case("tmpl", [t |-> "multisig", m |-> m, pks |-> Keys(a[2], kind)]) : m \in 1..a[2], kind \in 0..2}
            \cup {Case("tmpl", [t |-> "multisigsig", sigs |-> Sigs(a[2], l0)]) : l0 \in 0..5}
            \cup {Case("tmpl", [t |-> "p2shmultisigsig", sigs |-> Sigs(m, a[2]), rs |-> Multisig(m, Keys(a[2], kind))])
                    : m \in 1..a[2], kind \in 0..1}
      [] a[1] = "redeem" ->
            {Case("tmpl", [t |-> "p2shsig", pushes |-> Sigs(k, l), rs |-> Ramp(l)])
                    : l \in {m \in 1..MaxRedeem : m % 8 = a[2]}, k \in 0..2}
      [] a[1] = "misc" ->
            {Case("wit", <<>>)}
            \cup {Case("tmpl", [t |-> "p2pk", pk |-> Key(7, comp)]) : comp \in BOOLEAN}
            \cup {Case("tmpl", [t |-> "p2pksig", sig |-> Sig(l)]) : l \in 8..73}
            \cup {Case("tmpl", [t |-> "p2pkhsig", sig |-> Sig(l), pk |-> Key(9, comp)]) : l \in 8..73, comp \in BOOLEAN}
            \cup {Case("tmpl", [t |-> "p2pkh", h |-> Ramp(20)]), Case("tmpl", [t |-> "p2sh", h |-> Ramp(20)])}
            \cup {Case("tmpl", [t |-> "nulldata", d |-> Ramp(l)]) : l \in 0..80}
            \cup {Case("tmpl", [t |-> "witprog", v |-> v, p |-> Ramp(l)]) : v \in 0..16, l \in {2, 20, 32, 40}}
            \cup {Case("tmpl", [t |-> "nested", h |-> Ramp(20), ws |-> Ramp(l)]) : l \in {1, 35, 76, 600}}
Next == c.k = "part" /\ c' \in Successors(c.a)

(* ---------------- operators under judgement ---------------- *)
HeaderUT(n) == IF Deviation = "one-byte-length" THEN <<n % 256>>                          \* F16
               ELSE IF Deviation = "pd1-threshold" /\ n = 76 THEN <<76>>                  \* 0x4c off by one
               ELSE PushHeader(n)
ItemBytesUT(it) == IF it.k = "op" THEN <<it.b>> ELSE HeaderUT(Len(it.d)) \o it.d
AsmUT(items) == Concat([i \in 1..Len(items) |-> ItemBytesUT(items[i])])
AsmWitnessUT(stack) ==
    IF Deviation = "witness-one-byte"                                                       \* F9
    THEN <<Len(stack)>> \o Concat([i \in 1..Len(stack) |-> <<Len(stack[i]) % 256>> \o stack[i]])
    ELSE AsmWitness(stack)

IsProg == c.k = "prog"
(* -- programs -- *)
AsmThenDisasm == IsProg => Disasm(AsmUT(c.a)) = Ok(c.a)
AsmIsMinimal  == IsProg => MinimalPushes(AsmUT(c.a))
(* the four push forms, written out independently of PushHeader *)
FormsFor(n) == (IF n <= 75 THEN {<<n>>} ELSE {})
               \cup (IF n <= 255 THEN {<<76, n>>} ELSE {})
               \cup (IF n <= 65535 THEN {<<77, n % 256, n \div 256>>} ELSE {})
               \cup {<<78, n % 256, (n \div 256) % 256, (n \div 65536) % 256, n \div 16777216>>}
HeaderIsShortestValidForm ==
    IsProg => \A i \in 1..Len(c.a) :
        c.a[i].k = "data" =>
            LET n == Len(c.a[i].d)
                h == HeaderUT(n)
            IN /\ h \in FormsFor(n)
               /\ \A f \in FormsFor(n) : /\ Len(h) <= Len(f)
                                         /\ Disasm(f \o c.a[i].d) = Ok(<<c.a[i]>>)
                                         /\ (MinimalPushes(f \o c.a[i].d) <=> f = h)
               /\ (n \in 1..75 => h = <<n>>)
               /\ (n \in 76..255 => h = <<76, n>>)
               /\ (n \in 256..65535 => h[1] = 77 /\ Len(h) = 3 /\ h[2] + 256 * h[3] = n)
               /\ (n > 65535 => h[1] = 78 /\ Len(h) = 5 /\ h[2] + 256 * h[3] + 65536 * h[4] + 16777216 * h[5] = n)

(* -- arbitrary bytes -- *)
DisasmThenAsm ==
    c.k = "bytes" =>
        LET d == Disasm(c.a) IN
        /\ MinimalPushes(c.a) => d.ok /\ AsmUT(d.v) = c.a
        /\ (d.ok /\ ~MinimalPushes(c.a)) => Len(Asm(d.v)) < Len(c.a)
        /\ d.ok => \A i \in 1..Len(d.v) : d.v[i].k = "op" => d.v[i].b \in DefinedOpBytes

(* -- witness stacks -- *)
WitTrail == {<<>>, <<0>>, <<1, 7>>, <<253, 253, 0>>}
WitnessRoundTrip ==
    c.k = "wit" => \A u \in WitTrail :
        DisasmWitness(AsmWitnessUT(c.a) \o u) = Ok([stack |-> c.a, rest |-> u])
WitnessUsesCompactSize ==
    c.k = "wit" =>
        LET b == AsmWitnessUT(c.a)
            n == CsDec(b)
        IN /\ n.ok /\ LEToNat(n.v.v) = Len(c.a)
           /\ Len(c.a) >= 1 => LET l == CsDec(n.v.rest)
                               IN l.ok /\ LEToNat(l.v.v) = Len(c.a[1]) /\ Take(l.v.rest, Len(c.a[1])) = c.a[1]

(* -- templates: intended items and the published byte patterns -- *)
T == c.a
TemplateItems ==
    CASE T.t = "p2pk"       -> P2PKItems(T.pk)
      [] T.t = "p2pksig"    -> P2PKSigItems(T.sig)
      [] T.t = "p2pkh"      -> P2PKHItems(T.h)
      [] T.t = "p2pkhsig"   -> P2PKHSigItems(T.sig, T.pk)
      [] T.t = "p2sh"       -> P2SHItems(T.h)
      [] T.t = "p2shsig"    -> P2SHSigItems(T.pushes, T.rs)
      [] T.t = "multisig"   -> MultisigItems(T.m, T.pks)
      [] T.t = "multisigsig" -> MultisigSigItems(T.sigs)
      [] T.t = "p2shmultisigsig" -> MultisigSigItems(T.sigs) \o <<DataI(T.rs)>>
      [] T.t = "nulldata"   -> NullDataItems(T.d)
      [] T.t = "witprog"    -> WitnessProgramItems(T.v, T.p)
      [] T.t = "nested"     -> P2SHItems(Hash160(P2WPKH(T.h)))
TemplateUT == AsmUT(TemplateItems)
TemplateSpec ==
    CASE T.t = "p2pk"       -> P2PK(T.pk)
      [] T.t = "p2pksig"    -> P2PKSig(T.sig)
      [] T.t = "p2pkh"      -> P2PKH(T.h)
      [] T.t = "p2pkhsig"   -> P2PKHSig(T.sig, T.pk)
      [] T.t = "p2sh"       -> P2SH(T.h)
      [] T.t = "p2shsig"    -> P2SHSig(T.pushes, T.rs)
      [] T.t = "multisig"   -> Multisig(T.m, T.pks)
      [] T.t = "multisigsig" -> MultisigSig(T.sigs)
      [] T.t = "p2shmultisigsig" -> P2SHMultisigSig(T.sigs, T.rs)
      [] T.t = "nulldata"   -> NullData(T.d)
      [] T.t = "witprog"    -> WitnessProgram(T.v, T.p)
      [] T.t = "nested"     -> P2SH_P2WPKH(T.h)
(* an empty data item is the one-byte push OP_0, which disassembles as that opcode *)
Norm(items) == [i \in 1..Len(items) |-> IF items[i].k = "data" /\ items[i].d = <<>> THEN OpB(0) ELSE items[i]]
TemplateDisassemblesToIntent ==
    c.k = "tmpl" => /\ Disasm(TemplateUT) = Ok(Norm(TemplateItems))
                    /\ MinimalPushes(TemplateUT)
                    /\ (Deviation = "none" => TemplateUT = TemplateSpec)
TemplateBytePatterns ==
    c.k = "tmpl" =>
        LET b == TemplateUT IN
        /\ T.t = "p2pkh" => b = <<118, 169, 20>> \o T.h \o <<136, 172>>
        /\ T.t = "p2sh"  => b = <<169, 20>> \o T.h \o <<135>>
        /\ T.t = "p2pk"  => b = <<Len(T.pk)>> \o T.pk \o <<172>>
        /\ T.t = "multisig" => /\ b[1] = 80 + T.m /\ b[Len(b)] = 174 /\ b[Len(b) - 1] = 80 + Len(T.pks)
                               /\ Len(b) = 3 + Len(T.pks) + Len(Concat(T.pks))
        /\ T.t = "multisigsig" => b[1] = 0 /\ Len(b) = 1 + Len(T.sigs) + Len(Concat(T.sigs))
        /\ T.t = "nulldata" => b = (IF Len(T.d) <= 75 THEN <<106, Len(T.d)>> ELSE <<106, 76, Len(T.d)>>) \o T.d
        /\ T.t = "witprog" => b = <<(IF T.v = 0 THEN 0 ELSE 80 + T.v), Len(T.p)>> \o T.p
        /\ T.t = "nested" => /\ b = <<169, 20>> \o Hash160(<<0, 20>> \o T.h) \o <<135>>
                             /\ P2SH_P2WPKHSig(T.h) = <<22, 0, 20>> \o T.h
                             /\ P2SH_P2WSH(T.ws) = <<169, 20>> \o Hash160(<<0, 32>> \o Sha256(T.ws)) \o <<135>>
                             /\ P2SH_P2WSHSig(T.ws) = <<34, 0, 32>> \o Sha256(T.ws)
        /\ T.t = "p2shsig" => LET n == Len(T.rs)
                                  tail == SubSeq(b, Len(b) - n + 1, Len(b))
                              IN tail = T.rs /\ Len(b) = Len(P2SHSig(T.pushes, <<1>>)) - 2 + n + Len(PushHeader(n))
=============================================================================
