-------------------------------- MODULE Prim --------------------------------
(* Byte strings = Seq(0..255).  Results of partial operations are records    *)
(* [ok, v]; Fail has the same fields so that TLC can always compare results. *)
EXTENDS Naturals, Sequences, Native

Ok(x)  == [ok |-> TRUE, v |-> x]
Fail   == [ok |-> FALSE, v |-> <<>>]

Take(s, n) == SubSeq(s, 1, IF n < Len(s) THEN n ELSE Len(s))
Drop(s, n) == SubSeq(s, n + 1, Len(s))
Rep(x, n)  == [i \in 1..n |-> x]
Rev(s)     == [i \in 1..Len(s) |-> s[Len(s) + 1 - i]]
Last(s)    == s[Len(s)]
Front(s)   == SubSeq(s, 1, Len(s) - 1)
Min(a, b)  == IF a < b THEN a ELSE b
Max(a, b)  == IF a > b THEN a ELSE b

RECURSIVE Concat(_)
Concat(ss) == IF ss = <<>> THEN <<>> ELSE Head(ss) \o Concat(Tail(ss))

RECURSIVE LeadingCount(_, _)
LeadingCount(s, x) == IF s # <<>> /\ Head(s) = x THEN 1 + LeadingCount(Tail(s), x) ELSE 0

IsBytes(s) == \A i \in 1..Len(s) : s[i] \in 0..255

(* little-/big-endian fixed-width encodings of naturals that fit TLC integers *)
RECURSIVE LE(_, _)
LE(n, w) == IF w = 0 THEN <<>> ELSE <<n % 256>> \o LE(n \div 256, w - 1)
BE(n, w) == Rev(LE(n, w))
RECURSIVE FromLE(_)
FromLE(b) == IF b = <<>> THEN 0 ELSE Head(b) + 256 * FromLE(Tail(b))
FromBE(b) == FromLE(Rev(b))

(* big naturals (Native representation: big-endian, no leading zeros) <-> fixed width bytes *)
StripZeros(b) == Drop(b, LeadingCount(b, 0))
BigFromBE(b) == StripZeros(b)
BigFromLE(b) == StripZeros(Rev(b))
BigToBE(n, w) == Rep(0, w - Len(n)) \o n            \* requires Len(n) <= w
BigToLE(n, w) == Rev(BigToBE(n, w))

Hash256(b) == Sha256(Sha256(b))
Hash160(b) == Ripemd160(Sha256(b))
=============================================================================
