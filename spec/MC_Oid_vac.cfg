CONSTANTS Big = FALSE
INIT Init
NEXT Next
INVARIANT NoThreeOctetArc
CHECK_DEADLOCK FALSE
