CONSTANTS HashLen = 2  HdrLen = 3  Counts = {0, 1, 2, 252, 253, 254}
INIT Init
NEXT Next
INVARIANT GetBlocksTheorem
INVARIANT HeadersTheorem
INVARIANT FeeTheorem
INVARIANT CmpctTheorem
INVARIANT ElementTheorem
INVARIANT DispatchTheorem
CHECK_DEADLOCK FALSE
