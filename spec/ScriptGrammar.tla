----------------------------- MODULE ScriptGrammar -----------------------------
(* The bounded case grammar shared by MC_Script (stage A) and Gen_Script (stage B): *)
(* representative opcodes, data items (length, fill), byte strings over ByteAlpha,   *)
(* witness stacks, template arguments.  Parts / Successors(a) partition the cases.  *)
EXTENDS Script, FiniteSets
CONSTANTS LensSmall, LensBig, EveryLen, MaxBytes, ByteAlpha, WitLens, WitLens3, MaxRedeem

Ops   == {0, 81, 118, 172, 106, 255}
Ramp(l)    == [i \in 1..l |-> (i * 7) % 251]
Const(l)   == Rep(76, l)
SmallData  == {DataI(Const(l)) : l \in LensSmall} \cup {DataI(Ramp(l)) : l \in LensSmall}
BigData    == {DataI(Ramp(l)) : l \in LensBig}
OpItems    == {OpB(o) : o \in Ops}
Small      == OpItems \cup SmallData
Tiny       == {OpB(0), OpB(118), OpB(255), DataI(<<76>>), DataI(Const(76)), DataI(Ramp(256))}

RECURSIVE StringsOfLen(_)
StringsOfLen(n) == IF n = 0 THEN {<<>>} ELSE {Append(s, a) : s \in StringsOfLen(n - 1), a \in ByteAlpha}
StringsUpTo(n) == UNION {StringsOfLen(k) : k \in 0..n}

Key(i, comp) == IF comp THEN <<2 + (i % 2)>> \o Rep(i, 32) ELSE <<4>> \o Rep(i, 64)
Keys(n, kind) == [i \in 1..n |-> Key(i, IF kind = 0 THEN TRUE ELSE IF kind = 1 THEN FALSE ELSE i % 2 = 0)]
Sig(l) == <<48>> \o Ramp(l - 1)
Sigs(k, l0) == [i \in 1..k |-> Sig(8 + ((l0 + 5 * i) % 66))]

Case(k, a) == [k |-> k, a |-> a]
Parts == {Case("part", <<"prog", x>>) : x \in Small \cup BigData}
         \cup {Case("part", <<"every", j>>) : j \in 0..7}
         \cup {Case("part", <<"bytes", s>>) : s \in StringsOfLen(1)}
         \cup {Case("part", <<"wit", l>>) : l \in WitLens}
         \cup {Case("part", <<"multisig", n>>) : n \in 1..16}
         \cup {Case("part", <<"redeem", j>>) : j \in 0..7}
         \cup {Case("part", <<"misc", 0>>)}

Successors(a) ==
    CASE a[1] = "prog" ->
            {Case("prog", <<a[2]>>)}
            \cup {Case("prog", <<a[2], y>>) : y \in (IF a[2] \in BigData THEN Tiny ELSE Small \cup BigData)}
            \cup (IF a[2] \in Tiny THEN {Case("prog", <<a[2], y, z>>) : y \in Tiny, z \in Tiny} ELSE {})
      [] a[1] = "every" ->
            {Case("prog", <<DataI(Ramp(l))>>) : l \in {m \in 1..EveryLen : m % 8 = a[2]}}
      [] a[1] = "bytes" ->
            {Case("bytes", a[2] \o s) : s \in StringsUpTo(MaxBytes - 1)}
      [] a[1] = "wit" ->
            {Case("wit", <<Ramp(a[2])>>)} \cup {Case("wit", <<Ramp(a[2]), Const(l)>>) : l \in WitLens}
            \cup (IF a[2] \in WitLens3
                  THEN {Case("wit", <<Ramp(a[2]), Const(l), Ramp(m)>>) : l \in WitLens3, m \in WitLens3} ELSE {})
      [] a[1] = "multisig" ->
            {Case("tmpl", [t |-> "multisig", m |-> m, pks |-> Keys(a[2], kind)]) : m \in 1..a[2], kind \in 0..2}
            \cup {Case("tmpl", [t |-> "multisigsig", sigs |-> Sigs(a[2], l0)]) : l0 \in 0..5}
            \cup {Case("tmpl", [t |-> "p2shmultisigsig", sigs |-> Sigs(m, a[2]), rs |-> Multisig(m, Keys(a[2], kind))])
                    : m \in 1..a[2], kind \in 0..1}
      [] a[1] = "redeem" ->
            {Case("tmpl", [t |-> "p2shsig", pushes |-> Sigs(k, l), rs |-> Ramp(l)])
                    : l \in {m \in 1..MaxRedeem : m % 8 = a[2]}, k \in 0..2}
      [] a[1] = "misc" ->
            {Case("wit", <<>>)}
            \cup {Case("tmpl", [t |-> "p2pk", pk |-> Key(7, comp)]) : comp \in BOOLEAN}
            \cup {Case("tmpl", [t |-> "p2pksig", sig |-> Sig(l)]) : l \in 8..73}
            \cup {Case("tmpl", [t |-> "p2pkhsig", sig |-> Sig(l), pk |-> Key(9, comp)]) : l \in 8..73, comp \in BOOLEAN}
            \cup {Case("tmpl", [t |-> "p2pkh", h |-> Ramp(20)]), Case("tmpl", [t |-> "p2sh", h |-> Ramp(20)])}
            \cup {Case("tmpl", [t |-> "nulldata", d |-> Ramp(l)]) : l \in 0..80}
            \cup {Case("tmpl", [t |-> "witprog", v |-> v, p |-> Ramp(l)]) : v \in 0..16, l \in {2, 20, 32, 40}}
            \cup {Case("tmpl", [t |-> "nested", h |-> Ramp(20), ws |-> Ramp(l)]) : l \in {1, 35, 76, 600}}
(* intended items / specified bytes of a template case record *)
TemplateItemsOf(T) ==
    CASE T.t = "p2pk"       -> P2PKItems(T.pk)
      [] T.t = "p2pksig"    -> P2PKSigItems(T.sig)
      [] T.t = "p2pkh"      -> P2PKHItems(T.h)
      [] T.t = "p2pkhsig"   -> P2PKHSigItems(T.sig, T.pk)
      [] T.t = "p2sh"       -> P2SHItems(T.h)
      [] T.t = "p2shsig"    -> P2SHSigItems(T.pushes, T.rs)
      [] T.t = "multisig"   -> MultisigItems(T.m, T.pks)
      [] T.t = "multisigsig" -> MultisigSigItems(T.sigs)
      [] T.t = "p2shmultisigsig" -> MultisigSigItems(T.sigs) \o <<DataI(T.rs)>>
      [] T.t = "nulldata"   -> NullDataItems(T.d)
      [] T.t = "witprog"    -> WitnessProgramItems(T.v, T.p)
      [] T.t = "nested"     -> P2SHItems(Hash160(P2WPKH(T.h)))
TemplateSpecOf(T) ==
    CASE T.t = "p2pk"       -> P2PK(T.pk)
      [] T.t = "p2pksig"    -> P2PKSig(T.sig)
      [] T.t = "p2pkh"      -> P2PKH(T.h)
      [] T.t = "p2pkhsig"   -> P2PKHSig(T.sig, T.pk)
      [] T.t = "p2sh"       -> P2SH(T.h)
      [] T.t = "p2shsig"    -> P2SHSig(T.pushes, T.rs)
      [] T.t = "multisig"   -> Multisig(T.m, T.pks)
      [] T.t = "multisigsig" -> MultisigSig(T.sigs)
      [] T.t = "p2shmultisigsig" -> P2SHMultisigSig(T.sigs, T.rs)
      [] T.t = "nulldata"   -> NullData(T.d)
      [] T.t = "witprog"    -> WitnessProgram(T.v, T.p)
      [] T.t = "nested"     -> P2SH_P2WPKH(T.h)
=============================================================================
