CONSTANTS
Vers = {0}
Lens = {}
InvVers = {}
InvLens = {}
SubKinds = {}
EmitRows = FALSE
Deviation = "zeroprog"
INIT Init
NEXT Next
INVARIANT RoundTrip
CHECK_DEADLOCK FALSE
