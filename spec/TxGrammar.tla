----------------------------- MODULE TxGrammar -----------------------------
(* The bounded transaction grammar shared by MC_Tx (stage A) and Gen_Tx (stage B). *)
(* A case = a well-formed transaction t plus a trailing byte string u.             *)
EXTENDS Tx, FiniteSets
CONSTANTS Scripts, Seqs, Stacks, OutChoices, MaxIn, MaxOut, TrailKinds

(* ---- grammar pieces selectable from the cfg files ---- *)
ScriptsQ == {<<>>, <<0>>}
ScriptsT == {<<>>, <<0>>, <<1, 253>>}
ScriptsR == {Rep(0, 252), Rep(1, 253), [i \in 1..65536 |-> i % 251]}      \* real CompactSize boundaries
SeqsQ    == {<<255, 255, 255, 255>>, <<254, 255, 255, 255>>, <<0, 0, 0, 0>>}
SeqsR    == {<<254, 255, 255, 255>>}
StacksQ  == {<<>>, << <<>> >>, << <<1>>, <<>> >>, << <<0, 1>>, <<253>> >>}
StacksT  == StacksQ \cup {<< <<0>> >>, << <<0>>, <<1>>, <<0, 0>> >>}
StacksR  == {<<>>, << Rep(7, 252), <<>>, Rep(0, 253) >>, << [i \in 1..65536 |-> i % 253] >>}
V1 == <<0, 0, 0, 0, 0, 0, 0, 0>>
V2 == <<0, 242, 5, 42, 1, 0, 0, 128>>
OutsQ == {TxOut(V1, <<>>), TxOut(V2, <<0>>)}
OutsT == OutsQ \cup {TxOut(V2, <<81, 0>>)}
OutsR == {TxOut(V2, Rep(0, 253))}

(* The toy hash bodies of Native.tla recurse once per byte, which TLC cannot do on buffers of  *)
(* 10^5 bytes; the real-size config substitutes this constant-depth stand-in (cfg: Sha256 <-). *)
SampleHash(msg) == [i \in 1..32 |-> IF msg = <<>> THEN i
                                   ELSE (msg[1 + ((i * 7919) % Len(msg))] + msg[Len(msg) - (i % Len(msg))] + Len(msg) + i) % 256]

TxidA == [i \in 1..32 |-> IF i < 3 THEN 0 ELSE IF i < 5 THEN 1 ELSE i]
Ins   == {TxIn(TxidA, <<1, 0, 0, 0>>, s, q) : s \in Scripts, q \in Seqs}
RECURSIVE SeqsOver(_, _)
SeqsOver(S, n) == IF n = 0 THEN {<<>>} ELSE {Append(s, x) : s \in SeqsOver(S, n - 1), x \in S}
SeqsUpTo(S, lo, hi) == UNION {SeqsOver(S, k) : k \in lo..hi}
WitChoices(n) == {<<>>} \cup {w \in SeqsOver(Stacks, n) : \E i \in 1..n : w[i] # <<>>}
Version  == <<2, 0, 0, 0>>
Locktime == <<0, 0, 0, 0>>

Trail(kind, ser) ==
    CASE kind = "none"   -> <<>>
      [] kind = "zero"   -> <<0>>
      [] kind = "one"    -> <<1>>
      [] kind = "last"   -> <<ser[Len(ser) - 4]>>          \* a byte that occurs inside the transaction
      [] kind = "copy"   -> ser                             \* the same transaction again
      [] kind = "prefix" -> SubSeq(ser, 1, 6)               \* version + first bytes
      [] kind = "zeros"  -> <<0, 0, 0, 0, 0>>

Case(t, kind) == [k |-> "case", t |-> t, u |-> Trail(kind, TxSer(t))]
CasesWithFirst(i1) ==
    UNION {{Case(MkTx(Version, <<i1>> \o rest, outs, wit, Locktime), kind) :
                rest \in SeqsOver(Ins, n - 1), outs \in SeqsUpTo(OutChoices, 1, MaxOut),
                wit \in WitChoices(n), kind \in TrailKinds} : n \in 1..MaxIn}
=============================================================================
