CONSTANTS Big = FALSE CP = 79 CB = 7 CN = 67 CGx = 1 CGy = 18
INIT Init
NEXT Next
CHECK_DEADLOCK FALSE
