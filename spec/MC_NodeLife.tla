----------------------------- MODULE MC_NodeLife -----------------------------
(* Bounded instances of NodeLife for TLC.  The node configuration (number of seeds start() connects, serve_rpc) is *)
(* chosen in the initial state.                                                                                    *)
EXTENDS NodeLife
CONSTANTS SeedSet, RpcSet
Init == \E c \in [seeds : SeedSet, rpc : RpcSet] : InitWith(c)
Spec == Init /\ [][Next]_vars /\ Fairness
(* stage-B generator only (ACTION_CONSTRAINT of MC_NodeLife_sim.cfg): random walks should not end at once with stop() on a fresh node *)
SimBias == /\ ~(node = "created" /\ node' = "stopping")
           /\ ~(mcall = "ibd" /\ mph = "next" /\ mph' = "done")       \* ibd always through write_blocks_to_disk in the generated behaviours
=============================================================================
