------------------------------ MODULE MC_Bip39 ------------------------------
(* Stage A (C10): scaled instance - group width W = 5 bits, checksum unit U = 4  *)
(* (checksum = ENT/4 bits), valid ENT in {8, 12} bits (2 / 3 words), list of    *)
(* 2^W = 32 words, toy hash.  Cases: every entropy bit string of length 0..13,  *)
(* every index sequence of length 0..3 over 0..32 (32 = not in the list) and    *)
(* length-4 sequences over a small alphabet (3-word sequences: first word in     *)
(* First3 - the quick config restricts it, the thorough one does not).  Swap = TRUE is the self-test      *)
(* deviation (checksum compared with the hash of the WRONG bits).               *)
EXTENDS Bip39, FiniteSets
CONSTANTS W, U, ValidEnt, Swap, First3
VARIABLE c
ListSize == Pow2(W)
ToyHB(bits) == BytesToBits(Sha256(IF Swap /\ Len(bits) > 8 THEN Rev(bits) ELSE bits))
HBenc(bits) == BytesToBits(Sha256(bits))
Enc(ent)  == ToIndicesG(ent, W, U, ValidEnt, HBenc)
Dec(idx)  == ToEntropyG(idx, W, U, ValidEnt, ListSize, ToyHB)

RECURSIVE Strings(_, _)
Strings(alpha, n) == IF n = 0 THEN {<<>>}
                     ELSE LET S == Strings(alpha, n - 1)
                          IN S \cup {Append(s, a) : s \in {t \in S : Len(t) = n - 1}, a \in alpha}
MaxEnt == 13
Cases == [k : {"ent"}, v : Strings({0, 1}, MaxEnt)]
         \cup [k : {"idx"}, v : {s \in Strings(0..ListSize, 3) : Len(s) < 3 \/ s[1] \in First3}]
         \cup [k : {"idx"}, v : {s \in Strings({0, 1, ListSize - 1, ListSize}, 4) : Len(s) = 4}]
Groups == 16
Key(x) == Len(x.v) + (IF x.v = <<>> THEN 0 ELSE (3 * x.v[1]) + x.v[Len(x.v)])
Init == c = [k |-> "start", v |-> <<>>]
Next == \/ c.k = "start" /\ c' \in [k : {"grp"}, v : {<<g>> : g \in 0..(Groups - 1)}]
        \/ c.k = "grp" /\ c' \in {x \in Cases : (Key(x) % Groups) = c.v[1]}

WordCounts == ValidWordCounts(W, U, ValidEnt)
(* entropy -> words -> entropy *)
RoundTrip == c.k = "ent" =>
    IF Len(c.v) \in ValidEnt
    THEN LET e == Enc(c.v) IN
         /\ e.ok /\ Len(e.v) = (Len(c.v) + (Len(c.v) \div U)) \div W
         /\ \A i \in 1..Len(e.v) : e.v[i] \in 0..(ListSize - 1)
         /\ Dec(e.v) = Ok(c.v)
    ELSE ~Enc(c.v).ok
(* accepted exactly when: valid length, every index in the list, checksum = leading hash bits of its entropy bits *)
AcceptExactlyImage == c.k = "idx" =>
    LET d == Dec(c.v)
        inlist == \A i \in 1..Len(c.v) : c.v[i] < ListSize IN
    /\ d.ok <=> (Len(c.v) \in WordCounts /\ inlist /\ Enc(EntBitsOf(c.v, W, U)) = Ok(c.v))
    /\ d.ok => (d.v = EntBitsOf(c.v, W, U) /\ Enc(d.v) = Ok(c.v))
(* of all sequences sharing the same entropy bits exactly one is accepted *)
Siblings(s) == LET cs == (W * Len(s)) \div (U + 1)
                   base == s[Len(s)] - (s[Len(s)] % Pow2(cs))
               IN {[s EXCEPT ![Len(s)] = base + x] : x \in 0..(Pow2(cs) - 1)}
(* (evaluated once per class: on the member whose checksum bits are all zero) *)
ExactlyOneSibling == (c.k = "idx" /\ Len(c.v) \in WordCounts /\ (\A i \in 1..Len(c.v) : c.v[i] < ListSize)
                      /\ (c.v[Len(c.v)] % Pow2((W * Len(c.v)) \div (U + 1))) = 0) =>
    /\ c.v \in Siblings(c.v)
    /\ \A t \in Siblings(c.v) : EntBitsOf(t, W, U) = EntBitsOf(c.v, W, U)
    /\ Cardinality({t \in Siblings(c.v) : Dec(t).ok}) = 1
=============================================================================
