--------------------------------- MODULE Rpc ---------------------------------
(***************************************************************************)
(* Extension beyond the listed properties: bits.rpc.rpc_method as a        *)
(* decision table - which credentials authenticate the call and how each   *)
(* positional parameter is coerced before it goes into the JSON-RPC body.  *)
(*   url = ""                         -> error                             *)
(*   datadir given: cookie file there -> Basic auth with the cookie        *)
(*                  no cookie file    -> error (never falls back)          *)
(*   else user and password given     -> Basic auth with user:password     *)
(*   else                             -> error                             *)
(* parameter text classes: "int" (decimal integer text) -> JSON number;    *)
(* "json" (any other valid JSON text) -> the parsed value; "text" -> sent  *)
(* as a string.                                                            *)
(***************************************************************************)
EXTENDS Naturals, Sequences, TLC
VARIABLE c
B == {TRUE, FALSE}
Cases == [url : B, datadir : B, cookie : B, user : B, pw : B, params : {<<>>, <<"int">>, <<"json">>, <<"text">>, <<"int", "text", "json">>}]
Init == c \in [k : {"group"}, url : B]
Next == c.k = "group" /\ c' \in {[x EXCEPT !.k = "case"] : x \in {[k |-> "case"] @@ y : y \in {z \in Cases : z.url = c.url}}}

Auth(x) == IF ~x.url THEN "error-no-url"
           ELSE IF x.datadir THEN (IF x.cookie THEN "cookie" ELSE "error-no-cookie")
           ELSE IF x.user /\ x.pw THEN "userpw" ELSE "error-no-credentials"
Coerced(p) == [i \in 1..Len(p) |-> IF p[i] = "int" THEN "number" ELSE IF p[i] = "json" THEN "parsed" ELSE "string"]

(* the cookie is never mixed with user/password; an error never sends a request *)
Sound == c.k = "case" =>
    /\ (Auth(c) = "cookie" => c.datadir /\ c.cookie)
    /\ (Auth(c) = "userpw" => ~c.datadir /\ c.user /\ c.pw)
    /\ (c.url /\ c.datadir /\ ~c.cookie => Auth(c) = "error-no-cookie")      \* no silent fallback to user/password
Emit == c.k = "case" => PrintT(<<"R", c.url, c.datadir, c.cookie, c.user, c.pw, c.params, Auth(c), Coerced(c.params)>>)
=============================================================================
