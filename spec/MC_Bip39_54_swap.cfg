CONSTANTS W = 5  U = 4  ValidEnt = {8, 12}  Swap = TRUE
First3 = {0, 1, 17, 31, 32}
INIT Init
NEXT Next
INVARIANT RoundTrip
INVARIANT AcceptExactlyImage
INVARIANT ExactlyOneSibling
CHECK_DEADLOCK FALSE
