------------------------------- MODULE Native -------------------------------
(***************************************************************************)
(* Operators that TLC evaluates through Java overrides (java/Native.java)  *)
(* when /verif/build/classes is first on the classpath:                    *)
(*   - arithmetic on big naturals (canonical big-endian byte tuples        *)
(*     without leading zeros; zero = <<>>)                                 *)
(*   - SHA-256, SHA-512, RIPEMD-160, HMAC-SHA512, PBKDF2, NFKD             *)
(* The TLA+ bodies below are the definitions on values that fit TLC's      *)
(* 32-bit integers (big naturals) and a toy stand-in (hashes); they are    *)
(* what TLC uses when the class is NOT on the classpath (stage A), and     *)
(* what NativeSelfTest compares the overrides with.                        *)
(***************************************************************************)
EXTENDS Naturals, Sequences

RECURSIVE BigToNatAcc(_, _, _)
BigToNatAcc(a, i, acc) == IF i > Len(a) THEN acc ELSE BigToNatAcc(a, i + 1, acc * 256 + a[i])
BigToNat(a) == BigToNatAcc(a, 1, 0)

RECURSIVE NatToBig(_)
NatToBig(n) == IF n = 0 THEN <<>> ELSE Append(NatToBig(n \div 256), n % 256)

BigAdd(a, b) == NatToBig(BigToNat(a) + BigToNat(b))
BigSub(a, b) == NatToBig(BigToNat(a) - BigToNat(b))
BigMul(a, b) == NatToBig(BigToNat(a) * BigToNat(b))
BigDiv(a, b) == NatToBig(BigToNat(a) \div BigToNat(b))
BigMod(a, b) == NatToBig(BigToNat(a) % BigToNat(b))
BigAddMod(a, b, m) == NatToBig((BigToNat(a) + BigToNat(b)) % BigToNat(m))
BigSubMod(a, b, m) == NatToBig(((BigToNat(a) + BigToNat(m)) - (BigToNat(b) % BigToNat(m))) % BigToNat(m))
BigMulMod(a, b, m) == NatToBig((BigToNat(a) * BigToNat(b)) % BigToNat(m))
RECURSIVE NatPowMod(_, _, _)
NatPowMod(a, e, m) == IF e = 0 THEN 1 % m
                      ELSE LET h == NatPowMod(a, e \div 2, m)
                               s == (h * h) % m
                           IN IF e % 2 = 1 THEN (s * (a % m)) % m ELSE s
BigPowMod(a, e, m) == NatToBig(NatPowMod(BigToNat(a), BigToNat(e), BigToNat(m)))
BigLt(a, b) == BigToNat(a) < BigToNat(b)
RECURSIVE NatBitLen(_)
NatBitLen(n) == IF n = 0 THEN 0 ELSE 1 + NatBitLen(n \div 2)
BigBitLen(a) == NatBitLen(BigToNat(a))
RECURSIVE Pow2(_)
Pow2(i) == IF i = 0 THEN 1 ELSE 2 * Pow2(i - 1)
BigTestBit(a, i) == (BigToNat(a) \div Pow2(i)) % 2 = 1
BigShr(a, i) == NatToBig(BigToNat(a) \div Pow2(i))
BigShl(a, i) == NatToBig(BigToNat(a) * Pow2(i))
RECURSIVE NatXor(_, _)
NatXor(x, y) == IF x = 0 THEN y ELSE IF y = 0 THEN x
                ELSE 2 * NatXor(x \div 2, y \div 2) + (((x % 2) + (y % 2)) % 2)
BigXor(a, b) == NatToBig(NatXor(BigToNat(a), BigToNat(b)))

(* ---- hashes: toy bodies (position-weighted sums), replaced by overrides ---- *)
RECURSIVE ToyAcc(_, _, _)
ToyAcc(b, i, acc) == IF i > Len(b) THEN acc ELSE ToyAcc(b, i + 1, (acc * 31 + b[i] + 7) % 65521)
Toy(b, n, salt) == LET h == ToyAcc(b, 1, salt + Len(b))
                   IN [i \in 1..n |-> ((h \div (1 + (i % 3) * 16)) + i * (h % 251) + salt) % 256]
Sha256(m)    == Toy(m, 32, 1)
Sha512(m)    == Toy(m, 64, 2)
Ripemd160(m) == Toy(m, 20, 3)
HmacSha512(k, m) == Toy(k \o <<Len(k) % 256>> \o m, 64, 4)
Pbkdf2Sha512(pw, salt, iters, dkLen) == Toy(pw \o <<Len(pw) % 256>> \o salt, dkLen, 5 + iters)
NfkdUtf8(cps) == cps
=============================================================================
