------------------------------ MODULE MC_Base58 ------------------------------
(* Stage A: exhaustive inverse-ness at scaled radices and at the real radices *)
(* for short strings.  One initial state per case; the property is the       *)
(* invariant.  A toy 1-symbol checksum decides the accept-set clause.        *)
EXTENDS Base58, FiniteSets, Integers
CONSTANTS InB, OutB, MaxIn, MaxOut
VARIABLE c

RECURSIVE Strings(_, _)
Strings(alpha, n) == IF n = 0 THEN {<<>>}
                     ELSE LET S == Strings(alpha, n - 1)
                          IN S \cup {Append(s, a) : s \in {t \in S : Len(t) = n - 1}, a \in alpha}

(* one "group" state per first symbol; the cases with that first symbol are its successors, so all workers evaluate them *)
InStr  == Strings(0..(InB - 1), MaxIn)
OutStr == Strings(0..(OutB - 1), MaxOut)
First(s) == IF s = <<>> THEN -1 ELSE s[1]
Init == c \in [k : {"group"}, v : {<<g>> : g \in (-1)..(IF InB > OutB THEN InB ELSE OutB)}]
Next == /\ c.k = "group"
        /\ c' \in [k : {"in"}, v : {s \in InStr : First(s) = c.v[1]}] \cup [k : {"out"}, v : {s \in OutStr : First(s) = c.v[1]}]

DecDigits(s) == EncDigits(s, OutB, InB)
EncD(x)      == EncDigits(x, InB, OutB)

RoundTripIn  == c.k = "in"  => DecDigits(EncD(c.v)) = c.v
RoundTripOut == c.k = "out" => EncD(DecDigits(c.v)) = c.v
DigitsInRange == c.k = "in" => \A i \in 1..Len(EncD(c.v)) : EncD(c.v)[i] \in 0..(OutB - 1)

(* toy checksum of one output symbol: accept set of the check-decoder is exactly the image *)
RECURSIVE SumSeq(_)
SumSeq(s) == IF s = <<>> THEN 0 ELSE Head(s) + SumSeq(Tail(s))
ToyCks(x)      == <<(SumSeq(x) + 3 * Len(x) + 1) % InB>>
ToyEncCheck(x) == EncD(x \o ToyCks(x))
ToyDecCheck(s) == LET d == DecDigits(s) IN
                  IF Len(d) < 1 THEN Fail
                  ELSE IF <<Last(d)>> = ToyCks(Front(d)) THEN Ok(Front(d)) ELSE Fail
AcceptExactlyImage ==
    /\ c.k = "in"  => ToyDecCheck(ToyEncCheck(c.v)) = Ok(c.v)
    /\ c.k = "out" => (ToyDecCheck(c.v).ok => ToyEncCheck(ToyDecCheck(c.v).v) = c.v)
=============================================================================
