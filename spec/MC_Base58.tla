------------------------------ MODULE MC_Base58 ------------------------------
(* Stage A: exhaustive inverse-ness at scaled radices and at the real radices *)
(* for short strings.  One initial state per case; the property is the       *)
(* invariant.  A toy 1-symbol checksum decides the accept-set clause.        *)
EXTENDS Base58, FiniteSets
CONSTANTS InB, OutB, MaxIn, MaxOut
VARIABLE c

RECURSIVE Strings(_, _)
Strings(alpha, n) == IF n = 0 THEN {<<>>}
                     ELSE LET S == Strings(alpha, n - 1)
                          IN S \cup {Append(s, a) : s \in {t \in S : Len(t) = n - 1}, a \in alpha}

Cases == [k : {"in"}, v : Strings(0..(InB - 1), MaxIn)] \cup [k : {"out"}, v : Strings(0..(OutB - 1), MaxOut)]
Init == c \in Cases
Next == UNCHANGED c

DecDigits(s) == EncDigits(s, OutB, InB)
EncD(x)      == EncDigits(x, InB, OutB)

RoundTripIn  == c.k = "in"  => DecDigits(EncD(c.v)) = c.v
RoundTripOut == c.k = "out" => EncD(DecDigits(c.v)) = c.v
DigitsInRange == c.k = "in" => \A i \in 1..Len(EncD(c.v)) : EncD(c.v)[i] \in 0..(OutB - 1)

(* toy checksum of one output symbol: accept set of the check-decoder is exactly the image *)
RECURSIVE SumSeq(_)
SumSeq(s) == IF s = <<>> THEN 0 ELSE Head(s) + SumSeq(Tail(s))
ToyCks(x)      == <<(SumSeq(x) + 3 * Len(x) + 1) % InB>>
ToyEncCheck(x) == EncD(x \o ToyCks(x))
ToyDecCheck(s) == LET d == DecDigits(s) IN
                  IF Len(d) < 1 THEN Fail
                  ELSE IF <<Last(d)>> = ToyCks(Front(d)) THEN Ok(Front(d)) ELSE Fail
AcceptExactlyImage ==
    /\ c.k = "in"  => ToyDecCheck(ToyEncCheck(c.v)) = Ok(c.v)
    /\ c.k = "out" => (ToyDecCheck(c.v).ok => ToyEncCheck(ToyDecCheck(c.v).v) = c.v)
=============================================================================
