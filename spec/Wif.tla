--------------------------------- MODULE Wif ---------------------------------
(***************************************************************************)
(* Wallet import format with the library's extension (C14): Base58Check of *)
(*     version || key || suffix                                            *)
(* version = network base (0x80 mainnet, 0xEF testnet AND regtest) + one   *)
(* of eight address-type offsets (electrum's convention); key = 32-byte    *)
(* private key in [1, CN-1]; suffix = arbitrary script data (0x01 = the    *)
(* classic "compressed" marker).  Texts are ASCII code tuples.             *)
(***************************************************************************)
EXTENDS EC
B58 == INSTANCE Base58

WifNetworks == {"mainnet", "testnet", "regtest"}
WifTypes    == <<"p2pkh", "p2wpkh", "p2sh-p2wpkh", "p2pk", "multisig", "p2sh", "p2wsh", "p2sh-p2wsh">>
WifTypeSet  == {WifTypes[i] : i \in 1..8}
NetBase(net)   == IF net = "mainnet" THEN 128 ELSE 239
NetClass(net)  == IF net = "mainnet" THEN "mainnet" ELSE "testnet"     \* testnet and regtest share their versions
TypeOffset(t)  == (CHOOSE i \in 1..8 : WifTypes[i] = t) - 1
WifVersion(net, t) == NetBase(net) + TypeOffset(t)
KnownVersion(v)    == v \in (128..135) \cup (239..246)
VersionClass(v)    == IF v < 136 THEN "mainnet" ELSE "testnet"
VersionType(v)     == WifTypes[(IF v < 136 THEN v - 128 ELSE v - 239) + 1]


WifPayload(net, t, key, suffix) == <<WifVersion(net, t)>> \o key \o suffix
WifEnc(net, t, key, suffix) ==
    IF net \in WifNetworks /\ t \in WifTypeSet /\ PrivFromBytes(key).ok
    THEN Ok(B58!EncCheck(WifPayload(net, t, key, suffix)))
    ELSE Fail

(* decoding: defined exactly on the image of WifEnc *)
WifDec(str) ==
    LET d == B58!DecCheck(str) IN
    IF ~d.ok THEN Fail
    ELSE IF Len(d.v) < 33 THEN Fail
    ELSE IF ~KnownVersion(d.v[1]) THEN Fail
    ELSE LET key == SubSeq(d.v, 2, 33) IN
         IF ~PrivFromBytes(key).ok THEN Fail
         ELSE Ok([key |-> key, type |-> VersionType(d.v[1]), net |-> VersionClass(d.v[1]),
                  suffix |-> SubSeq(d.v, 34, Len(d.v)), version |-> d.v[1]])

(* what the property says MUST be rejected: not a checksum-valid Base58Check string with a known version byte *)
WifMustReject(str) ==
    LET d == B58!DecCheck(str) IN
    ~d.ok \/ Len(d.v) = 0 \/ ~KnownVersion(d.v[1])
=============================================================================
