CONSTANTS
ByteAlpha = {0, 1, 10, 13, 48, 49, 102, 127, 128, 255}
MaxBytes = 4
HexAlpha = {48, 49, 50, 55, 56, 57, 97, 99, 102, 65, 70}
MaxHex = 5
MaxBits = 17
ZeroDigit = FALSE
INIT Init
NEXT Next
INVARIANT RoundTrip
INVARIANT RawExact
INVARIANT SameAsSpec
INVARIANT Padding
INVARIANT Newlines
INVARIANT ConvertLossless
CHECK_DEADLOCK FALSE
