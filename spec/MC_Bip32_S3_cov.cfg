CONSTANTS Big = FALSE CP = 79 CB = 6 CN = 67 CGx = 5 CGy = 17
CCs = {0, 1, 2}
NSeeds = 300
Dev = "none"
INIT Init
NEXT Next
CHECK_DEADLOCK FALSE
