------------------------------- MODULE Bech32 -------------------------------
(***************************************************************************)
(* Bech32 (BIP173) / Bech32m (BIP350) and the segwit address format (C06). *)
(* Strings are sequences of byte values (0..255); data-part symbols are    *)
(* 0..31.  All intermediate values are < 2^30, so TLC integers suffice;    *)
(* XOR is CommunityModules Bitwise `^^`.  The BCH code does not scale      *)
(* down, so the operators are always evaluated at the real parameters.     *)
(*                                                                         *)
(* Written from the two BIPs: the operator names follow their reference    *)
(* code (bech32_polymod, bech32_hrp_expand, bech32_create_checksum,        *)
(* bech32_verify_checksum, convertbits, encode/decode of segwit_addr).     *)
(***************************************************************************)
EXTENDS Prim, Bitwise

(* "qpzry9x8gf2tvdw0s3jn54khce6mua7l" *)
Charset == <<113,112,122,114,121,57,120,56,103,102,50,116,118,100,119,48,
             115,51,106,110,53,52,107,104,99,101,54,109,117,97,55,108>>
InCharset(ch) == \E i \in 1..32 : Charset[i] = ch
SymOf(ch)     == (CHOOSE i \in 1..32 : Charset[i] = ch) - 1
CharOf(sym)   == Charset[sym + 1]

Bech32Const  == 1
Bech32mConst == 734539939                                  \* 0x2bc830a3
ConstOfVersion(ver) == IF ver = 0 THEN Bech32Const ELSE Bech32mConst

(* ---- checksum (BIP173 "Checksum") ---- *)
GenPoly == <<996825010, 642813549, 513874426, 1027748829, 705979059>>
           \* 0x3b6a57b2, 0x26508e6d, 0x1ea119fa, 0x3d4233dd, 0x2a1462b3
Bit(n, i) == (n \div (2 ^ i)) % 2
RECURSIVE GenMix(_, _, _)
GenMix(chk, top, i) == IF i > 5 THEN chk
                       ELSE GenMix(IF Bit(top, i - 1) = 1 THEN chk ^^ GenPoly[i] ELSE chk, top, i + 1)
PolyStep(chk, v) == GenMix(((chk % 33554432) * 32) ^^ v, chk \div 33554432, 1)
RECURSIVE PolyAcc(_, _, _)
PolyAcc(values, i, chk) == IF i > Len(values) THEN chk ELSE PolyAcc(values, i + 1, PolyStep(chk, values[i]))
Polymod(values) == PolyAcc(values, 1, 1)

HrpExpand(hrp) == [i \in 1..Len(hrp) |-> hrp[i] \div 32] \o <<0>> \o [i \in 1..Len(hrp) |-> hrp[i] % 32]
VerifyChecksum(hrp, data, const) == Polymod(HrpExpand(hrp) \o data) = const
CreateChecksum(hrp, data, const) ==
    LET pm == Polymod(HrpExpand(hrp) \o data \o <<0, 0, 0, 0, 0, 0>>) ^^ const
    IN [i \in 1..6 |-> (pm \div (32 ^ (6 - i))) % 32]

(* ---- regrouping of bits (BIP173 "convertbits"), written on the bit string ---- *)
(* bit number k (0-based, most significant first) of the concatenation of w-bit values *)
BitAt(vals, w, k) == Bit(vals[(k \div w) + 1], (w - 1) - (k % w))
RECURSIVE GroupAcc(_, _, _, _, _, _)
GroupAcc(vals, w, start, outw, i, acc) ==       \* outw bits from position start; missing bits are 0
    IF i = outw THEN acc
    ELSE GroupAcc(vals, w, start, outw, i + 1,
                  2 * acc + (IF start + i < w * Len(vals) THEN BitAt(vals, w, start + i) ELSE 0))
Group(vals, w, start, outw) == GroupAcc(vals, w, start, outw, 0, 0)

(* bytes -> 5-bit symbols, zero padded to a whole symbol *)
ConvertBits8to5(bytes) == [j \in 1..(((8 * Len(bytes)) + 4) \div 5) |-> Group(bytes, 8, (j - 1) * 5, 5)]
(* 5-bit symbols -> bytes: at most 4 left-over bits, all of them zero *)
ConvertBits5to8(syms) ==
    LET total == 5 * Len(syms)
        pad   == total % 8
    IN IF pad > 4 \/ \E k \in (total - pad)..(total - 1) : BitAt(syms, 5, k) = 1 THEN Fail
       ELSE Ok([j \in 1..(total \div 8) |-> Group(syms, 5, (j - 1) * 8, 8)])

(* ---- character classes ---- *)
IsLower(ch) == ch \in 97..122
IsUpper(ch) == ch \in 65..90
ToLower(ch) == IF IsUpper(ch) THEN ch + 32 ELSE ch
MixedCase(str) == (\E i \in 1..Len(str) : IsLower(str[i])) /\ (\E i \in 1..Len(str) : IsUpper(str[i]))
LowerStr(str) == [i \in 1..Len(str) |-> ToLower(str[i])]
Sep == 49                                                   \* "1"
HasSep(str) == \E i \in 1..Len(str) : str[i] = Sep
LastSep(str) == CHOOSE i \in 1..Len(str) : str[i] = Sep /\ \A j \in (i + 1)..Len(str) : str[j] # Sep

(* ---- generic Bech32 / Bech32m strings (BIP173 "Bech32", BIP350) ---- *)
(* Ok([hrp, data]) with the data part as symbols (checksum stripped) iff str is a valid string for const *)
BechDecode(str, const) ==
    IF Len(str) > 90 \/ MixedCase(str) \/ ~HasSep(str) THEN Fail
    ELSE LET s    == LowerStr(str)
             p    == LastSep(s)
             hrp  == SubSeq(s, 1, p - 1)
             dp   == SubSeq(s, p + 1, Len(s))
         IN IF Len(hrp) < 1 \/ Len(hrp) > 83 THEN Fail
            ELSE IF \E i \in 1..Len(hrp) : hrp[i] \notin 33..126 THEN Fail
            ELSE IF Len(dp) < 6 THEN Fail
            ELSE IF \E i \in 1..Len(dp) : ~InCharset(dp[i]) THEN Fail
            ELSE LET syms == [i \in 1..Len(dp) |-> SymOf(dp[i])]
                 IN IF VerifyChecksum(hrp, syms, const)
                    THEN Ok([hrp |-> hrp, data |-> SubSeq(syms, 1, Len(syms) - 6)])
                    ELSE Fail
BechEncode(hrp, syms, const) ==
    LET all == syms \o CreateChecksum(hrp, syms, const)
    IN hrp \o <<Sep>> \o [i \in 1..Len(all) |-> CharOf(all[i])]

(* ---- segwit addresses (BIP173 "Segwit address format", BIP350) ---- *)
Nets == {"mainnet", "testnet", "regtest"}
HrpOf(net) == CASE net = "mainnet" -> <<98, 99>>            \* "bc"
                [] net = "testnet" -> <<116, 98>>           \* "tb"
                [] net = "regtest" -> <<98, 99, 114, 116>>  \* "bcrt"
SegwitHrps == {HrpOf(n) : n \in Nets}
ValidProgram(ver, n) == ver \in 0..16 /\ n \in 2..40 /\ (ver = 0 => n \in {20, 32})

SegwitEncode(net, ver, prog) ==
    IF net \notin Nets \/ ~ValidProgram(ver, Len(prog)) THEN Fail
    ELSE Ok(BechEncode(HrpOf(net), <<ver>> \o ConvertBits8to5(prog), ConstOfVersion(ver)))

(* the decoder of BIP173 as amended by BIP350: the first data symbol selects the checksum constant *)
SegwitDecode(str) ==
    IF Len(str) > 90 \/ MixedCase(str) \/ ~HasSep(str) THEN Fail
    ELSE LET s  == LowerStr(str)
             dp == SubSeq(s, LastSep(s) + 1, Len(s))
         IN IF Len(dp) < 7 \/ ~InCharset(dp[1]) THEN Fail     \* 6 checksum symbols + the version symbol
            ELSE LET ver == SymOf(dp[1])
                     b   == BechDecode(str, ConstOfVersion(ver))
                 IN IF ver > 16 \/ ~b.ok THEN Fail
                    ELSE IF b.v.hrp \notin SegwitHrps THEN Fail
                    ELSE LET prog == ConvertBits5to8(Tail(b.v.data))
                         IN IF ~prog.ok THEN Fail
                            ELSE IF ~ValidProgram(ver, Len(prog.v)) THEN Fail
                            ELSE Ok([hrp |-> b.v.hrp, ver |-> ver, prog |-> prog.v])

(* total classifier: TRUE exactly for valid segwit addresses *)
Classify(bytes) == SegwitDecode(bytes).ok
=============================================================================
