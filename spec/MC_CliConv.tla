----------------------------- MODULE MC_CliConv -----------------------------
(* Stage A (conversion): exhaustive over short byte / hex / bit strings.  One  *)
(* initial state per case; the property's clauses are the invariants.         *)
EXTENDS Cli
CONSTANTS ByteAlpha, MaxBytes, HexAlpha, MaxHex, MaxBits,
          ZeroDigit      \* vacuity self-test: TRUE = "no bytes" is rendered as the digit 0 (what format(0, "00x") does)
VARIABLES c, ph     \* ph: "new" -> "judged"; the clauses are evaluated on the second state, i.e. by TLC's parallel workers

W(b, f) == IF ZeroDigit /\ b = <<>> /\ f # "raw" THEN <<48, NL>> ELSE WriteBytes(b, f)
Conv(t, f, g) == LET r == ReadBytes(t, f) IN IF r.ok THEN Ok(W(r.v, g)) ELSE Fail

(* all strings over alpha of length 0..n *)
Strings(alpha, n) == UNION {[1..k -> alpha] : k \in 0..n}

Cases == [k : {"raw"}, v : Strings(ByteAlpha, MaxBytes)]
         \cup [k : {"hex"}, v : Strings(HexAlpha, MaxHex)]
         \cup [k : {"bin"}, v : Strings({48, 49}, MaxBits)]
Init == c \in Cases /\ ph = "new"
Judge == ph = "new" /\ ph' = "judged" /\ UNCHANGED c
Next == Judge

(* "for every byte string and every pair of formats, converting and converting back  *)
(*  returns the original bytes": b rendered in f, converted f -> g, converted g -> f, *)
(*  read in f                                                                        *)
RoundTrip == (ph = "judged" /\ c.k = "raw") =>
    \A f \in Formats, g \in Formats :
        LET t1 == W(c.v, f)
            t2 == Conv(t1, f, g)
            t3 == IF t2.ok THEN Conv(t2.v, g, f) ELSE Fail
            b2 == IF t3.ok THEN ReadBytes(t3.v, f) ELSE Fail
        IN /\ t2.ok /\ t3.ok /\ b2 = Ok(c.v)
           /\ ReadBytes(t2.v, g) = Ok(c.v)          \* nothing is lost half way either
           /\ t3.v = t1                              \* and the rendering is canonical

(* raw is the identity, newline bytes included *)
RawExact == (ph = "judged" /\ c.k = "raw") => ReadBytes(c.v, "raw") = Ok(c.v) /\ W(c.v, "raw") = c.v
SameAsSpec == (ph = "judged" /\ ~ZeroDigit /\ c.k = "raw") => \A f \in Formats, g \in Formats : W(c.v, f) = WriteBytes(c.v, f) /\ Conv(c.v, f, g) = Convert(c.v, f, g)

Lower(ch) == IF ch \in 65..70 THEN ch + 32 ELSE ch
RECURSIVE DigitsVal(_, _)
DigitsVal(s, base) == IF s = <<>> THEN 0 ELSE DigitsVal(Front(s), base) * base + HexVal(Last(s))

(* "hex or binary input that is not a whole number of bytes is left-padded with zeros" *)
Padding == (ph = "judged" /\ c.k \in {"hex", "bin"}) =>
    LET unit == IF c.k = "hex" THEN 2 ELSE 8
        base == IF c.k = "hex" THEN 16 ELSE 2
        r    == ReadBytes(c.v, c.k)
        pad  == PadLeft(c.v, unit)
    IN /\ r.ok
       /\ Len(r.v) * unit = Len(pad) /\ Len(pad) - Len(c.v) \in 0..(unit - 1)
       /\ W(r.v, c.k) = [i \in 1..Len(pad) |-> Lower(pad[i])] \o <<NL>>   \* zeros on the LEFT, digits kept
       /\ FromBE(r.v) = DigitsVal(c.v, base)                                        \* the number is unchanged
       /\ r = ReadBytes(pad, c.k)

(* surrounding newlines do not matter for text formats *)
Wraps == {<<>>, <<NL>>, <<NL, NL>>, <<CR, NL>>}
Newlines == (ph = "judged" /\ c.k \in {"hex", "bin"}) =>
    \A pre \in Wraps, post \in Wraps : ReadBytes(pre \o c.v \o post, c.k) = ReadBytes(c.v, c.k)

(* every pair of formats converts text input without loss *)
ConvertLossless == (ph = "judged" /\ c.k \in {"hex", "bin"}) =>
    \A g \in Formats : LET t == Conv(c.v, c.k, g) IN t.ok /\ ReadBytes(t.v, g) = ReadBytes(c.v, c.k)
=============================================================================
