CONSTANTS
Cmds = {"key", "pubkey", "sha256"}
Opts = {"output_format"}
TomlModes = {TRUE}
Dev = {"unmarked-redeclared"}
INIT Init
NEXT Next
INVARIANT PolicyHolds
CHECK_DEADLOCK FALSE
