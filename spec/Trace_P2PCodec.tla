--------------------------- MODULE Trace_P2PCodec ---------------------------
(***************************************************************************)
(* Stage C for C17 (codecs): one event per build -> parse round trip of    *)
(* the real bits.p2p functions:                                            *)
(*   [id, k, v : the value the payload was built from (JSON shape below),  *)
(*    built : [ok, b], parsed : [ok, v]]                                   *)
(* The verdict clause is the property, parse(build(v)) = v; the spec's     *)
(* Build/Parse (at the real hash length) tell whether a failing round trip *)
(* is the parser's fault (the built bytes are the protocol's) and check    *)
(* the fields the real version builder hard-codes.                         *)
(***************************************************************************)
EXTENDS P2PCodec, Json, IOUtils, TLC
Trace == JsonDeserialize(IOEnv.TRACE_FILE)
VARIABLE l

S(x) == [i \in 1..Len(x) |-> x[i]]
(* JSON value -> the spec's value *)
ToSpec(k, j) ==
    CASE k = "ping" -> [nonce |-> S(j.nonce)]
      [] k = "getheaders" -> [pv |-> S(j.pv), hashes |-> [i \in 1..Len(j.hashes) |-> S(j.hashes[i])], stop |-> S(j.stop)]
      [] k = "inv" -> [items |-> [i \in 1..Len(j.items) |-> [type |-> j.items[i].type, hash |-> S(j.items[i].hash)]]]
      [] k = "addr" -> [addrs |-> [i \in 1..Len(j.addrs) |-> [time |-> S(j.addrs[i].time), services |-> S(j.addrs[i].services),
                                                              ip |-> S(j.addrs[i].ip), port |-> j.addrs[i].port]]]
Counted(k) == k \in {"getheaders", "inv"}      \* the real parser also reports the count

Generic(e) ==
    LET v == ToSpec(e.k, e.v) IN
    IF ~RoundTrips(e.k, v) THEN "machinery-value-outside-the-spec-domain"
    ELSE IF ~e.built.ok THEN "build-raised"
    ELSE IF ~e.parsed.ok THEN "parse-raised"
    ELSE IF ToSpec(e.k, e.parsed.v) # v \/ (Counted(e.k) /\ e.parsed.v.n # e.v.n)
         THEN (IF S(e.built.b) = Build(e.k, v) THEN "parse-wrong" ELSE "roundtrip-differs")
    ELSE "ok"

(* version: v holds the builder's arguments (and the stubbed clock); relay is 0/1, 2 = key missing in the parsed dict *)
ArgsJ(j) == <<S(j.pv), S(j.services), S(j.timestamp), j.recv_port, j.trans_port, S(j.start_height), j.relay>>
ArgsS(r) == <<r.pv, r.services, r.timestamp, r.recv_port, r.trans_port, r.start_height, IF r.relay THEN 1 ELSE 0>>
RestJ(j) == <<S(j.recv_services), S(j.recv_ip), S(j.trans_services), S(j.trans_ip), S(j.nonce), S(j.ua)>>
RestS(r) == <<r.recv_services, r.recv_ip, r.trans_services, r.trans_ip, r.nonce, r.ua>>
Version(e) ==
    IF ~e.built.ok THEN "build-raised"
    ELSE LET sp == ParseVersion(S(e.built.b)) IN
         IF ~e.parsed.ok THEN "parse-raised"
         ELSE IF ArgsJ(e.parsed.v) # ArgsJ(e.v)
              THEN (IF sp.ok /\ ArgsS(sp.v) = ArgsJ(e.v) THEN "parse-wrong" ELSE "roundtrip-differs")
         ELSE IF sp.ok /\ RestJ(e.parsed.v) # RestS(sp.v) THEN "parse-wrong"
         ELSE IF e.v.check_ua /\ S(e.parsed.v.ua) # S(e.v.ua) THEN "roundtrip-differs"
         ELSE "ok"

Verdict(e) == LET r == IF e.k = "version" THEN Version(e) ELSE Generic(e)
              IN IF r \in {"ok", "machinery-value-outside-the-spec-domain"} THEN r ELSE e.k \o "-" \o r

Init == l = 1
Next == /\ l <= Len(Trace)
        /\ PrintT(<<"V", Trace[l].id, Verdict(Trace[l])>>)
        /\ l' = l + 1
=============================================================================
