---------------------------- MODULE Trace_Bip143 ----------------------------
(* Stage C (C11): every recorded call of bits.bips.bip143.witness_message is       *)
(* recomputed by the specification with the real SHA-256 (native = TRUE) and        *)
(* compared byte for byte; a mismatch is attributed to the first differing field.  *)
(*   msg [version, ins, outs, idx, amount, sc, flag, locktime, ok, r]              *)
(*       ins = <<[prev, seq]>>, 4/8-byte fields little-endian byte arrays          *)
(*   vec  same with r = the published preimage and digest (spec self-test)         *)
EXTENDS Bip143, Json, IOUtils, TLC
Trace == JsonDeserialize(IOEnv.TRACE_FILE)
VARIABLE l

Exp(e) == Preimage(e.version, e.ins, e.outs, e.idx, e.amount, e.sc, e.flag, e.locktime)
Seg(b, a, n) == SubSeq(b, a, a + n - 1)
FirstDiff(e, x) ==
    LET n == Len(VarInt(Len(e.sc))) + Len(e.sc) IN
    IF Len(e.r) # Len(x) THEN "msg-length"
    ELSE IF Seg(e.r, 1, 4) # Seg(x, 1, 4) THEN "msg-version"
    ELSE IF Seg(e.r, 5, 32) # Seg(x, 5, 32) THEN "msg-hashPrevouts"
    ELSE IF Seg(e.r, 37, 32) # Seg(x, 37, 32) THEN "msg-hashSequence"
    ELSE IF Seg(e.r, 69, 36) # Seg(x, 69, 36) THEN "msg-outpoint"
    ELSE IF Seg(e.r, 105, n) # Seg(x, 105, n) THEN "msg-scriptCode"
    ELSE IF Seg(e.r, 105 + n, 8) # Seg(x, 105 + n, 8) THEN "msg-amount"
    ELSE IF Seg(e.r, 113 + n, 4) # Seg(x, 113 + n, 4) THEN "msg-sequence"
    ELSE IF Seg(e.r, 117 + n, 32) # Seg(x, 117 + n, 32) THEN "msg-hashOutputs"
    ELSE IF Seg(e.r, 149 + n, 4) # Seg(x, 149 + n, 4) THEN "msg-locktime"
    ELSE "msg-sighash-type"
Verdict(e) ==
    CASE e.op = "msg" ->
           IF ~e.ok THEN "msg-raised"
           ELSE LET x == Exp(e) IN IF e.r = x THEN "ok" ELSE FirstDiff(e, x)
      [] e.op = "vec" ->
           LET x == Exp(e) IN
           IF e.r # x THEN "vector-" \o FirstDiff(e, x)
           ELSE IF e.digest # <<>> /\ Digest(x) # e.digest THEN "vector-digest"
           ELSE IF PreimageWith(RulesCodeShaped(e.flag, e.idx, Len(e.outs)), e.version, e.ins, e.outs, e.idx, e.amount,
                                e.sc, e.flag, e.locktime) # x THEN "vector-rules-disagree"
           ELSE "ok"
      [] OTHER -> "unknown-op"

Init == l = 1
Next == /\ l <= Len(Trace)
        /\ PrintT(<<"V", Trace[l].id, Verdict(Trace[l])>>)
        /\ l' = l + 1
=============================================================================
