\* stage B generator: behaviours for -simulate (no fairness needed)
CONSTANTS NPeers = 2  MaxMsgs = 2  Kinds = {"ping", "version", "verack", "inv", "addr", "unknown"}  Faults = TRUE
MaxStops = 2  MaxIbd = 2  DirectKinds = {"inv500", "inv1", "getheaders", "feefilter", "sendheaders", "nohandler"}  MaxDirect = 2  Devs = {}
SeedSet = {0, 1, 2}  RpcSet = {TRUE, FALSE}
INIT Init
NEXT Next
INVARIANT TypeOK
INVARIANT Numbering
INVARIANT HelloFirst
INVARIANT CloseOnce
INVARIANT AfterStopBounded
INVARIANT Accounted
INVARIANT NoStrangers
INVARIANT StoppedMeans
INVARIANT ExitOnlyByStop
INVARIANT IbdOnce
ACTION_CONSTRAINT SimBias
CHECK_DEADLOCK FALSE
