------------------------------ MODULE Gen_Cli ------------------------------
(* Stage B: TLC enumerates EVERY configuration of the product and writes it   *)
(* with the value the specification's pipeline puts into effect (which stage  *)
(* A proves equal to the policy) and the layer it comes from; the harness     *)
(* replays every row through the real bits.__main__.main().                   *)
EXTENDS Cli, Json, IOUtils, TLC, SequencesExt
CONSTANTS Cmds, Opts, TomlModes
Row(c) == [cmd |-> c.cmd, opt |-> c.opt, pos |-> c.pos, xv |-> c.xv,
           jk |-> c.json.kind, jv |-> c.json.v, tk |-> c.toml.kind, tv |-> c.toml.v,
           unknown |-> c.unknown, tomlsup |-> c.tomlsup,
           exp |-> Effective(c, {})[c.opt], src |-> Source(c), dflt |-> Default(c.opt)]
Rows == SetToSeq({Row(c) : c \in Configs(Cmds, Opts, TomlModes)})
ASSUME JsonSerialize(IOEnv.OUT_FILE, Rows)
ASSUME PrintT(<<"ROWS", Len(Rows)>>)
=============================================================================
