------------------------------- MODULE MC_Send -------------------------------
(* Stage A for C16 (Big = FALSE, toy hashes): the build machine conserves   *)
(* value for every small UTXO list / fraction / fee, and the legacy and     *)
(* BIP143 signature hashes commit to exactly what each sighash type says.   *)
EXTENDS Send, FiniteSets, TLC
CONSTANTS Amounts, MaxUtxos, Fees
VARIABLE c
TxidOf(i) == Rep(i, 32)
RECURSIVE Lists(_, _)
Lists(S, n) == IF n = 0 THEN {<<>>} ELSE LET L == Lists(S, n - 1) IN L \cup {Append(l, a) : l \in {x \in L : Len(x) = n - 1}, a \in S}
Utxos(amts) == [j \in 1..Len(amts) |-> [txid |-> TxidOf(j), vout |-> <<j % 3, 0, 0, 0>>, sat |-> amts[j], script |-> <<81>>]]
Par(num, den, fee) == [num |-> num, den |-> den, fee |-> fee, version |-> <<2, 0, 0, 0>>, lock |-> <<0, 0, 0, 0>>,
                       recip |-> <<82>>, change |-> <<83>>]
Init == c \in [k : {"group"}, a : Amounts]
Next == /\ c.k = "group"
        /\ c' \in [k : {"send"}, amts : {l \in Lists(Amounts, MaxUtxos) : l # <<>> /\ l[1] = c.a},
                   frac : {<<1, 4>>, <<1, 2>>, <<3, 4>>, <<1, 1>>}, fee : Fees]
                  \cup (IF c.a = CHOOSE x \in Amounts : TRUE
                        THEN [k : {"sighash"}, flag : StandardFlags, nin : 1..3, nout : 1..3, idx : 0..2] ELSE {})
U == Utxos(c.amts)
P == Par(c.frac[1], c.frac[2], c.fee)
Feasible == c.fee <= Requested(U, P)
BuildConserves == (c.k = "send" /\ Feasible) => SendClause(SendBuild(U, P), U, P) = "ok"
SelectMinimal == (c.k = "send") =>
    LET k == SelectCount(U, P) IN
    /\ k \in 1..Len(U)
    /\ (k < Len(U) => Requested(U, P) <= SumFirst(U, k))
    /\ (k > 1 => SumFirst(U, k - 1) < Requested(U, P))
(* a transaction that fails a clause is rejected by SendClause (non-vacuity of the predicate) *)
TamperDetected == (c.k = "send" /\ Feasible) =>
    LET t == SendBuild(U, P)
        t2 == [t EXCEPT !.outs[1].value = Sat8(NSub(Requested(U, P), P.fee) + 2)]
        t3 == [t EXCEPT !.ins[1].vout = <<9, 9, 9, 9>>]
    IN SendClause(t2, U, P) # "ok" /\ SendClause(t3, U, P) # "ok"

(* ---- sighash commitments on tiny transactions (toy hash: only equality matters) ---- *)
T0 == MkTx(<<1, 0, 0, 0>>, [j \in 1..c.nin |-> TxIn(TxidOf(j), <<j, 0, 0, 0>>, <<j>>, <<j, j, 0, 0>>)],
           [j \in 1..c.nout |-> TxOut(<<j, 0, 0, 0, 0, 0, 0, 0>>, <<80 + j>>)], <<>>, <<7, 0, 0, 0>>)
Dg(t) == LegacyDigest(t, c.idx, <<172>>, c.flag)
Wd(t) == WitnessDigest(t, c.idx, <<5, 0, 0, 0, 0, 0, 0, 0>>, <<172>>, c.flag)
InRangeCase == c.k = "sighash" /\ c.idx < c.nin
OutChanged(j) == [T0 EXCEPT !.outs[j].value = <<99, 0, 0, 0, 0, 0, 0, 0>>]
SeqChanged(j) == [T0 EXCEPT !.ins[j].seq = <<9, 9, 9, 9>>]
PrevChanged(j) == [T0 EXCEPT !.ins[j].vout = <<9, 9, 9, 9>>]
CommitsOutputs == InRangeCase => \A j \in 1..c.nout :
    LET committed == BaseType(c.flag) = SIGHASH_ALL \/ (BaseType(c.flag) = SIGHASH_SINGLE /\ j = c.idx + 1)
        single_oob == BaseType(c.flag) = SIGHASH_SINGLE /\ c.idx >= c.nout IN
    /\ (committed => Wd(OutChanged(j)) # Wd(T0))
    /\ (~committed => Wd(OutChanged(j)) = Wd(T0))
    /\ (~single_oob => (committed <=> Dg(OutChanged(j)) # Dg(T0)))
    /\ (single_oob => Dg(T0) = One32)
CommitsOtherInputs == InRangeCase => \A j \in 1..c.nin : j # c.idx + 1 =>
    LET acp == AnyoneCanPay(c.flag)  all == BaseType(c.flag) = SIGHASH_ALL
        oob == BaseType(c.flag) = SIGHASH_SINGLE /\ c.idx >= c.nout IN
    /\ (Wd(PrevChanged(j)) # Wd(T0)) = ~acp
    /\ (Wd(SeqChanged(j)) # Wd(T0)) = (~acp /\ all)
    /\ (~oob => (Dg(PrevChanged(j)) # Dg(T0)) = ~acp)
    /\ (~oob => (Dg(SeqChanged(j)) # Dg(T0)) = (~acp /\ all))
CommitsOwnInput == InRangeCase => /\ Wd(SeqChanged(c.idx + 1)) # Wd(T0) /\ Wd(PrevChanged(c.idx + 1)) # Wd(T0)
=============================================================================
