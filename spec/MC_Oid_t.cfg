CONSTANTS Big = TRUE
INIT Init
NEXT Next
INVARIANT RoundTrip
INVARIANT Refuses
INVARIANT Canonical
INVARIANT Vectors
INVARIANT Minimal
INVARIANT Emit
CHECK_DEADLOCK FALSE
