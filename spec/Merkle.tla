------------------------------- MODULE Merkle -------------------------------
(***************************************************************************)
(* Bitcoin's merkle tree root (C15).  The node combiner H is a parameter:  *)
(* a free term constructor in stage A/B (so that equality of roots is      *)
(* equality of tree SHAPES) and HASH256(a ++ b) in stage C.                *)
(*                                                                         *)
(*   - Reduce machine: variable `row`; ONE action per tree level           *)
(*     (LevelEven / LevelOdd); a level with an odd number of nodes first   *)
(*     duplicates its last node - at EVERY level, not only at the leaves.  *)
(*   - MerkleRec: the textbook definition, top-down by (height, index).    *)
(***************************************************************************)
EXTENDS Prim
CONSTANT H(_, _)

IsOdd(n) == (n % 2) = 1

(* ---- one level ---- *)
PadOdd(r)  == IF IsOdd(Len(r)) THEN Append(r, Last(r)) ELSE r
Pairs(r)   == [i \in 1..(Len(r) \div 2) |-> H(r[(2 * i) - 1], r[2 * i])]
LevelUp(r) == Pairs(PadOdd(r))

(* the code's loop as an operator: repeat LevelUp until one node is left *)
RECURSIVE Reduce(_)
Reduce(r) == IF Len(r) = 1 THEN r[1] ELSE Reduce(LevelUp(r))

(* ---- textbook definition: node (d, i) of the tree over `leaves` ---- *)
RECURSIVE CountAt(_, _)
CountAt(n, d) == IF d = 0 THEN n ELSE (CountAt(n, d - 1) + 1) \div 2
RECURSIVE Height(_)
Height(n) == IF n = 1 THEN 0 ELSE 1 + Height((n + 1) \div 2)
RECURSIVE Node(_, _, _)
Node(leaves, d, i) ==
    IF d = 0 THEN leaves[i]
    ELSE LET below == CountAt(Len(leaves), d - 1)
             l == (2 * i) - 1
             r == IF 2 * i <= below THEN 2 * i ELSE l        \* no right sibling: pair with itself
         IN H(Node(leaves, d - 1, l), Node(leaves, d - 1, r))
MerkleRec(leaves) == Node(leaves, Height(Len(leaves)), 1)
RowRec(leaves, d) == [i \in 1..CountAt(Len(leaves), d) |-> Node(leaves, d, i)]

(* ---- the reduction machine ---- *)
VARIABLES row, lvl          \* lvl = number of levels done (bounded by log2 N + 1; deterministic)
vars == <<row, lvl>>

LevelEven == /\ Len(row) > 1 /\ ~IsOdd(Len(row))
             /\ row' = Pairs(row) /\ lvl' = lvl + 1
LevelOddLeaves == /\ Len(row) > 1 /\ IsOdd(Len(row)) /\ lvl = 0
                  /\ row' = Pairs(Append(row, Last(row))) /\ lvl' = lvl + 1
LevelOddAbove  == /\ Len(row) > 1 /\ IsOdd(Len(row)) /\ lvl > 0
                  /\ row' = Pairs(Append(row, Last(row))) /\ lvl' = lvl + 1
(* named deviation, never enabled in a check: an unpaired node of an upper level is carried *)
(* up unhashed ("promote") instead of being paired with itself                           *)
LevelOddAbovePromote == /\ Len(row) > 1 /\ IsOdd(Len(row)) /\ lvl > 0
                        /\ row' = Append(Pairs(Front(row)), Last(row)) /\ lvl' = lvl + 1
Done == Len(row) = 1 /\ UNCHANGED vars
=============================================================================
