CONSTANTS MaxTxs = 3  WrongId = TRUE
INIT Init
NEXT Next
INVARIANT RoundTrip
INVARIANT NeverFails
INVARIANT OperatorForm
INVARIANT Progress
CHECK_DEADLOCK FALSE
