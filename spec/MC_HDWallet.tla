---------------------------- MODULE MC_HDWallet ----------------------------
(***************************************************************************)
(* Stage A (and the behaviour generator of stage B) for the HD wallet life *)
(* cycle: HDWallet.tla at toy size (Big = FALSE: small curve, toy hashes,  *)
(* 5-bit word groups, 32 one-letter words, entropy of 8 / 16 bits).        *)
(* Extended-key "strings" are the bare 78-byte payloads and addresses the  *)
(* bare 21 bytes (KeyStr / KeyOf / AddrStr replaced in the cfg): Base58 is *)
(* checked by MC_Base58 and MC_Bip32's StrLevel.                           *)
(*                                                                         *)
(* The process: up to MaxWallets wallets are created by New(passphrase,    *)
(* strength) (strengths include an invalid one), FromMnemonic of given     *)
(* sentences (two valid, one with a wrong checksum) or of the mnemonic of  *)
(* an existing wallet (restore), in every order, interleaved with queries: *)
(* RootKeys, XKeysFromPath over all paths up to MaxPathLen, and XPubOf /   *)
(* P2pkhOf / DeriveChild applied to root keys or to what the previous      *)
(* query returned (chains up to depth MaxDepth).                           *)
(*                                                                         *)
(* ghost (model only) carries how the key argument of the last call was    *)
(* picked and the abstract identity [cls, path, pub] of every string in    *)
(* out.v (cls = first wallet with the same mnemonic and passphrase): the   *)
(* stage-B replay resolves arguments and compares identities through it.   *)
(*                                                                         *)
(* pending (model only) splits a step in two for TLC's simulation mode     *)
(* (SimNext: Pick a call, then Exec it); it is constant under MCNext.      *)
(*                                                                         *)
(* cfgs: _q (2 wallets, short chains), _t (2 wallets, longer paths and     *)
(* chains), _t3 (3 wallets), _ti (2 wallets, every interleaving of         *)
(* creations and queries: Interleave = TRUE), _sim (3 wallets, SimNext,    *)
(* behaviour generator of stage B).  _dev_shared / _dev_fresh /            *)
(* _dev_immutable set ClassLevelMnemonic = TRUE: TLC must report           *)
(* NoSharedState, NewIsFresh and Immutable violated (vacuity guard).       *)
(***************************************************************************)
EXTENDS HDWallet, TLC, FiniteSets
CONSTANTS MaxWallets, PassSel, Strengths, GivenSel, PathIdxSel, MaxPathLen, ChildIdxSel, MaxDepth, ScriptSel, Interleave
VARIABLES ghost, pending
mcvars == <<wallets, rng, shared, call, out, ghost, pending>>

(* strings abstracted to payloads *)
MCKeyStr(x)  == SerXKey(x)
MCKeyOf(s)   == DeserXKey(s)
MCAddrStr(p) == p

AllIdx   == <<<<0, 0, 0, 0>>, <<0, 0, 0, 1>>, <<127, 255, 255, 255>>, <<128, 0, 0, 0>>, <<128, 0, 0, 1>>, <<255, 255, 255, 255>>>>
PathIdx  == {AllIdx[n] : n \in PathIdxSel}
ChildIdx == {AllIdx[n] : n \in ChildIdxSel}
RECURSIVE SeqsUpTo(_, _)
SeqsUpTo(S, n) == IF n = 0 THEN {<<>>}
                  ELSE LET T == SeqsUpTo(S, n - 1) IN T \cup {Append(t, a) : t \in {u \in T : Len(u) = n - 1}, a \in S}
Paths == SeqsUpTo(PathIdx, MaxPathLen)

AllPasses == << <<>>, <<112>>, <<112, 228>> >>
Passes == {AllPasses[n] : n \in PassSel}
AllScripts == << << <<5, 9>>, <<200, 17>>, <<5, 77>> >>,
                 << <<131, 2>>, <<131, 2>>, <<64, 250>> >> >>          \* (a source that repeats itself: draws stay distinct)
Scripts == {AllScripts[n] : n \in ScriptSel}

FlipLast(m) == [m EXCEPT ![Len(m)] = LET i == WordIndex(<<@>>) IN Word(IF i % 2 = 0 THEN i + 1 ELSE i - 1)[1]]
AllGiven == << MnemonicOfEntropy(<<5>>).v,               \* the sentence New(.., 8) makes from the first script's first draw
               MnemonicOfEntropy(<<77, 130>>).v,
               FlipLast(MnemonicOfEntropy(<<9>>).v),     \* lowest checksum bit flipped: not a valid mnemonic
               <<66, 32, 33>> >>                         \* "B !": not even list words
Given == {AllGiven[n] : n \in GivenSel}

(* ---- abstract identities ---- *)
Name(cls, path, pub) == [cls |-> cls, path |-> path, pub |-> pub]
SameWallet(i, j) == wallets[i].mn = wallets[j].mn /\ wallets[i].pass = wallets[j].pass
ClassOf(w) == CHOOSE j \in 1..w : SameWallet(j, w) /\ \A k \in 1..(j - 1) : ~SameWallet(k, w)
KeyOps == {"root", "xkeys", "xpub", "child"}
(* Interleave = FALSE is a reduction for exhaustive checking: creating wallets and queries that start from a wallet *)
(* happen in states reached by a creation; from a query state only its result is chained on.  Nothing is lost:     *)
(* QueriesPure shows that a query leaves <<wallets, rng, shared>> alone, and what a call returns depends on        *)
(* nothing else.  Interleave = TRUE (simulation for stage B, and a smaller exhaustive cfg) allows every order.     *)
AtCreation == Interleave \/ call.op \in CreateOps \cup {"none"}
RootRefs == IF AtCreation THEN {<<"root", w, k>> : w \in 1..Len(wallets), k \in {1, 2}} ELSE {}
OutRefs  == IF call.op \in KeyOps /\ out.ok THEN {<<"out", 0, k>> : k \in 1..Len(out.v)} ELSE {}
Refs == RootRefs \cup OutRefs
KeyAt(ref)  == IF ref[1] = "root" THEN (IF ref[3] = 1 THEN wallets[ref[2]].xprv ELSE wallets[ref[2]].xpub) ELSE out.v[ref[3]]
NameAt(ref) == IF ref[1] = "root" THEN Name(ClassOf(ref[2]), <<>>, ref[3] = 2) ELSE ghost.names[ref[3]]
NoRef == <<"none", 0, 0>>
Gh(ref, names) == [ref |-> ref, names |-> names]

(* ---- the calls enabled in a state, each with the ghost it leaves behind ---- *)
X(c, ref, names) == [call |-> c, ghost |-> Gh(ref, names)]
CanCreate == AtCreation /\ Len(wallets) < MaxWallets
NewCalls     == IF CanCreate THEN {X(NewCall(p, s), NoRef, <<>>) : p \in Passes, s \in Strengths} ELSE {}
FromCalls    == IF CanCreate THEN {X(FromCall(m, p), NoRef, <<>>) : m \in Given, p \in Passes} ELSE {}
RestoreCalls == IF CanCreate THEN {X(FromCall(wallets[w].mn, p), <<"mn", w, 0>>, <<>>) : w \in 1..Len(wallets), p \in Passes} ELSE {}
RootCalls    == IF AtCreation THEN {X(RootCall(w), NoRef, <<Name(ClassOf(w), <<>>, FALSE), Name(ClassOf(w), <<>>, TRUE)>>) :
                                        w \in 1..Len(wallets)} ELSE {}
XKeysCalls   == IF AtCreation THEN {X(XKeysCall(w, path), NoRef, <<Name(ClassOf(w), path, FALSE), Name(ClassOf(w), path, TRUE)>>) :
                                        w \in 1..Len(wallets), path \in Paths} ELSE {}
XPubCalls    == {X(XPubCall(KeyAt(ref)), ref, <<[NameAt(ref) EXCEPT !.pub = TRUE]>>) : ref \in Refs}
P2pkhCalls   == {X(P2pkhCall(KeyAt(ref)), ref, <<NameAt(ref)>>) : ref \in Refs}
ChildCalls   == {X(ChildCall(KeyAt(ref), i), ref, <<[NameAt(ref) EXCEPT !.path = Append(@, i)]>>) :
                    ref \in {r \in Refs : Len(NameAt(r).path) < MaxDepth}, i \in ChildIdx}
NoPending == X(BlankCall, NoRef, <<>>)

MCInit == /\ \E sc \in Scripts : InitWith(sc)
          /\ ghost = Gh(NoRef, <<>>)
          /\ pending = NoPending

(* one action per call of HDWallet (the parameters are in call', so that the action labels stay short) *)
Step(x) == /\ pending = NoPending /\ UNCHANGED pending /\ ghost' = x.ghost
           /\ CASE x.call.op = "new"   -> New(x.call.p, x.call.s)
                [] x.call.op = "from"  -> FromMnemonic(x.call.m, x.call.p)
                [] x.call.op = "root"  -> RootKeys(x.call.w)
                [] x.call.op = "xkeys" -> XKeysFromPath(x.call.w, x.call.path)
                [] x.call.op = "xpub"  -> XPubOf(x.call.key)
                [] x.call.op = "p2pkh" -> P2pkhOf(x.call.key)
                [] x.call.op = "child" -> DeriveChild(x.call.key, x.call.i)
ANew     == \E x \in NewCalls : Step(x)
AFrom    == \E x \in FromCalls : Step(x)
ARestore == \E x \in RestoreCalls : Step(x)
ARoot    == \E x \in RootCalls : Step(x)
AXKeys   == \E x \in XKeysCalls : Step(x)
AXPub    == \E x \in XPubCalls : Step(x)
AP2pkh   == \E x \in P2pkhCalls : Step(x)
AChild   == \E x \in ChildCalls : Step(x)
MCNext == ANew \/ AFrom \/ ARestore \/ ARoot \/ AXKeys \/ AXPub \/ AP2pkh \/ AChild

(* the same relation in two phases, for TLC's simulation mode (which enumerates ALL successors of every state it  *)
(* visits): Pick chooses one enabled call - no hashing, no curve arithmetic - and Exec performs it               *)
Pick == /\ pending = NoPending
        /\ \E x \in NewCalls \cup FromCalls \cup RestoreCalls \cup RootCalls \cup XKeysCalls \cup XPubCalls \cup P2pkhCalls \cup ChildCalls :
              pending' = x
        /\ UNCHANGED <<wallets, rng, shared, call, out, ghost>>
Exec == /\ pending # NoPending
        /\ Do(pending.call) /\ ghost' = pending.ghost /\ pending' = NoPending
SimNext == Pick \/ Exec
MCSpec == MCInit /\ [][MCNext]_mcvars

(* the wallet-level invariants of HDWallet, evaluated in the states in which wallets can have changed *)
(* (a query leaves them alone: QueriesPure)                                                           *)
Changed == call.op \notin QueryOps
MC_FreshEntropy == Changed => FreshEntropy
MC_Consistent   == Changed => Consistent
MC_Restore      == Changed => Restore

(* ---- model-level sanity ---- *)
ListOk == WordListSorted /\ \A i \in 0..(ListSize - 1) : WordIndex(Word(i)) = i
GivenOk == /\ EntropyOfMnemonic(AllGiven[1]) = Ok(<<5>>) /\ EntropyOfMnemonic(AllGiven[2]) = Ok(<<77, 130>>)
           /\ ~EntropyOfMnemonic(AllGiven[3]).ok /\ ~EntropyOfMnemonic(AllGiven[4]).ok
           /\ Len(SplitWords(AllGiven[1])) = 2 /\ Len(SplitWords(AllGiven[2])) = 4
ASSUME ListOk
ASSUME GivenOk
(* the abstract identities are faithful: strings with the same identity are the same string *)
GhostSound ==
    /\ call.op \in KeyOps /\ out.ok => Len(ghost.names) = Len(out.v)
    /\ call.op \in {"xkeys", "root", "xpub", "child"} /\ out.ok =>
          \A k \in 1..Len(out.v) : LET nm == ghost.names[k]  w == wallets[nm.cls]
                                       d == Derive(MasterXKey(w.mk, w.mc), nm.path) IN
              d.ok /\ out.v[k] = KeyStr(IF nm.pub THEN NeuterX(d.v) ELSE d.v)
(* different (mnemonic, passphrase) -> different seeds and root keys (no accidental toy collision in this model) *)
NoCollision == Changed => \A i, j \in 1..Len(wallets) : ~SameWallet(i, j) => wallets[i].seed # wallets[j].seed /\ wallets[i].xprv # wallets[j].xprv
(* census of refusals (vacuity guard: the harness requires the classes to occur) *)
Census == (~out.ok /\ call.op # "none") => PrintT(<<"B", call.op, out.why>>)
=============================================================================
