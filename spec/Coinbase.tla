------------------------------ MODULE Coinbase ------------------------------
(***************************************************************************)
(* Coinbase transaction rules (C15):                                       *)
(*   BIP34  height push: the coinbase script starts with `CScript() <<     *)
(*          height`: OP_0, OP_1..OP_16, else the minimal little-endian     *)
(*          sign-magnitude script number behind a direct length byte;      *)
(*   the coinbase script never exceeds 100 bytes;                          *)
(*   Subsidy(h) = 50 BTC >> (h div interval), 0 from 64 halvings           *)
(*          (Bitcoin Core GetBlockSubsidy), interval 210000 / 150;         *)
(*   BIP141 commitment output 6a 24 aa21a9ed ++ commitment and the         *)
(*          32-zero-byte reserved value as the coinbase input's witness    *)
(*          exactly when a witness commitment is supplied.                 *)
(* Amounts are Native big naturals (big-endian, no leading zeros) because  *)
(* 50e8 > 2^31; stage A runs the same operators on a base scaled by 2^-6.  *)
(* A small local transaction cursor (legacy + BIP144 framing) is included  *)
(* so that produced transactions are judged field by field.               *)
(***************************************************************************)
EXTENDS Prim

(* ------------------------------------------------------------------ BIP34 *)
RECURSIVE MagLE(_)
MagLE(n) == IF n = 0 THEN <<>> ELSE <<n % 256>> \o MagLE(n \div 256)
(* CScriptNum::serialize for n >= 0 *)
ScriptNum(n) == LET m == MagLE(n) IN IF m # <<>> /\ Last(m) >= 128 THEN Append(m, 0) ELSE m
(* CScript::push_int64 *)
HeightPush(h) == IF h = 0 THEN <<0>>
                 ELSE IF h <= 16 THEN <<80 + h>>
                 ELSE LET s == ScriptNum(h) IN <<Len(s)>> \o s

(* The interpreter's view, written independently: read the first element of a script,  *)
(* decode it as a number (CScriptNum with the sign bit in the last byte), and say       *)
(* whether push and number are minimal (CheckMinimalPush / IsMinimallyEncoded).         *)
RECURSIVE MagValue(_)
MagValue(b) == IF b = <<>> THEN 0 ELSE Head(b) + 256 * MagValue(Tail(b))
NumMinimal(d) == \/ d = <<>>
                 \/ (Last(d) % 128) # 0
                 \/ (Len(d) > 1 /\ d[Len(d) - 1] >= 128)
PushMinimal(op, d) == IF d = <<>> THEN op = 0
                      ELSE IF Len(d) = 1 /\ d[1] \in 1..16 THEN op = 80 + d[1]
                      ELSE IF Len(d) = 1 /\ d[1] = 129 THEN op = 79
                      ELSE op = Len(d)
(* Ok([h, neg, rest, minimal]) for the opcodes a height push can use (0, 1..75, 81..96) *)
DecodeFirst(script) ==
    IF script = <<>> THEN Fail
    ELSE LET op == script[1] IN
         IF op = 0 THEN Ok([h |-> 0, neg |-> FALSE, rest |-> Tail(script), minimal |-> TRUE])
         ELSE IF op \in 81..96 THEN Ok([h |-> op - 80, neg |-> FALSE, rest |-> Tail(script), minimal |-> TRUE])
         ELSE IF op \in 1..75 THEN
              IF Len(script) < 1 + op \/ op > 4 THEN Fail
              ELSE LET d   == SubSeq(script, 2, 1 + op)
                       top == Last(d)
                       mag == Append(Front(d), top % 128)
                   IN Ok([h |-> MagValue(mag), neg |-> top >= 128, rest |-> Drop(script, 1 + op),
                          minimal |-> NumMinimal(d) /\ PushMinimal(op, d)])
         ELSE Fail

(* shortest possible push length, stated arithmetically *)
PushLen(h) == IF h <= 16 THEN 1
              ELSE 2 + (IF h >= 128 THEN 1 ELSE 0) + (IF h >= 32768 THEN 1 ELSE 0) + (IF h >= 8388608 THEN 1 ELSE 0)

(* ---------------------------------------------------------------- subsidy *)
FiftyBtc       == <<1, 42, 5, 242, 0>>          \* 5 000 000 000 = 0x012A05F200
FiftyBtcScaled == <<4, 168, 23, 200>>           \* 5 000 000 000 / 64 = 78 125 000 = 0x04A817C8 (stage A)
MainInterval    == 210000
RegtestInterval == 150
RECURSIVE Halve(_, _)
Halve(x, k) == IF k = 0 THEN x ELSE Halve(BigShr(x, 1), k - 1)
Subsidy(h, interval, base) == LET k == h \div interval IN IF k >= 64 THEN <<>> ELSE Halve(base, k)

(* the amount the first output claims: default = subsidy; explicit <= subsidy else error;  *)
(* without a height the explicit reward is taken as is                                     *)
Claim(hasH, h, interval, base, hasR, reward) ==
    IF hasH THEN LET s == Subsidy(h, interval, base) IN
                 IF hasR THEN (IF BigLt(s, reward) THEN Fail ELSE Ok(reward)) ELSE Ok(s)
    ELSE IF hasR THEN Ok(reward) ELSE Fail

(* ----------------------------------------------------------- byte layout *)
CS(n) == IF n < 253 THEN <<n>>
         ELSE IF n < 65536 THEN <<253>> \o LE(n, 2)
         ELSE <<254>> \o LE(n, 4)
NullOutpoint       == Rep(0, 32) \o Rep(255, 4)
CommitmentHeader   == <<170, 33, 169, 237>>
CommitmentSpk(c)   == <<106, 36>> \o CommitmentHeader \o c            \* OP_RETURN PUSH36
ReservedValue      == Rep(0, 32)
ReservedWitness    == <<1, 32>> \o ReservedValue                       \* one item of 32 bytes
CoinbaseScript(hasH, h, extra) == IF hasH THEN HeightPush(h) \o extra ELSE extra
ScriptTooLong(s)   == Len(s) > 100
TxInBytes(prev, script, seq) == prev \o CS(Len(script)) \o script \o seq
TxOutBytes(val8, spk)        == val8 \o CS(Len(spk)) \o spk
CoinbaseTxIn(hasH, h, extra, seq) ==
    LET s == CoinbaseScript(hasH, h, extra) IN
    IF ScriptTooLong(s) THEN Fail ELSE Ok(TxInBytes(NullOutpoint, s, seq))

(* the whole transaction; version / sequence / locktime are free (the property does not fix them) *)
CoinbaseTxB(base, version4, seq4, lock4, hasH, h, extra, spk, interval, hasR, reward, hasC, commitment) ==
    LET s  == CoinbaseScript(hasH, h, extra)
        cl == Claim(hasH, h, interval, base, hasR, reward)
    IN IF ScriptTooLong(s) \/ ~cl.ok THEN Fail
       ELSE Ok(version4 \o (IF hasC THEN <<0, 1>> ELSE <<>>)
               \o <<1>> \o TxInBytes(NullOutpoint, s, seq4)
               \o (IF hasC THEN <<2>> ELSE <<1>>)
               \o TxOutBytes(BigToLE(cl.v, 8), spk)
               \o (IF hasC THEN TxOutBytes(Rep(0, 8), CommitmentSpk(commitment)) ELSE <<>>)
               \o (IF hasC THEN ReservedWitness ELSE <<>>)
               \o lock4)
CoinbaseTx(version4, seq4, lock4, hasH, h, extra, spk, interval, hasR, reward, hasC, commitment) ==
    CoinbaseTxB(FiftyBtc, version4, seq4, lock4, hasH, h, extra, spk, interval, hasR, reward, hasC, commitment)

(* ------------------------------------------- local transaction cursor, prefix L *)
(* b = bytes, p = 1-based position of the next unread byte.  CompactSize values must fit  *)
(* TLC integers (FF-form and FE-form >= 2^31 are refused: not produced by the generators). *)
Has(b, p, n) == p + n - 1 <= Len(b)
LRdCS(b, p) ==
    IF ~Has(b, p, 1) THEN Fail
    ELSE IF b[p] < 253 THEN Ok([n |-> b[p], p |-> p + 1])
    ELSE IF b[p] = 253 THEN (IF Has(b, p, 3) THEN Ok([n |-> FromLE(SubSeq(b, p + 1, p + 2)), p |-> p + 3]) ELSE Fail)
    ELSE IF b[p] = 254 THEN (IF Has(b, p, 5) /\ b[p + 4] < 128
                             THEN Ok([n |-> FromLE(SubSeq(b, p + 1, p + 4)), p |-> p + 5]) ELSE Fail)
    ELSE Fail
LRdBytes(b, p) ==                      \* CompactSize length + that many bytes
    LET c == LRdCS(b, p) IN
    IF ~c.ok THEN Fail
    ELSE IF ~Has(b, c.v.p, c.v.n) THEN Fail
    ELSE Ok([d |-> SubSeq(b, c.v.p, c.v.p + c.v.n - 1), p |-> c.v.p + c.v.n])
LRdIn(b, p) ==
    IF ~Has(b, p, 36) THEN Fail
    ELSE LET s == LRdBytes(b, p + 36) IN
         IF ~s.ok THEN Fail
         ELSE IF ~Has(b, s.v.p, 4) THEN Fail
         ELSE Ok([x |-> [prev |-> SubSeq(b, p, p + 35), script |-> s.v.d, seq |-> SubSeq(b, s.v.p, s.v.p + 3)],
                  p |-> s.v.p + 4])
LRdOut(b, p) ==
    IF ~Has(b, p, 8) THEN Fail
    ELSE LET s == LRdBytes(b, p + 8) IN
         IF ~s.ok THEN Fail
         ELSE Ok([x |-> [value |-> SubSeq(b, p, p + 7), spk |-> s.v.d], p |-> s.v.p])
RECURSIVE LRdIns(_, _, _, _)
LRdIns(b, p, n, acc) == IF n = 0 THEN Ok([xs |-> acc, p |-> p])
                        ELSE LET r == LRdIn(b, p) IN
                             IF ~r.ok THEN Fail ELSE LRdIns(b, r.v.p, n - 1, Append(acc, r.v.x))
RECURSIVE LRdOuts(_, _, _, _)
LRdOuts(b, p, n, acc) == IF n = 0 THEN Ok([xs |-> acc, p |-> p])
                         ELSE LET r == LRdOut(b, p) IN
                              IF ~r.ok THEN Fail ELSE LRdOuts(b, r.v.p, n - 1, Append(acc, r.v.x))
RECURSIVE LRdItems(_, _, _, _)
LRdItems(b, p, n, acc) == IF n = 0 THEN Ok([xs |-> acc, p |-> p])
                          ELSE LET r == LRdBytes(b, p) IN
                               IF ~r.ok THEN Fail ELSE LRdItems(b, r.v.p, n - 1, Append(acc, r.v.d))
RECURSIVE LRdStacks(_, _, _, _)
LRdStacks(b, p, n, acc) == IF n = 0 THEN Ok([xs |-> acc, p |-> p])
                           ELSE LET c == LRdCS(b, p) IN
                                IF ~c.ok THEN Fail
                                ELSE LET r == LRdItems(b, c.v.p, c.v.n, <<>>) IN
                                     IF ~r.ok THEN Fail ELSE LRdStacks(b, r.v.p, n - 1, Append(acc, r.v.xs))

(* one transaction starting at p: fields, the position after it, and the byte ranges needed for raw / txid *)
LRdTx(b, p) ==
    IF ~Has(b, p, 6) THEN Fail
    ELSE LET segwit == b[p + 4] = 0 /\ b[p + 5] = 1
             p0     == IF segwit THEN p + 6 ELSE p + 4
             ci     == LRdCS(b, p0)
         IN IF ~ci.ok THEN Fail
            ELSE LET ins == LRdIns(b, ci.v.p, ci.v.n, <<>>) IN
                 IF ~ins.ok THEN Fail
                 ELSE LET co == LRdCS(b, ins.v.p) IN
                      IF ~co.ok THEN Fail
                      ELSE LET outs == LRdOuts(b, co.v.p, co.v.n, <<>>) IN
                           IF ~outs.ok THEN Fail
                           ELSE LET wits == IF segwit THEN LRdStacks(b, outs.v.p, ci.v.n, <<>>)
                                                      ELSE Ok([xs |-> <<>>, p |-> outs.v.p])
                                IN IF ~wits.ok THEN Fail
                                   ELSE IF ~Has(b, wits.v.p, 4) THEN Fail
                                   ELSE Ok([version |-> SubSeq(b, p, p + 3), segwit |-> segwit,
                                            ins |-> ins.v.xs, outs |-> outs.v.xs, wits |-> wits.v.xs,
                                            locktime |-> SubSeq(b, wits.v.p, wits.v.p + 3),
                                            start |-> p, core |-> p0, coreEnd |-> outs.v.p, end |-> wits.v.p + 4])
LRaw(b, t)     == SubSeq(b, t.start, t.end - 1)
LStripped(b, t) == t.version \o SubSeq(b, t.core, t.coreEnd - 1) \o t.locktime     \* BIP144 txid serialisation
LTxid(b, t)    == Hash256(LStripped(b, t))
LWtxid(b, t)   == Hash256(LRaw(b, t))

(* serialisation of a transaction record [version, segwit, ins, outs, wits, locktime] *)
RECURSIVE LSerIns(_)
LSerIns(xs) == IF xs = <<>> THEN <<>> ELSE TxInBytes(Head(xs).prev, Head(xs).script, Head(xs).seq) \o LSerIns(Tail(xs))
RECURSIVE LSerOuts(_)
LSerOuts(xs) == IF xs = <<>> THEN <<>> ELSE TxOutBytes(Head(xs).value, Head(xs).spk) \o LSerOuts(Tail(xs))
RECURSIVE LSerItems(_)
LSerItems(xs) == IF xs = <<>> THEN <<>> ELSE CS(Len(Head(xs))) \o Head(xs) \o LSerItems(Tail(xs))
RECURSIVE LSerStacks(_)
LSerStacks(xs) == IF xs = <<>> THEN <<>> ELSE CS(Len(Head(xs))) \o LSerItems(Head(xs)) \o LSerStacks(Tail(xs))
LSerCore(t) == CS(Len(t.ins)) \o LSerIns(t.ins) \o CS(Len(t.outs)) \o LSerOuts(t.outs)
LSerNoWit(t) == t.version \o LSerCore(t) \o t.locktime
LSer(t) == IF t.segwit THEN t.version \o <<0, 1>> \o LSerCore(t) \o LSerStacks(t.wits) \o t.locktime
           ELSE LSerNoWit(t)
LFields(t) == [version |-> t.version, segwit |-> t.segwit, ins |-> t.ins, outs |-> t.outs, wits |-> t.wits,
               locktime |-> t.locktime]
=============================================================================
