CONSTANTS EmitRows = TRUE Big = FALSE CP = 67 CB = 7 CN = 79 CGx = 2 CGy = 22
INIT Init
NEXT Next
INVARIANT Closure
INVARIANT Commut
INVARIANT Identity
INVARIANT Inverse
INVARIANT MulIsRepAdd
INVARIANT MulOrder
INVARIANT Distrib
INVARIANT MulLoopInv
INVARIANT KeyGenRange
INVARIANT Emit
CHECK_DEADLOCK FALSE
