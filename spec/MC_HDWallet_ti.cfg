CONSTANTS Big = FALSE CP = 43 CB = 7 CN = 31 CGx = 2 CGy = 12
ClassLevelMnemonic = FALSE
MaxWallets = 2
PassSel = {1, 2}
Strengths = {8, 12}
GivenSel = {1, 3}
PathIdxSel = {4}
MaxPathLen = 1
ChildIdxSel = {4}
MaxDepth = 1
ScriptSel = {1}
Interleave = TRUE
KeyStr <- MCKeyStr
KeyOf <- MCKeyOf
AddrStr <- MCAddrStr
INIT MCInit
NEXT MCNext
INVARIANT NoSharedState
INVARIANT MC_FreshEntropy
INVARIANT NewIsFresh
INVARIANT MC_Consistent
INVARIANT MC_Restore
INVARIANT OutCorrect
INVARIANT GhostSound
INVARIANT NoCollision
INVARIANT Census
PROPERTY Immutable
PROPERTY QueriesPure
CHECK_DEADLOCK FALSE
