\* thorough tier: rpc x two peers x direct handler calls
CONSTANTS NPeers = 2  MaxMsgs = 1  Kinds = {"ping", "inv"}  Faults = TRUE
MaxStops = 1  MaxIbd = 1  DirectKinds = {"inv500", "feefilter"}  MaxDirect = 1  Devs = {}
SeedSet = {1, 2}  RpcSet = {TRUE}
SPECIFICATION Spec
INVARIANT TypeOK
INVARIANT Numbering
INVARIANT HelloFirst
INVARIANT CloseOnce
INVARIANT AfterStopBounded
INVARIANT Accounted
INVARIANT NoStrangers
INVARIANT StoppedMeans
INVARIANT ExitOnlyByStop
INVARIANT IbdOnce
PROPERTY QuietAfterExit
PROPERTY AppendOnly
PROPERTY StopTerminates
PROPERTY StopReturns
PROPERTY RpcTerminates
CHECK_DEADLOCK FALSE
