CONSTANTS LensSmall = {1, 2, 3, 74, 75, 76, 77, 78, 254, 255, 256, 257, 258}  LensBig = {65534, 65535, 65536, 65537, 70000}  EveryLen = 3000
MaxBytes = 6  ByteAlpha = {0, 1, 2, 76, 77, 78, 81, 118, 187}
WitLens = {0, 1, 252, 253, 254, 255, 256, 65535, 65536, 70000}  WitLens3 = {0, 1, 252, 253, 256}  MaxRedeem = 1100  Deviation = "none"
INIT Init
NEXT Next
INVARIANT AsmThenDisasm
INVARIANT AsmIsMinimal
INVARIANT HeaderIsShortestValidForm
INVARIANT DisasmThenAsm
INVARIANT WitnessRoundTrip
INVARIANT WitnessUsesCompactSize
INVARIANT TemplateDisassemblesToIntent
INVARIANT TemplateBytePatterns
CHECK_DEADLOCK FALSE
